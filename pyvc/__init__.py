"""PyVC: contract-based verification-condition generation for the real pytableaux source.

Modules
  source   - locate FunctionDefs in /repo's working tree (file + qualname), hash them
  interp   - symbolic executor for the PyVC-0 Python subset (path forking by replay)
  smt      - obligations, back ends (z3 5.1 API, cvc5 / z3 4.8.12 CLIs), models
  report   - evidence, replay files, known findings, verdict lines and exit codes
  main     - command line (check / replay / selftest)
"""
import os

REPO = os.environ.get('VERIF_REPO', '/repo')
VERIF = os.path.dirname(os.path.dirname(os.path.abspath(__file__)))
