"""fork-based parallel map (obligation generation + discharge per work item in a worker process)."""
from __future__ import annotations
import multiprocessing as mp, os, traceback

_FN = None
def _call(x):
    try:
        return ('ok', _FN(x))
    except BaseException as e:
        return ('err', f'{x!r}: ' + ''.join(traceback.format_exception(type(e), e, e.__traceback__))[-1500:])

def pmap(fn, items, jobs=None):
    global _FN
    items = list(items)
    jobs = jobs or min(len(items), int(os.environ.get('VERIF_JOBS', '16')))
    if jobs <= 1 or len(items) <= 1:
        return [fn(x) for x in items]
    _FN = fn
    ctx = mp.get_context('fork')
    with ctx.Pool(jobs) as pool:
        out = pool.map(_call, items, chunksize=1)
    res = []
    for tag, v in out:
        if tag == 'err': raise RuntimeError('worker failed: ' + v)
        res.append(v)
    return res

# ---------------------------------------------------------------------------------------------------------------------
# hard wall-clock guard for code under test that may not return (a changed tree can loop inside one proof step, where
# the tableau's own build_timeout is never consulted)
import contextlib, signal, threading, time

class HardTimeout(BaseException):
    "raised by the alarm; BaseException so that `except Exception` in the code under test does not swallow it"

class _Guard:
    fired = False

@contextlib.contextmanager
def hard_timeout(seconds):
    """yields a guard whose .fired tells whether the alarm went off -- the code under test may replace the HardTimeout
    by an exception of its own (e.g. a context manager's __exit__ raising), so callers check .fired, not only the exception"""
    g = _Guard()
    if threading.current_thread() is not threading.main_thread():
        yield g; return
    old_handler = signal.getsignal(signal.SIGALRM)
    outer = signal.getitimer(signal.ITIMER_REAL)[0]
    def handler(sig, frm):
        g.fired = True
        raise HardTimeout()
    signal.signal(signal.SIGALRM, handler)
    # periodic: code under test that catches the first alarm (a retry loop, an __exit__ that raises) is interrupted again
    signal.setitimer(signal.ITIMER_REAL, min(seconds, outer) if outer else seconds, 0.25)
    t0 = time.time()
    try:
        yield g
    finally:
        signal.setitimer(signal.ITIMER_REAL, 0)
        signal.signal(signal.SIGALRM, old_handler)
        if outer:
            signal.setitimer(signal.ITIMER_REAL, max(outer - (time.time() - t0), 0.01))
