"""fork-based parallel map (obligation generation + discharge per work item in a worker process)."""
from __future__ import annotations
import multiprocessing as mp, os, traceback

_FN = None
def _call(x):
    try:
        return ('ok', _FN(x))
    except BaseException as e:
        return ('err', f'{x!r}: ' + ''.join(traceback.format_exception(type(e), e, e.__traceback__))[-1500:])

def pmap(fn, items, jobs=None):
    global _FN
    items = list(items)
    jobs = jobs or min(len(items), int(os.environ.get('VERIF_JOBS', '16')))
    if jobs <= 1 or len(items) <= 1:
        return [fn(x) for x in items]
    _FN = fn
    ctx = mp.get_context('fork')
    with ctx.Pool(jobs) as pool:
        out = pool.map(_call, items, chunksize=1)
    res = []
    for tag, v in out:
        if tag == 'err': raise RuntimeError('worker failed: ' + v)
        res.append(v)
    return res
