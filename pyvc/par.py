"""fork-based parallel map (obligation generation + discharge per work item in a worker process)."""
from __future__ import annotations
import os, traceback

CHILDREN: set[int] = set()        # live worker pids (the watchdog in pyvc.main kills them)

def _run_item(fn, x):
    try:
        return ('ok', fn(x))
    except BaseException as e:
        return ('err', f'{x!r}: ' + ''.join(traceback.format_exception(type(e), e, e.__traceback__))[-1500:])

def pmap(fn, items, jobs=None):
    """ordered parallel map, one forked process per item (at most `jobs` at a time).  A process per item keeps the memory of one
    work item from accumulating in a long-lived worker, and a worker that dies (killed for memory, crashed interpreter) is seen as
    the end of its pipe: its item is reported as failed instead of being waited for forever."""
    import pickle, select
    items = list(items)
    jobs = jobs or min(len(items), int(os.environ.get('VERIF_JOBS', '16')))
    if jobs <= 1 or len(items) <= 1:
        return [fn(x) for x in items]
    n = len(items)
    out = [None] * n
    running = {}                     # pid -> [index, read fd, buffer]
    nxt = 0
    try:
        while nxt < n or running:
            while nxt < n and len(running) < jobs:
                r, w = os.pipe()
                pid = os.fork()
                if pid == 0:
                    code = 0
                    try:
                        os.close(r)
                        for _pid, (_i, fd, _b) in running.items():
                            try: os.close(fd)
                            except OSError: pass
                        try: data = pickle.dumps(_run_item(fn, items[nxt]), protocol=pickle.HIGHEST_PROTOCOL)
                        except BaseException as e: data = pickle.dumps(('err', f'{items[nxt]!r}: result cannot be sent back: {e!r}'))
                        with os.fdopen(w, 'wb') as f: f.write(data)
                    except BaseException:
                        code = 1
                    finally:
                        os._exit(code)
                os.close(w)
                running[pid] = [nxt, r, bytearray()]; CHILDREN.add(pid)
                nxt += 1
            ready, _, _ = select.select([v[1] for v in running.values()], [], [], 1.0)
            for pid, (i, r, buf) in list(running.items()):
                if r not in ready: continue
                chunk = os.read(r, 1 << 20)
                if chunk:
                    buf.extend(chunk); continue
                os.close(r)
                try: _, status = os.waitpid(pid, 0)
                except ChildProcessError: status = 0
                del running[pid]; CHILDREN.discard(pid)
                if buf:
                    try: out[i] = pickle.loads(bytes(buf))
                    except Exception as e: out[i] = ('err', f'{items[i]!r}: unreadable worker result ({e!r})')
                else:
                    out[i] = ('err', f'{items[i]!r}: the worker process ended without a result (wait status {status})')
    finally:
        for pid, (i, r, buf) in running.items():
            try: os.kill(pid, 9)
            except OSError: pass
            try: os.close(r)
            except OSError: pass
            try: os.waitpid(pid, 0)
            except OSError: pass
            CHILDREN.discard(pid)
    res = []
    for tag, v in out:
        if tag == 'err': raise RuntimeError('worker failed: ' + v)
        res.append(v)
    return res

# ---------------------------------------------------------------------------------------------------------------------
# hard wall-clock guard for code under test that may not return (a changed tree can loop inside one proof step, where
# the tableau's own build_timeout is never consulted)
import contextlib, signal, threading, time

class HardTimeout(BaseException):
    "raised by the alarm; BaseException so that `except Exception` in the code under test does not swallow it"

class _Guard:
    fired = False

@contextlib.contextmanager
def hard_timeout(seconds, wall_factor=30):
    """yields a guard whose .fired tells whether the alarm went off -- the code under test may replace the HardTimeout
    by an exception of its own (e.g. a context manager's __exit__ raising), so callers check .fired, not only the exception.

    The budget is CPU time of this process (ITIMER_PROF): code under test that does not return burns CPU, while a machine
    whose cores are all busy only stretches wall-clock time -- a verdict must not flip because other jobs run.  A wall-clock
    backstop of wall_factor x seconds catches code that blocks without computing."""
    g = _Guard()
    if threading.current_thread() is not threading.main_thread():
        yield g; return
    old_prof = signal.getsignal(signal.SIGPROF); old_alrm = signal.getsignal(signal.SIGALRM)
    outer_prof = signal.getitimer(signal.ITIMER_PROF)[0]; outer_real = signal.getitimer(signal.ITIMER_REAL)[0]
    def handler(sig, frm):
        g.fired = True
        raise HardTimeout()
    signal.signal(signal.SIGPROF, handler); signal.signal(signal.SIGALRM, handler)
    # periodic: code under test that catches the first alarm (a retry loop, an __exit__ that raises) is interrupted again
    signal.setitimer(signal.ITIMER_PROF, min(seconds, outer_prof) if outer_prof else seconds, 0.25)
    wall = seconds * wall_factor
    signal.setitimer(signal.ITIMER_REAL, min(wall, outer_real) if outer_real else wall, 0.25)
    t0 = time.time(); c0 = time.process_time()
    try:
        yield g
    finally:
        signal.setitimer(signal.ITIMER_PROF, 0); signal.setitimer(signal.ITIMER_REAL, 0)
        signal.signal(signal.SIGPROF, old_prof); signal.signal(signal.SIGALRM, old_alrm)
        if outer_prof: signal.setitimer(signal.ITIMER_PROF, max(outer_prof - (time.process_time() - c0), 0.01))
        if outer_real: signal.setitimer(signal.ITIMER_REAL, max(outer_real - (time.time() - t0), 0.01))
