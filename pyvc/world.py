"""The `World` binds the interpreter to the sidecar: contracts for live callables, the inline set, builtin
models, loop specifications and the policy for concrete ("native") operations.

Policy for concrete values: operations on plain data (int, float, bool, str, None, tuples of those, enum
members compared by identity) are executed by CPython.  Calls into repo code are *never* executed natively
unless the sidecar lists the callable under `native_ok` (each such entry is reported in `trusted_base`).
"""
from __future__ import annotations
import builtins, enum, functools, inspect, itertools, operator, types
import z3
from . import source
from .interp import (Outside, PyExc, SymVal, GenList, Closure, BoundSource, Contract, SuperProxy, LocalList, LocalDict, LocalSet,
                     LoopSpec, Interp, is_sym)

PLAIN = (int, float, bool, str, type(None), bytes)

def is_plain(v):
    if isinstance(v, PLAIN): return True
    if isinstance(v, enum.Enum): return True
    if isinstance(v, (tuple, frozenset)): return all(is_plain(x) for x in v)
    return False

class World:
    def __init__(self):
        self.contracts = {}        # id/function object -> Contract
        self.inline = set()        # function objects whose source may be interpreted at call sites
        self.native_ok = set()     # live callables that may be executed natively on concrete arguments
        self.loops = {}            # (fi.key, ordinal) -> LoopSpec
        self.builtin_models = dict(DEFAULT_BUILTINS)
        self.transparent = []      # predicates for transparent context managers
        self.attr_hooks = []       # callables (it, obj, name) -> value | NotImplemented for concrete objects
        self.used_native = set()
        self.used_inline = set()

    # ---- registration
    def contract(self, func, fn=None, *, trusted=False, name=None):
        f = _unwrap(func)
        def reg(fn):
            self.contracts[f] = Contract(fn, name or getattr(f, '__qualname__', repr(f)), trusted)
            return fn
        return reg(fn) if fn is not None else reg
    def allow_inline(self, *funcs):
        for f in funcs: self.inline.add(_unwrap(f))
    def allow_native(self, *funcs):
        for f in funcs: self.native_ok.add(f)
    def loop(self, fi_key, ordinal, spec: LoopSpec, shape=None):
        """a loop contract, addressed by function and loop ordinal; `shape(fi, loop_stmt)` lets the same contract follow the loop when a
        maintenance edit moves it into a helper function or changes its ordinal (the contract speaks about locals by name)"""
        self.loops[(fi_key, ordinal)] = spec
        if shape is not None and getattr(spec, 'canon', None) is None:
            try: spec.canon = f"{fi_key.split(':', 1)[1]}.loop{ordinal}"
            except Exception: pass
        if shape is not None: self.loop_shapes = getattr(self, 'loop_shapes', []) + [(shape, spec)]
    def loop_spec(self, fi, ordinal, st=None):
        sp = self.loops.get((fi.key, ordinal))
        if sp is None and st is not None:
            for shape, spec in getattr(self, 'loop_shapes', []):
                try:
                    if shape(fi, st): return spec
                except Exception: pass
        return sp
    def transparent_cm(self, cm):
        return any(p(cm) for p in self.transparent)

    # ---- concrete operations
    def lift(self, v, like):
        "python value -> z3 value of the sort of `like`"
        if isinstance(v, z3.ExprRef): return v
        s = like.sort()
        if s == z3.IntSort(): return z3.IntVal(int(v))
        if s == z3.RealSort(): return z3.RealVal(str(v))
        if s == z3.BoolSort(): return z3.BoolVal(bool(v))
        raise Outside(f'cannot lift {v!r} to {s}')

    def native_binop(self, name, a, b, it):
        ops = dict(Add=operator.add, Sub=operator.sub, Mult=operator.mul, FloorDiv=operator.floordiv, Mod=operator.mod,
                   BitOr=operator.or_, BitAnd=operator.and_, BitXor=operator.xor, RShift=operator.rshift,
                   LShift=operator.lshift, Div=operator.truediv, Pow=operator.pow)
        for h in self.attr_hooks:
            r = h(it, ('binop', name), (a, b))
            if r is not NotImplemented: return r
        if (is_plain(a) or isinstance(a, (list, tuple, set, frozenset, dict))) and (is_plain(b) or isinstance(b, (list, tuple, set, frozenset, dict))):
            if isinstance(a, (list, tuple)) and isinstance(b, (list, tuple)) and name == 'Add':
                return type(a)(list(a) + list(b)) if type(a) is type(b) else operator.add(a, b)
            try:
                r = ops[name](a, b)
                return LocalList(r) if type(r) is list else r        # a list built by the interpreted code is its own
            except ZeroDivisionError as e: raise PyExc(ZeroDivisionError, e.args)
            except TypeError as e: raise PyExc(TypeError, e.args)
        raise Outside(f'native binop {name} on {type(a).__name__}, {type(b).__name__}')
    def native_unop(self, name, v, it):
        for h in self.attr_hooks:
            r = h(it, ('unop', name), (v,))
            if r is not NotImplemented: return r
        if is_plain(v) and not isinstance(v, enum.Enum):
            return dict(neg=operator.neg, pos=operator.pos, invert=operator.invert)[name](v)
        if isinstance(v, enum.Flag) and name == 'invert':
            return ~v                      # complement of a concrete enum.Flag member: pure
        raise Outside(f'native unop {name} on {type(v).__name__}')
    def native_compare(self, name, a, b, it):
        ops = dict(Eq=operator.eq, NotEq=operator.ne, Lt=operator.lt, LtE=operator.le, Gt=operator.gt, GtE=operator.ge)
        for h in self.attr_hooks:
            r = h(it, ('compare', name), (a, b))
            if r is not NotImplemented: return r
        if isinstance(a, (tuple, list)) and isinstance(b, (tuple, list)) and (any(is_sym(x) for x in a) or any(is_sym(x) for x in b)):
            import ast as _ast
            if name not in ('Eq', 'NotEq'):
                # lexicographic order of equally long symbolic tuples
                if len(a) != len(b): raise Outside('ordering of symbolic tuples of different length')
                def B(c): return z3.BoolVal(c) if isinstance(c, bool) else c
                strict = {'Lt': _ast.Lt, 'LtE': _ast.Lt, 'Gt': _ast.Gt, 'GtE': _ast.Gt}[name]
                res = z3.BoolVal(name in ('LtE', 'GtE'))           # all components equal
                for x, y in reversed(list(zip(a, b))):
                    res = z3.Or(B(it.compare(strict, x, y)), z3.And(B(it.compare(_ast.Eq, x, y)), res))
                return z3.simplify(res)
            if len(a) != len(b): return name == 'NotEq'
            cs = [it.compare(_ast.Eq, x, y) for x, y in zip(a, b)]
            if all(isinstance(c, bool) for c in cs): r = all(cs)
            else: r = z3.And(*[c if not isinstance(c, bool) else z3.BoolVal(c) for c in cs])
            return r if name == 'Eq' else it.not_(r)
        if is_plain(a) and is_plain(b) or isinstance(a, type) or isinstance(b, type):
            try: return ops[name](a, b)
            except TypeError as e: raise PyExc(TypeError, e.args)
        if isinstance(a, (tuple, list, set, frozenset, dict)) and isinstance(b, (tuple, list, set, frozenset, dict)):
            try: return ops[name](a, b)
            except TypeError as e: raise PyExc(TypeError, e.args)
        if a is None or b is None:
            if name == 'Eq': return a is b
            if name == 'NotEq': return a is not b
            raise PyExc(TypeError, ('ordering with None',))
        raise Outside(f'native compare {name} on {type(a).__name__}, {type(b).__name__}')
    def native_contains(self, container, x, it):
        if isinstance(container, (tuple, list, set, frozenset, dict, str, GenList)) and (is_plain(x) or isinstance(x, type)):
            try: return x in container
            except TypeError as e: raise PyExc(TypeError, e.args)
        for h in self.attr_hooks:
            r = h(it, ('contains',), (container, x))
            if r is not NotImplemented: return r
        if isinstance(container, (tuple, list, set, frozenset, dict)):
            return any(x is i or (is_plain(i) and is_plain(x) and i == x) for i in container)
        import collections.abc as _abc
        if is_plain(x) and isinstance(container, (_abc.Set, _abc.Sequence, _abc.Mapping)):
            # concrete read-only repo container (qsetf, MapProxy, ...) holding plain items: executed natively
            self.used_native.add(f'{type(container).__name__}.__contains__')
            try: return x in container
            except TypeError as e: raise PyExc(TypeError, e.args)
        raise Outside(f'native contains on {type(container).__name__}')
    def native_getattr(self, it, obj, name):
        for h in self.attr_hooks:
            r = h(it, ('getattr', name), (obj,))
            if r is not NotImplemented: return r
        if obj is None: raise PyExc(AttributeError, (f"'NoneType' object has no attribute {name!r}",))
        if isinstance(obj, types.ModuleType) or isinstance(obj, type) or isinstance(obj, enum.Enum):
            try: return getattr(obj, name)
            except AttributeError as e: raise PyExc(AttributeError, e.args)
        if isinstance(obj, (str, tuple, list, dict, set, frozenset, int, float, LocalList, LocalDict, GenList, types.MappingProxyType)):
            try: m = getattr(obj, name)
            except AttributeError as e: raise PyExc(AttributeError, e.args)
            return m
        if isinstance(obj, slice) and name in ('start', 'stop', 'step'): return getattr(obj, name)
        raise Outside(f'getattr on concrete {type(obj).__name__}.{name}')
    def z3_getattr(self, it, obj, name):
        raise Outside(f'getattr on z3 term .{name}')
    def native_getitem(self, it, obj, k):
        for h in self.attr_hooks:
            r = h(it, ('getitem',), (obj, k))
            if r is not NotImplemented: return r
        if isinstance(obj, (tuple, list, str, dict, GenList)):
            try: return obj[k]
            except IndexError as e: raise PyExc(IndexError, e.args)
            except KeyError as e: raise PyExc(KeyError, e.args)
            except TypeError as e: raise PyExc(TypeError, e.args)
        if isinstance(obj, types.MappingProxyType) and (is_plain(k) or isinstance(k, type)):
            try: return obj[k]
            except KeyError as e: raise PyExc(KeyError, e.args)
        if isinstance(obj, type) and issubclass(obj, enum.Enum) and isinstance(k, str):
            try: return obj[k]
            except KeyError as e: raise PyExc(KeyError, e.args)
        raise Outside(f'getitem on concrete {type(obj).__name__}')
    def index_concrete_by_symbolic(self, it, obj, k):
        if isinstance(obj, (tuple, list, str)):
            n = len(obj)
            if not it.fork(z3.And(k >= -n, k < n)): raise PyExc(IndexError, ('index out of range',))
            # case split over the concrete sequence
            for i in range(-n, n):
                if it.fork(k == i): return obj[i]
            raise Outside('unreachable index split')
        raise Outside(f'symbolic index into {type(obj).__name__}')
    def native_iterate(self, it, v):
        if isinstance(v, (set, frozenset, str, range, dict)): return list(v)
        if isinstance(v, type) and issubclass(v, enum.Enum): return list(v)
        if isinstance(v, (map, zip, filter, itertools.chain, reversed)): return list(v)
        if isinstance(v, (type({}.keys()), type({}.values()), type({}.items()))): return list(v)       # views of a dict the interpreted code owns
        for h in self.attr_hooks:
            r = h(it, ('iterate',), (v,))
            if r is not NotImplemented: return r
        raise Outside(f'iterate concrete {type(v).__name__}')
    def native_len(self, it, v):
        for h in self.attr_hooks:
            r = h(it, ('len',), (v,))
            if r is not NotImplemented: return r
        raise Outside(f'len of concrete {type(v).__name__}')

    def super_getattr(self, it, sp: SuperProxy, name):
        recv = sp.recv
        if isinstance(recv, SymVal) and hasattr(recv, 'sym_super_getattr'):
            return recv.sym_super_getattr(it, sp.defcls, name)
        raise Outside(f'super().{name}')

    # ---- calls of live callables
    def call_live(self, it, f, args, kw):
        recv = None
        func = f
        if isinstance(f, types.MethodType):
            recv, func = f.__self__, f.__func__
        elif isinstance(f, types.BuiltinMethodType) and getattr(f, '__self__', None) is not None and not isinstance(f.__self__, types.ModuleType):
            try: m0 = self.builtin_models.get(f)
            except TypeError: m0 = None
            if m0 is not None: return m0(it, *args, **kw)
            return self.call_builtin_method(it, f, args, kw)
        base = _unwrap(func)
        c = self.contracts.get(base) or self.contracts.get(f)
        if c is not None:
            it.used_contracts.add(c.name)
            a = ([recv] if recv is not None else []) + list(args)
            return c.fn(it, *a, **kw)
        m = self.builtin_models.get(f) or self.builtin_models.get(base)
        if m is not None:
            return m(it, *args, **kw)
        if base in self.inline:
            fi = source.of_function(base)
            self.used_inline.add(fi.key)
            it.inlined.add(fi.key)
            a = ([recv] if recv is not None else []) + list(args)
            return it.call_source(fi, base, None, a, kw)
        if f in self.native_ok or base in self.native_ok:
            if any(is_sym(x) for x in args) or any(is_sym(x) for x in kw.values()):
                raise Outside(f'native call {getattr(f, "__qualname__", f)} with symbolic arguments')
            self.used_native.add(getattr(f, '__qualname__', repr(f)))
            try: return f(*args, **kw)
            except Exception as e: raise PyExc(type(e), e.args)
        if isinstance(f, type) and issubclass(f, BaseException):
            return _ExcInstance(f, args)
        # a module-level private helper of the package (e.g. a node group shared by two rules of one logic module): it has no
        # contract of its own, so the caller's obligation follows its body from source
        if isinstance(base, types.FunctionType) and recv is None and str(getattr(base, '__module__', '')).startswith('pytableaux.') \
                and '.' not in base.__qualname__ and base.__name__.startswith('_') and not base.__name__.startswith('__'):
            fi = source.of_function(base)
            self.used_inline.add(fi.key)
            it.inlined.add(fi.key)
            return it.call_source(fi, base, None, list(args), kw)
        raise Outside(f'call of {getattr(f, "__module__", "?")}.{getattr(f, "__qualname__", repr(f))} (no contract, not inline)')

    def call_builtin_method(self, it, f, args, kw):
        obj = f.__self__
        name = f.__name__
        if isinstance(obj, (LocalList, LocalDict)):
            try: return f(*args, **kw)
            except Exception as e: raise PyExc(type(e), e.args)
        if isinstance(obj, LocalSet) and name in ('add', 'update', 'discard', 'remove', 'clear', 'copy', 'union', 'difference', 'intersection', 'issubset', 'issuperset', 'isdisjoint', '__contains__'):
            # a set the interpreted code created itself, holding concrete items or tokens with value equality
            conv = []
            for a in args:
                if isinstance(a, (set, frozenset, list, tuple, GenList, LocalSet)): conv.append(a)
                elif name in ('update', 'union', 'difference', 'intersection', 'issubset', 'issuperset', 'isdisjoint'): conv.append(it.iterate(a))
                else: conv.append(a)
            flat = [x for a in conv for x in (a if isinstance(a, (set, frozenset, list, tuple, GenList)) else [a])]
            if any(is_sym(x) and not _concrete_hashable(x) for x in flat): raise Outside(f'set.{name} with symbolic items')
            try: r = f(*conv, **kw)
            except Exception as e: raise PyExc(type(e), e.args)
            return LocalSet(r) if isinstance(r, set) and not isinstance(r, LocalSet) else r
        if isinstance(obj, (str, tuple, frozenset, int, float)) or (isinstance(obj, (dict, list, set, types.MappingProxyType)) and name in READONLY_METHODS):
            if any(is_sym(x) for x in args):
                if isinstance(obj, dict) and name == 'get':
                    raise Outside('dict.get with symbolic key')
                raise Outside(f'{type(obj).__name__}.{name} with symbolic arguments')
            try: return f(*args, **kw)
            except Exception as e: raise PyExc(type(e), e.args)
        if isinstance(obj, GenList) and name in ('append', 'extend'):
            return f(*args, **kw)
        raise Outside(f'builtin method {type(obj).__name__}.{name}')

READONLY_METHODS = {'get', 'keys', 'values', 'items', 'index', 'count', 'copy', '__contains__', '__getitem__', 'isdisjoint', 'issubset', 'issuperset'}

def _ExcInstance(cls, args):        # exception *values* in the interpreted program
    from .interp import ExcValue
    return ExcValue(cls, tuple(args))

def _unwrap(f):
    if isinstance(f, (classmethod, staticmethod)): f = f.__func__
    if isinstance(f, types.MethodType): f = f.__func__
    try: return inspect.unwrap(f)
    except Exception: return f

# ------------------------------------------------------------------ builtin models (axioms; cross-checked in selftest)

def _b_len(it, x): return it.len(x)
def _b_isinstance(it, x, cls):
    if isinstance(x, SymVal): return x.sym_isinstance(it, cls)
    if isinstance(x, z3.ExprRef):
        ts = cls if isinstance(cls, tuple) else (cls,)
        if x.sort() == z3.IntSort(): return any(issubclass(int, t) for t in ts)
        if x.sort() == z3.BoolSort(): return any(issubclass(bool, t) for t in ts)
        if x.sort() == z3.RealSort(): return any(issubclass(float, t) for t in ts)
        raise Outside('isinstance of z3 term')
    if isinstance(x, (LocalList,)): return isinstance([], cls)
    if isinstance(x, (LocalDict,)): return isinstance({}, cls)
    from .interp import ExcValue
    if isinstance(x, ExcValue):
        ts = cls if isinstance(cls, tuple) else (cls,)
        return any(issubclass(x.cls, t) for t in ts)
    return isinstance(x, cls)
def _b_type(it, x):
    if isinstance(x, SymVal): return x.sym_type(it)
    if isinstance(x, z3.ExprRef): raise Outside('type() of z3 term')
    return type(x)
def _b_tuple(it, x=()): return tuple(it.iterate(x))
def _b_list(it, x=()): return LocalList(it.iterate(x))
def _b_iter(it, x): return GenList(it.iterate(x))
def _b_reversed(it, x): return GenList(reversed(it.iterate(x)))
def _b_enumerate(it, x, start=0): return GenList((i, v) for i, v in enumerate(it.iterate(x), start))
def _b_zip(it, *xs, strict=False):
    ls = [it.iterate(x) for x in xs]
    return GenList(zip(*ls))
def _b_map(it, f, *xs):
    ls = [it.iterate(x) for x in xs]
    return GenList(it.call(f, list(a), {}) for a in zip(*ls))
def _b_starmap(it, f, xs):
    return GenList(it.call(f, it.iterate(a), {}) for a in it.iterate(xs))
def _b_filter(it, f, xs):
    out = GenList()
    for x in it.iterate(xs):
        t = it.truth(x if f is None else it.call(f, [x], {}))
        if t: out.append(x)
    return out
def _b_any(it, xs):
    for x in it.iterate(xs):
        if it.truth(x): return True
    return False
def _b_all(it, xs):
    for x in it.iterate(xs):
        if not it.truth(x): return False
    return True
def _minmax(is_min):
    def f(it, *args, key=None, default=NotImplemented):
        import ast
        if key is not None:
            import operator as _op
            if isinstance(key, _op.attrgetter):
                names_ = key.__reduce__()[1]
                if len(names_) != 1 or '.' in names_[0]: raise Outside('min/max with a compound attrgetter key')
                attr_ = names_[0]
                keyf = lambda x: it.getattr(x, attr_)
            else:
                keyf = lambda x: it.call(key, [x], {})
            if len(args) == 1 and isinstance(args[0], SymVal) and hasattr(args[0], 'sym_minmax_key'):
                return args[0].sym_minmax_key(it, is_min, default, keyf)
            raise Outside('min/max with key')
        if len(args) == 1 and isinstance(args[0], SymVal) and hasattr(args[0], 'sym_minmax'):
            return args[0].sym_minmax(it, is_min, default)
        items = it.iterate(args[0]) if len(args) == 1 else list(args)
        if not items:
            if default is not NotImplemented: return default
            raise PyExc(ValueError, ('min() arg is an empty sequence',))
        best = items[0]
        for x in items[1:]:
            c = it.compare(ast.Lt if is_min else ast.Gt, x, best)
            if isinstance(c, bool):
                if c: best = x
            elif hasattr(best, 'sym_ite') or hasattr(x, 'sym_ite'):
                best = (best if hasattr(best, 'sym_ite') else x).sym_ite(it, c, x, best)
            elif isinstance(x, z3.ExprRef) or isinstance(best, z3.ExprRef):
                like = x if isinstance(x, z3.ExprRef) else best
                best = z3.If(c, it.world.lift(x, like), it.world.lift(best, like))
            else:
                best = x if it.truth(c) else best
        return best
    return f
def _b_divmod(it, a, b):
    import ast
    return (it.binop(ast.FloorDiv, a, b), it.binop(ast.Mod, a, b))
def _b_sum(it, xs, start=0):
    acc = start
    import ast
    for x in it.iterate(xs): acc = it.binop(ast.Add, acc, x)
    return acc
def _b_bool(it, x=False): return it.as_bool(x)
def _b_int(it, x=0):
    if isinstance(x, z3.ExprRef):
        if x.sort() == z3.IntSort(): return x
        if x.sort() == z3.BoolSort(): return z3.If(x, 1, 0)
        if x.sort() == z3.RealSort(): return z3.If(x >= 0, z3.ToInt(x), -z3.ToInt(-x))      # int() truncates toward zero
        raise Outside('int() of non-int term')
    if isinstance(x, SymVal) and hasattr(x, 'sym_int'): return x.sym_int(it)
    if is_plain(x):
        try: return int(x)
        except (ValueError, TypeError) as e: raise PyExc(type(e), e.args)
    raise Outside('int()')
def _b_float(it, x=0.0):
    if isinstance(x, z3.ArithRef): return z3.ToReal(x) if x.is_int() else x
    if isinstance(x, SymVal) and hasattr(x, 'sym_float'): return x.sym_float(it)
    if is_plain(x):
        try: return float(x)
        except (ValueError, TypeError) as e: raise PyExc(type(e), e.args)
    raise Outside('float()')
def _b_str(it, x=''):
    if is_sym(x): return '<sym>'
    return str(x)
def _b_repr(it, x): return '<repr>'
def _b_id(it, x): raise Outside('id()')
def _b_hash(it, x):
    if isinstance(x, SymVal) and hasattr(x, 'sym_hash'): return x.sym_hash(it)
    raise Outside('hash()')
def _b_getattr(it, obj, name, default=NotImplemented):
    if is_sym(name): raise Outside('computed getattr')
    try: return it.getattr(obj, name)
    except PyExc as e:
        if issubclass(e.cls, AttributeError) and default is not NotImplemented: return default
        raise
def _b_setattr(it, obj, name, v):
    if is_sym(name): raise Outside('computed setattr')
    it.setattr(obj, name, v)
def _b_hasattr(it, obj, name):
    try: it.getattr(obj, name); return True
    except PyExc as e:
        if issubclass(e.cls, AttributeError): return False
        raise
def _b_callable(it, x): return isinstance(x, (Contract, BoundSource, Closure)) or callable(x)
def _b_sorted(it, xs, key=None, reverse=False):
    items = it.iterate(xs)
    if any(is_sym(x) for x in items): raise Outside('sorted() of symbolic items')
    if key is not None: raise Outside('sorted with key')
    return LocalList(sorted(items, reverse=reverse))
def _concrete_hashable(x):
    "a token whose equality/hash are concrete python (no z3 inside): safe as a member of a local set"
    return isinstance(x, SymVal) and type(x).__hash__ is not object.__hash__ and type(x).__eq__ is not object.__eq__ and getattr(x, 'concrete_value_semantics', True)

def _b_set(it, xs=()):
    items = it.iterate(xs)
    if any(is_sym(x) and not _concrete_hashable(x) for x in items): raise Outside('set() of symbolic items')
    return LocalSet(items)
def _b_frozenset(it, xs=()):
    if isinstance(xs, SymVal) and hasattr(xs, 'sym_frozenset'): return xs.sym_frozenset(it)
    items = it.iterate(xs)
    if any(is_sym(x) for x in items): raise Outside('frozenset() of symbolic items')
    return frozenset(items)
def _b_dict(it, *a, **kw):
    d = LocalDict()
    if a:
        src = a[0]
        if isinstance(src, dict): d.update(src)
        else:
            for k, v in (it.iterate(p) for p in it.iterate(src)): d[k] = v
    d.update(kw)
    return d
def _b_range(it, *a):
    if any(is_sym(x) for x in a): raise Outside('range() with symbolic bounds needs a loop spec')
    return range(*a)
def _b_abs(it, x):
    if isinstance(x, z3.ExprRef): return z3.If(x >= 0, x, -x)
    return abs(x)
def _b_next(it, x, default=NotImplemented):
    if isinstance(x, GenList):
        # a generator (evaluated eagerly into a GenList) is one-shot: next() takes its first item away
        if len(x): return x.pop(0)
        if default is not NotImplemented: return default
        raise PyExc(StopIteration)
    items = it.iterate(x)
    if items: return items[0]
    if default is not NotImplemented: return default
    raise PyExc(StopIteration)
def _b_reduce(it, f, xs, *init):
    items = it.iterate(xs)
    if init: acc = init[0]
    else:
        if not items: raise PyExc(TypeError, ('reduce() of empty iterable with no initial value',))
        acc, items = items[0], items[1:]
    for x in items: acc = it.call(f, [acc, x], {})
    return acc
def _b_chain(it, *xs):
    out = GenList()
    for x in xs: out.extend(it.iterate(x))
    return out
def _b_chain_from(it, xs):
    out = GenList()
    for x in it.iterate(xs): out.extend(it.iterate(x))
    return out
def _b_product(it, *xs, repeat=1):
    ls = [it.iterate(x) for x in xs] * repeat
    return GenList(itertools.product(*ls))
def _b_islice(it, xs, *a):
    items = it.iterate(xs)
    if any(is_sym(x) for x in a): raise Outside('islice with symbolic bounds')
    return GenList(itertools.islice(items, *a))
def _b_zip_longest(it, *xs, fillvalue=None):
    return GenList(itertools.zip_longest(*[it.iterate(x) for x in xs], fillvalue=fillvalue))
def _b_repeat(it, x, n=None):
    if n is None: raise Outside('infinite repeat')
    return GenList([x] * n)

DEFAULT_BUILTINS = {
    len: _b_len, isinstance: _b_isinstance, type: _b_type, tuple: _b_tuple, list: _b_list, iter: _b_iter,
    reversed: _b_reversed, enumerate: _b_enumerate, zip: _b_zip, map: _b_map, filter: _b_filter,
    any: _b_any, all: _b_all, min: _minmax(True), max: _minmax(False), sum: _b_sum, bool: _b_bool, int: _b_int,
    str: _b_str, float: _b_float, repr: _b_repr, id: _b_id, hash: _b_hash, getattr: _b_getattr, hasattr: _b_hasattr, setattr: _b_setattr,
    callable: _b_callable, sorted: _b_sorted, set: _b_set, frozenset: _b_frozenset, dict: _b_dict, range: _b_range,
    divmod: _b_divmod, abs: _b_abs, next: _b_next, functools.reduce: _b_reduce, itertools.starmap: _b_starmap,
    itertools.chain: _b_chain, itertools.chain.from_iterable: _b_chain_from, itertools.product: _b_product, itertools.islice: _b_islice, itertools.zip_longest: _b_zip_longest,
    itertools.repeat: _b_repeat,
}
