"""Check context: collects obligations/results, bounded stand-in statistics, trusted base; decides verdict
lines and exit code; writes evidence and replay files.

Exit codes: 0 held (known findings allowed) / 1 violation / 2 undecided / 3 checker fault.
"""
from __future__ import annotations
import json, os, re, sys, time, traceback, hashlib
from . import VERIF, REPO
from .smt import Obligation, Result, discharge

KNOWN_PATH = os.path.join(VERIF, 'known_findings.json')
EXPECTED_PATH = os.path.join(VERIF, 'expected_obligations.json')

REPLAY_SECONDS = 60
REPLAY_TOTAL = 150

def _out_root():
    "evidence/ and replay/ live in /verif only for runs against /repo itself; scratch-copy runs (VERIF_REPO) write elsewhere"
    if os.path.realpath(REPO) == '/repo': return VERIF
    d = os.environ.get('VERIF_OUT') or os.path.join('/tmp', 'verif_scratch_out', os.path.basename(os.path.realpath(REPO)))
    os.makedirs(d, exist_ok=True)
    return d

def _added_note(prop):
    try:
        from checks.notes import ADDED
        return ADDED.get(prop, '')
    except Exception:
        return ''

def _san(name): return re.sub(r'[^A-Za-z0-9_.+-]', '_', name)[:150]

def load_known():
    try:
        with open(KNOWN_PATH) as f: return json.load(f)
    except FileNotFoundError:
        return {'findings': [], 'fixed': []}

class Ctx:
    def __init__(self, prop: str, tier: str, seed: int):
        self.prop, self.tier, self.seed = prop, tier, seed
        self.thorough = tier == 'thorough'
        self.t0 = time.time()
        self.results: list[Result] = []
        self.functions: dict[str, dict] = {}
        self.trusted: list[str] = []
        self.assumptions: list[str] = []
        self.dropped: list[str] = []          # what the extraction dropped
        self.bounded = None                   # dict for the stand-in part
        self.bounded_failures: list[dict] = []
        self.notes: list[str] = []
        self.level = 'other'
        self.explanation = ''
        self.replayers = {}                   # obligation-name prefix -> callable(result) -> dict
        self.extra = {}
        self.faults: list[str] = []
        self.samples: list = []
        self.exhaustive = None
        self.keep_smt2 = set()

    # -- registration helpers
    def trust(self, *items):
        for i in items:
            if i not in self.trusted: self.trusted.append(i)
    def assume(self, *items):
        for i in items:
            if i not in self.assumptions: self.assumptions.append(i)
    def drop(self, *items):
        for i in items:
            if i not in self.dropped: self.dropped.append(i)
    def under_contract(self, fi):
        """fi: pyvc.source.FuncInfo"""
        self.functions[fi.key] = dict(file=fi.relfile, qualname=fi.qualname, lines=f'{fi.lineno}-{fi.end_lineno}', sha1=fi.sha1)
        return fi.where

    def add(self, ob: Obligation, **kw) -> Result:
        keep = len(self.samples) < 4 or ob.name in self.keep_smt2
        r = discharge(ob, thorough=self.thorough, keep_smt2=keep, **kw)
        if keep and ob.kind == 'smt' and len(self.samples) < 4 and r.smt2:
            one = ' '.join(r.smt2.split())
            self.samples.append(dict(obligation=ob.name, where=ob.where, status=r.status, smt2=one[:1500]))
        elif ob.kind == 'enum' and len([s for s in self.samples if s.get('kind') == 'enum']) < 2:
            self.samples.append(dict(obligation=ob.name, where=ob.where, status=r.status, kind='enum', meta={k: v for k, v in ob.meta.items() if k not in ('cex', 'cex_all')}))
        self.results.append(r)
        return r
    def add_result(self, r: Result):
        self.results.append(r)
        return r
    def restate(self, producer, old_prefix, new_prefix, keep=None):
        """run `producer(sub_ctx)` (obligations of another property that are premises of this one) and record the results whose
        names start with old_prefix under new_prefix, with their functions and replayers; nothing else of the sub-run is kept"""
        sub = Ctx(self.prop, self.tier, self.seed)
        producer(sub)
        n = 0
        for r in sub.results:
            if not r.name.startswith(old_prefix): continue
            if keep is not None and not keep(r.name): continue
            r.name = new_prefix + r.name[len(old_prefix):]
            self.results.append(r); n += 1
        self.functions.update(sub.functions)
        for pre, fn in sub.replayers.items():
            if pre.startswith(old_prefix): self.replayers.setdefault(new_prefix + pre[len(old_prefix):], fn)
        return n
    def fault(self, msg):
        self.faults.append(msg)

    def bounded_part(self, *, evaluations, distinct_nontrivial, rule, bound, samples, label='bounded'):
        b = dict(evaluations=int(evaluations), distinct_nontrivial=int(distinct_nontrivial), rule=rule, bound=bound, samples=samples[:6])
        if self.bounded is None: self.bounded = {}
        self.bounded[label] = b
    def bounded_failure(self, name, what, payload, instance=''):
        self.bounded_failures.append(dict(name=name, what=what, payload=payload, instance=instance))

    # -- verdict
    def _known(self, name, cex_all, instance, kwcex=None):
        for k in load_known().get('findings', []):
            if k.get('property') != self.prop: continue
            if 'obligation_regex' in k:
                if not re.fullmatch(k['obligation_regex'], name): continue
            elif k.get('obligation') != name: continue
            allowed = k.get('cex')
            if allowed is not None and cex_all is None and kwcex is not None:
                cex_all = [kwcex]
            if allowed is not None and cex_all is not None:
                cur = [json.dumps(c, sort_keys=True) for c in cex_all]
                alw = {json.dumps(c, sort_keys=True) for c in allowed}
                if not all(c in alw for c in cur): continue
            if k.get('instance') is not None and instance and k['instance'] != instance: continue
            if k.get('instance_regex') is not None:
                if not instance or not re.search(k['instance_regex'], instance): continue
            return k
        return None

    def finish(self) -> int:
        OUT = _out_root()
        os.makedirs(os.path.join(OUT, 'replay', self.prop), exist_ok=True)
        os.makedirs(os.path.join(OUT, 'evidence'), exist_ok=True)
        lines, known_lines = [], []
        violations = 0
        undecided = [r for r in self.results if r.status == 'unknown']
        errors = [r for r in self.results if r.status == 'error']
        refuted = [r for r in self.results if r.status == 'refuted']
        known_used = []
        replay_spent = 0.0
        for r in refuted:
            rp = None
            for pre, fn in sorted(self.replayers.items(), key=lambda kv: -len(kv[0])):
                if r.name.startswith(pre):
                    try:
                        from .par import hard_timeout, HardTimeout
                        if replay_spent > REPLAY_TOTAL:
                            rp = dict(reproduced=None, detail=f'replay not attempted: the replay budget of this run ({REPLAY_TOTAL} s) was spent on earlier refuted obligations; ./vf replay <this file> runs it alone')
                            break
                        t0_ = time.time()
                        try:
                            with hard_timeout(REPLAY_SECONDS): rp = fn(r)
                        except HardTimeout:
                            rp = dict(reproduced=None, detail=f'replay search stopped after {REPLAY_SECONDS} s')
                        replay_spent += time.time() - t0_
                    except Exception as e:
                        rp = dict(reproduced=None, detail='replay harness error: ' + ''.join(traceback.format_exception_only(type(e), e)).strip())
                    break
            if rp is None: rp = dict(reproduced=None, detail='no replay harness for this obligation; solver output attached')
            path = os.path.join(OUT, 'replay', self.prop, _san(r.name) + '.json')
            payload = dict(property=self.prop, obligation=r.name, where=r.where, backend=r.backend, status=r.status,
                           counterexample=r.cex, all_counterexamples=r.cex_all, meta=_jsonable(r.meta), solver_detail=r.detail,
                           smt2=r.smt2, replay=_jsonable(rp), replay_cmd=f'./vf replay {os.path.relpath(path, VERIF)}')
            with open(path, 'w') as f: json.dump(payload, f, indent=1, default=str)
            k = self._known(r.name, r.cex_all, r.instance, r.cex)
            if k is not None:
                known_lines.append(f"KNOWN-FINDING: property={self.prop} {r.name}: {k.get('what', '')}")
                known_used.append(dict(obligation=r.name, what=k.get('what', '')))
                continue
            violations += 1
            sfx = '' if rp.get('reproduced') else ' no-failing-input-found'
            lines.append(f'VIOLATION property={self.prop} replay={path}{sfx}  # obligation {r.name}')
        for bf in self.bounded_failures:
            path = os.path.join(OUT, 'replay', self.prop, _san('bounded.' + bf['name'] + '.' + hashlib.sha1(json.dumps(bf['payload'], sort_keys=True, default=str).encode()).hexdigest()[:8]) + '.json')
            with open(path, 'w') as f:
                json.dump(dict(property=self.prop, obligation=bf['name'], kind='bounded', what=bf['what'], input=_jsonable(bf['payload']),
                               replay_cmd=f'./vf replay {os.path.relpath(path, VERIF)}'), f, indent=1, default=str)
            k = self._known(bf['name'], None, bf['instance'])
            if k is not None:
                line = f"KNOWN-FINDING: property={self.prop} {bf['name']} [{bf['instance']}]: {k.get('what', '')}"
                if line not in known_lines: known_lines.append(line)
                known_used.append(dict(obligation=bf['name'], instance=bf['instance'], what=k.get('what', '')))
                continue
            violations += 1
            lines.append(f"VIOLATION property={self.prop} replay={path}  # bounded stand-in: {bf['name']} {bf['what']}")
        # expected obligation names (vacuity guard)
        missing = []
        names = {r.name for r in self.results}
        exp_path = os.path.join(VERIF, 'expected', f'{self.prop}.json')
        if os.environ.get('VERIF_WRITE_EXPECTED') == '1':      # developer action, never set by a registered command
            os.makedirs(os.path.dirname(exp_path), exist_ok=True)
            with open(exp_path, 'w') as f: json.dump(sorted(names), f)
        try:
            with open(exp_path) as f: exp = json.load(f)
        except FileNotFoundError:
            exp = None
        if exp is not None:
            missing = sorted(set(exp) - names)
        n_ob = len(self.results)
        n_dis = sum(1 for r in self.results if r.status == 'discharged')
        by_backend = {}
        for r in self.results:
            by_backend[r.backend or 'none'] = by_backend.get(r.backend or 'none', 0) + 1
        solver_s = sum(r.seconds for r in self.results)
        max_s = max([r.seconds for r in self.results], default=0.0)
        level = self.level
        if level == 'proof' and (n_dis != n_ob or n_ob == 0):
            level = 'other'
        cov = dict(
            obligations=n_ob, discharged=n_dis,
            checker_cmd=f'./vf check {self.prop} --tier {self.tier}',
            trusted_base=self.trusted,
            functions_under_contract=sorted(self.functions.values(), key=lambda d: (d['file'], d['qualname'])),
            by_backend=by_backend, solver_s=round(solver_s, 3), solver_max_s=round(max_s, 3),
            refuted=[r.name for r in refuted][:200], undecided=[r.name for r in undecided][:200],
            known_findings=known_used[:200],
            extraction_drops=self.dropped,
            samples=self.samples[:8] or [dict(note='no obligations generated')],
            explanation=(self.explanation or 'see DESIGN.md') + _added_note(self.prop),
        )
        if self.exhaustive is not None: cov['exhaustive'] = self.exhaustive
        if self.bounded:
            cov['bounded'] = self.bounded
            # generic keys summarise the bounded stand-ins (measured)
            cov['evaluations'] = sum(b['evaluations'] for b in self.bounded.values())
            cov['distinct_nontrivial'] = sum(b['distinct_nontrivial'] for b in self.bounded.values())
            cov['rule'] = ' | '.join(f"{k}: {b['rule']} (bound: {b['bound']})" for k, b in self.bounded.items())
        cov.update(self.extra)
        ev = dict(property_id=self.prop, tier=self.tier, seed=self.seed, level=level, coverage=cov,
                  assumptions=self.assumptions, wall_s=round(time.time() - self.t0, 2), violations=violations)
        with open(os.path.join(OUT, 'evidence', f'{self.prop}.json'), 'w') as f:
            json.dump(ev, f, indent=1, default=str)
        for l in known_lines: print(l)
        for l in lines: print(l)
        for r in undecided: print(f'UNDECIDED obligation={r.name} {r.detail}')
        for m in missing: print(f'UNDECIDED obligation={m} (expected obligation was not generated)')
        for r in errors: print(f'CHECKER-FAULT obligation={r.name} {r.detail}')
        for m in self.faults: print(f'CHECKER-FAULT {m}')
        print(f'[{self.prop}/{self.tier}] obligations={n_ob} discharged={n_dis} refuted={len(refuted)} known={len(known_used)} '
              f'undecided={len(undecided)} bounded_failures={len(self.bounded_failures)} violations={violations} '
              f'solver_s={solver_s:.1f} wall_s={time.time() - self.t0:.1f}')
        sys.stdout.flush()
        if errors or self.faults: return 3
        if violations: return 1
        if undecided or missing or n_ob == 0: return 2
        return 0

def _jsonable(x):
    try:
        json.dumps(x); return x
    except TypeError:
        if isinstance(x, dict): return {str(k): _jsonable(v) for k, v in x.items()}
        if isinstance(x, (list, tuple, set, frozenset)): return [_jsonable(v) for v in x]
        return str(x)
