"""Extraction of the functions under contract from /repo's *current working tree*.

The verified text is the FunctionDef node parsed from the file on disk at check time.  What is dropped
(and recorded in every evidence file): type annotations, docstrings, decorators (each is named, and must be
on the allow-list of decorators known to be transparent for the contract at hand), `if TYPE_CHECKING:` blocks.
"""
from __future__ import annotations
import ast, hashlib, os, sys, inspect
from dataclasses import dataclass
from functools import lru_cache
from . import REPO

@dataclass
class FuncInfo:
    relfile: str
    qualname: str
    node: ast.FunctionDef
    src: str
    lineno: int
    end_lineno: int
    sha1: str
    @property
    def key(self): return f'{self.relfile}:{self.qualname}'
    @property
    def where(self): return f'{self.relfile}:{self.qualname}:{self.lineno}-{self.end_lineno}'
    @property
    def decorators(self):
        return [ast.unparse(d) for d in self.node.decorator_list]

@lru_cache(maxsize=None)
def _parse(relfile: str):
    path = os.path.join(REPO, relfile)
    with open(path, encoding='utf-8') as f:
        text = f.read()
    return text, ast.parse(text, filename=path)

def _find(tree, parts):
    body = tree.body
    node = None
    for i, p in enumerate(parts):
        found = None
        for n in _walk_defs(body):
            if isinstance(n, (ast.FunctionDef, ast.ClassDef, ast.AsyncFunctionDef)) and n.name == p:
                found = n                                   # last definition wins, like Python
        if found is None: return None
        node = found
        body = found.body
    return node

def _walk_defs(body):
    """definitions directly in `body`, looking through if/try/with blocks (not into defs)"""
    for n in body:
        if isinstance(n, (ast.FunctionDef, ast.ClassDef, ast.AsyncFunctionDef)):
            yield n
        elif isinstance(n, (ast.If, ast.Try, ast.With)):
            for fld in ('body', 'orelse', 'finalbody'):
                yield from _walk_defs(getattr(n, fld, []) or [])
            for h in getattr(n, 'handlers', []) or []:
                yield from _walk_defs(h.body)

def get(relfile: str, qualname: str) -> FuncInfo:
    text, tree = _parse(relfile)
    parts = [p for p in qualname.split('.') if p != '<locals>']
    node = _find(tree, parts)
    if node is None or not isinstance(node, ast.FunctionDef):
        raise KeyError(f'function not found: {relfile}:{qualname}')
    src = ast.get_source_segment(text, node) or ''
    # hash of the *interpreted* text: the unparsed node without docstring/annotations is what PyVC sees
    canon = ast.unparse(strip(node))
    return FuncInfo(relfile, qualname, node, src, node.lineno, node.end_lineno, hashlib.sha1(canon.encode()).hexdigest())

def strip(node: ast.FunctionDef) -> ast.FunctionDef:
    """copy without docstring, annotations, decorators (the dropped parts)"""
    import copy
    n = copy.deepcopy(node)
    n.decorator_list = []
    n.returns = None
    for a in n.args.posonlyargs + n.args.args + n.args.kwonlyargs + [x for x in (n.args.vararg, n.args.kwarg) if x]:
        a.annotation = None
    if n.body and isinstance(n.body[0], ast.Expr) and isinstance(n.body[0].value, ast.Constant) and isinstance(n.body[0].value.value, str):
        n.body = n.body[1:] or [ast.Pass()]
    return n

def relfile_of(obj) -> str:
    """repo-relative source file of a live function/class (must live under REPO)"""
    f = inspect.getsourcefile(inspect.unwrap(obj) if callable(obj) and not isinstance(obj, type) else obj)
    f = os.path.realpath(f)
    root = os.path.realpath(REPO)
    if not f.startswith(root + os.sep):
        raise KeyError(f'{obj!r} is not defined under {root}: {f}')
    return os.path.relpath(f, root)

def of_function(func) -> FuncInfo:
    """FuncInfo of a live python function object (by file + qualname, re-read from disk)"""
    func = inspect.unwrap(func)
    if isinstance(func, (classmethod, staticmethod)): func = func.__func__
    return get(relfile_of(func), func.__qualname__)

def defining_class(cls, name):
    for c in cls.__mro__:
        if name in c.__dict__:
            return c
    raise AttributeError(f'{cls.__name__}.{name}')

def check_repo_imported_from_worktree():
    import pytableaux
    p = os.path.realpath(os.path.dirname(pytableaux.__file__))
    want = os.path.realpath(os.path.join(REPO, 'pytableaux'))
    if p != want:
        raise RuntimeError(f'pytableaux imported from {p}, expected {want}')
