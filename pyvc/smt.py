"""Obligations and back ends.

An obligation is `hyps |- goal`.  It is *discharged* iff `hyps ∧ ¬goal` is unsat for a back end (and no
other back end that answers says sat).  `sat` gives a model = refutation candidate; `unknown`/timeout is
undecided and is never turned into a violation here.
"""
from __future__ import annotations
import os, subprocess, tempfile, time, re
from dataclasses import dataclass, field
from typing import Any, Callable
import z3

Z3_TIMEOUT_MS = int(os.environ.get('VERIF_Z3_TIMEOUT_MS', '10000'))
CLI_TIMEOUT_S = int(os.environ.get('VERIF_CLI_TIMEOUT_S', '30'))

@dataclass
class Obligation:
    name: str
    goal: Any                       # z3 BoolRef, or python bool for kind == 'enum'
    hyps: list = field(default_factory=list)
    kind: str = 'smt'               # 'smt' | 'enum' (finite space evaluated completely by the machinery)
    where: str = ''                 # file:qualname:lines of the function under contract
    meta: dict = field(default_factory=dict)      # json-able context, copied into replay files
    decode: Callable | None = None  # z3 model -> json-able counterexample
    enum_vars: list | None = None   # finite-sort constants: enumerate *all* counter-models over them
    instance: str = ''              # key used by known_findings

@dataclass
class Result:
    name: str
    status: str                     # discharged | refuted | unknown | error
    backend: str = ''
    seconds: float = 0.0
    cex: Any = None                 # first counterexample (json-able)
    cex_all: list | None = None     # all counterexamples over enum_vars (json-able)
    detail: str = ''
    where: str = ''
    meta: dict = field(default_factory=dict)
    instance: str = ''
    smt2: str = ''                  # SMT-LIB text of the query (kept for samples / replay files)

def _model_to_json(m: z3.ModelRef):
    out = {}
    for d in m.decls():
        try:
            out[d.name()] = str(m[d])
        except Exception:                                   # pragma: no cover
            out[d.name()] = '?'
    return out

def _val(m, v):
    r = m.eval(v, model_completion=True)
    if z3.is_int_value(r): return r.as_long()
    if z3.is_true(r): return True
    if z3.is_false(r): return False
    if z3.is_rational_value(r):
        return r.numerator_as_long() / r.denominator_as_long()
    return str(r)

def to_smt2(ob: Obligation) -> str:
    s = z3.Solver()
    for h in ob.hyps: s.add(h)
    s.add(z3.Not(ob.goal))
    return s.to_smt2()

def run_cli(cmd: list[str], text: str, timeout_s: int) -> str:
    with tempfile.NamedTemporaryFile('w', suffix='.smt2', delete=False) as f:
        f.write(text)
        path = f.name
    try:
        p = subprocess.run(cmd + [path], capture_output=True, text=True, timeout=timeout_s)
        out = (p.stdout or '').strip().splitlines()
        ans = out[0].strip() if out else ''
        if ans in ('sat', 'unsat', 'unknown'): return ans
        return 'error:' + (p.stdout + p.stderr)[:200].replace('\n', ' ')
    except subprocess.TimeoutExpired:
        return 'unknown'
    finally:
        try: os.unlink(path)
        except OSError: pass

def cvc5_check(text: str, timeout_s=CLI_TIMEOUT_S) -> str:
    # z3 prints (set-logic ...)-less text with (check-sat); cvc5 needs a logic
    if 'set-logic' not in text:
        text = '(set-logic ALL)\n' + text
    return run_cli(['/usr/bin/cvc5', '--lang=smt2', f'--tlimit={timeout_s * 1000}', '--strings-exp'], text, timeout_s + 5)

def z3old_check(text: str, timeout_s=CLI_TIMEOUT_S) -> str:
    return run_cli(['/usr/bin/z3', f'-T:{timeout_s}'], text, timeout_s + 5)

def discharge(ob: Obligation, *, thorough=False, timeout_ms=None, keep_smt2=False) -> Result:
    t0 = time.time()
    res = Result(ob.name, 'unknown', where=ob.where, meta=ob.meta, instance=ob.instance)
    if ob.kind == 'enum':
        res.backend = 'enum'
        res.status = 'discharged' if ob.goal is True else 'refuted'
        if ob.goal is not True:
            res.cex = ob.meta.get('cex')
            res.cex_all = ob.meta.get('cex_all')
        res.seconds = time.time() - t0
        return res
    if ob.kind == 'exists':
        # synthesis query: discharged iff the constraints are satisfiable; the model is the certificate
        # wall-clock budgets must not flip a verdict when every core is busy: a timeout is retried once with ten times the budget
        for budget in ((timeout_ms or 60000), 10 * (timeout_ms or 60000)):
            s = z3.Solver(); s.set('timeout', budget); s.set('random_seed', 0)
            for h in ob.hyps: s.add(h)
            r = s.check()
            if r != z3.unknown or 'timeout' not in s.reason_unknown() and 'canceled' not in s.reason_unknown(): break
        res.backend = 'z3-5.1(synthesis)'
        if r == z3.sat:
            res.status = 'discharged'
            try: res.meta = dict(res.meta, certificate=(ob.decode(s.model()) if ob.decode else _model_to_json(s.model())))
            except Exception: pass
        elif r == z3.unsat:
            res.status, res.detail = 'refuted', 'no witness of the required shape exists'
            res.cex = ob.meta.get('cex')
        else:
            res.detail = 'z3: ' + s.reason_unknown()
        res.seconds = time.time() - t0
        return res
    s = z3.Solver()
    s.set('timeout', timeout_ms or Z3_TIMEOUT_MS)
    s.set('random_seed', 0)
    for h in ob.hyps: s.add(h)
    s.add(z3.Not(ob.goal))
    if keep_smt2:
        try: res.smt2 = s.to_smt2()
        except Exception: pass
    try:
        r = s.check()
        if r == z3.unknown and ('timeout' in s.reason_unknown() or 'canceled' in s.reason_unknown()):
            # same query, ten times the wall-clock budget (load on the machine must not turn a proof into "undecided")
            s.set('timeout', 10 * (timeout_ms or Z3_TIMEOUT_MS))
            r = s.check()
    except z3.Z3Exception as e:
        res.status, res.detail = 'error', f'z3: {e}'
        res.seconds = time.time() - t0
        return res
    res.backend = 'z3-5.1'
    if r == z3.unsat:
        res.status = 'discharged'
    elif r == z3.sat:
        res.status = 'refuted'
        m = s.model()
        try:
            res.cex = ob.decode(m) if ob.decode else _model_to_json(m)
        except Exception as e:
            res.cex = {'raw': _model_to_json(m), 'decode_error': repr(e)}
        if ob.enum_vars:
            allc = []
            while len(allc) < 256:
                m = s.model()
                allc.append(ob.decode(m) if ob.decode else {str(v): _val(m, v) for v in ob.enum_vars})
                s.add(z3.Or(*[v != m.eval(v, model_completion=True) for v in ob.enum_vars]))
                if s.check() != z3.sat: break
            res.cex_all = allc
    else:
        res.detail = 'z3: ' + s.reason_unknown()
        text = res.smt2 or to_smt2(ob)
        a = cvc5_check(text)
        if a == 'unsat':
            res.status, res.backend = 'discharged', 'cvc5-1.0.3'
        elif a == 'sat':
            # no model decoding from the CLI: report as refuted without input
            res.status, res.backend, res.detail = 'refuted', 'cvc5-1.0.3', res.detail + '; cvc5: sat (no model decoded)'
        else:
            res.detail += f'; cvc5: {a}'
    if thorough and res.status in ('discharged', 'refuted') and res.backend.startswith('z3'):
        text = res.smt2 or to_smt2(ob)
        a = z3old_check(text)
        want = 'unsat' if res.status == 'discharged' else 'sat'
        if a in ('sat', 'unsat') and a != want:
            res.status, res.detail = 'error', f'solver disagreement: z3-5.1 says {want}, z3-4.8.12 says {a}'
        else:
            res.backend += f'+z3-4.8.12({a})'
    res.seconds = time.time() - t0
    return res

def prove(name, goal, hyps=(), **kw) -> Obligation:
    return Obligation(name=name, goal=goal, hyps=list(hyps), **kw)
