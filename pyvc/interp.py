"""PyVC-0 symbolic executor.

* Executes the FunctionDef ASTs read from /repo (pyvc.source) over *mixed* values: concrete Python objects,
  z3 terms, and class-model objects (`SymVal` subclasses supplied by the sidecar contracts).
* Control flow that depends on a symbolic condition forks the path.  Forking is by *replay*: a path is a
  list of decisions; the function is re-executed from its initial state for every decision prefix, so model
  objects may be ordinary mutable Python objects.
* Calls are modular: a callee is reached through (a) a sidecar contract (a nondeterministic abstract program
  using require/assume/fresh/fork), (b) an `inline` declaration (its source is re-read and interpreted), or
  (c) a builtin model.  Anything else raises `Outside` (=> undecided, never proved, never a violation).
* Loops over symbolic collections / `while` need a LoopSpec (invariant, havoc set) from the sidecar; loops
  over concrete-length iterables are unrolled.
"""
from __future__ import annotations
import ast, builtins, operator, types, itertools, functools, inspect, enum
from dataclasses import dataclass, field
import z3
from . import source

class Outside(Exception):
    "construct or call outside the PyVC-0 subset"

class PyExc(Exception):
    "an exception raised by the interpreted program"
    def __init__(self, cls, args=(), cause=None):
        super().__init__(cls.__name__)
        self.cls, self.eargs, self.cause = cls, tuple(args), cause
    def __repr__(self): return f'PyExc({self.cls.__name__})'

class PathEnd(Exception):
    "the current path is infeasible or was cut (loop body end)"

class _Return(Exception):
    def __init__(self, v): self.v = v
class _Break(Exception): pass
class _Continue(Exception): pass

# ------------------------------------------------------------------ values

class SymVal:
    "base of class-model values"
    def sym_getattr(self, it, name): raise Outside(f'{type(self).__name__}.{name}')
    def sym_setattr(self, it, name, v): raise Outside(f'set {type(self).__name__}.{name}')
    def sym_call(self, it, args, kw): raise Outside(f'call {type(self).__name__}')
    def sym_binop(self, it, op, other, reflected): return NotImplemented
    def sym_unop(self, it, op): raise Outside(f'{op} {type(self).__name__}')
    def sym_compare(self, it, op, other, reflected): return NotImplemented
    def sym_truth(self, it): return True
    def sym_iter(self, it): raise Outside(f'iter {type(self).__name__}')
    def sym_len(self, it): raise Outside(f'len {type(self).__name__}')
    def sym_getitem(self, it, k): raise Outside(f'{type(self).__name__}[..]')
    def sym_setitem(self, it, k, v): raise Outside(f'{type(self).__name__}[..]=')
    def sym_delitem(self, it, k): raise Outside(f'del {type(self).__name__}[..]')
    def sym_contains(self, it, x): raise Outside(f'in {type(self).__name__}')
    def sym_isinstance(self, it, cls): raise Outside(f'isinstance({type(self).__name__}, {cls})')
    def sym_type(self, it): raise Outside(f'type({type(self).__name__})')

class _Untouched: pass

class Poison(SymVal):
    "the value of a local at a loop head that the loop body assigns and the loop contract does not describe"
    def __init__(self, name, loop): self._n, self._l = name, loop
    def _no(self, *a, **k): raise Outside(f'local {self._n!r} is assigned in {self._l} and not described by its loop contract')
    sym_getattr = sym_setattr = sym_call = sym_binop = sym_unop = sym_compare = sym_truth = sym_iter = sym_len = sym_getitem = sym_setitem = sym_delitem = sym_contains = sym_isinstance = sym_type = _no
    def sym_is(self, it, o): self._no()

class GenList(list):
    "values yielded by an (eagerly run) generator function / generator expression"

class Closure:
    def __init__(self, node, frame, name):
        self.node, self.frame, self.name = node, frame, name

class BoundSource:
    "a method whose real source is interpreted (inline) with a given receiver"
    def __init__(self, fi, func, defcls, recv, label=None):
        self.fi, self.func, self.defcls, self.recv = fi, func, defcls, recv
        self.label = label or fi.qualname
    def __repr__(self): return f'<BoundSource {self.label}>'

class Contract:
    "an abstract program standing for a callee: fn(it, *args, **kw)"
    def __init__(self, fn, name=None, trusted=False):
        self.fn, self.name, self.trusted = fn, name or getattr(fn, '__name__', 'contract'), trusted
    def __repr__(self): return f'<Contract {self.name}>'

class SuperProxy:
    def __init__(self, recv, defcls): self.recv, self.defcls = recv, defcls

def is_sym(v): return isinstance(v, (z3.ExprRef, SymVal))

# ------------------------------------------------------------------ path

MAX_DECISIONS = 1500

class Path:
    def __init__(self, prefix, timeout_ms=2000):
        self.prefix = list(prefix)
        self.taken: list[bool] = []
        self.open_alts: list[int] = []
        self.pc: list = []
        self.solver = z3.Solver()
        self.solver.set('timeout', timeout_ms)
        self.obligations: list = []        # (name, hyps, goal, meta)
        self.trace: list[str] = []
        self.counter = itertools.count()
        self.notes: dict = {}
    def fresh_name(self, base):
        return f'{base}!{next(self.counter)}'
    def assume(self, cond):
        if cond is True: return
        if cond is False: raise PathEnd()
        self.pc.append(cond)
        self.solver.add(cond)
    def feasible(self, cond=None):
        if cond is None: return self.solver.check() != z3.unsat
        self.solver.push()
        self.solver.add(cond)
        r = self.solver.check()
        self.solver.pop()
        return r != z3.unsat
    def fork(self, cond) -> bool:
        if isinstance(cond, bool): return cond
        cond = z3.simplify(cond)
        if z3.is_true(cond): return True
        if z3.is_false(cond): return False
        i = len(self.taken)
        if i >= MAX_DECISIONS:
            raise Outside(f'more than {MAX_DECISIONS} decisions on one path (a loop over symbolic data without a loop contract?)')
        if i < len(self.prefix):
            d = self.prefix[i]
            self.taken.append(d)
            self.assume(cond if d else z3.Not(cond))
            return d
        ft, ff = self.feasible(cond), self.feasible(z3.Not(cond))
        if ft and ff:
            self.taken.append(True)
            self.open_alts.append(i)
            self.assume(cond)
            return True
        # a decision forced by the path condition is recorded too (without an alternative): the replay of a sibling path must consume
        # the same decision sequence, or its prefix would be applied to the wrong conditions and the sibling would be lost
        if ft:
            self.taken.append(True); self.assume(cond); return True
        if ff:
            self.taken.append(False); self.assume(z3.Not(cond)); return False
        raise PathEnd()
    def require(self, name, goal, meta=None):
        self.obligations.append((name, list(self.pc), goal, meta or {}))

@dataclass
class PathResult:
    kind: str              # 'return' | 'raise'
    value: object
    path: Path
    extra: dict = field(default_factory=dict)
    @property
    def pc(self): return z3.And(*self.path.pc) if self.path.pc else z3.BoolVal(True)

def explore(run, max_paths=4000):
    """run(path) -> value; returns list[PathResult].  `run` builds its own initial state (replay forking)."""
    out = []
    pending = [[]]
    n = 0
    while pending:
        prefix = pending.pop()
        n += 1
        if n > max_paths: raise Outside(f'more than {max_paths} paths')
        p = Path(prefix)
        try:
            v = run(p)
            out.append(PathResult('return', v, p))
        except PyExc as e:
            out.append(PathResult('raise', e, p))
        except PathEnd:
            # cut path (end of a loop body under a loop spec, or an infeasible continuation): only its obligations count;
            # a cut path that recorded none says nothing and is not an execution of the function
            if p.obligations: out.append(PathResult('cut', None, p))
        for i in p.open_alts:
            pending.append(p.taken[:i] + [False])
    return out

# ------------------------------------------------------------------ loop specs

@dataclass
class LoopSpec:
    invariant: object = None       # callable(it, frame) -> z3 Bool | list of (name, Bool)
    havoc: object = None           # callable(it, frame) -> None : replace modified locals/fields by fresh values
    variant: object = None         # callable(it, frame) -> z3 Int
    elem: object = None            # for `for` over a symbolic sequence: callable(it, frame, k) -> element value
    on_entry: object = None        # callable(it, frame): snapshot entry values into frame.locals (ghost)
    canon: object = None           # '<qualname>.loop<k>' of the loop the contract was written for (obligation names stay stable when the loop moves)

# ------------------------------------------------------------------ interpreter

_BINOPS = {ast.Add: operator.add, ast.Sub: operator.sub, ast.Mult: operator.mul, ast.FloorDiv: operator.floordiv,
           ast.Mod: operator.mod, ast.BitOr: operator.or_, ast.BitAnd: operator.and_, ast.BitXor: operator.xor,
           ast.RShift: operator.rshift, ast.LShift: operator.lshift, ast.Div: operator.truediv, ast.Pow: operator.pow}
_CMPOPS = {ast.Eq: operator.eq, ast.NotEq: operator.ne, ast.Lt: operator.lt, ast.LtE: operator.le,
           ast.Gt: operator.gt, ast.GtE: operator.ge}

class Frame:
    def __init__(self, fi, func, defcls, locals_):
        self.fi, self.func, self.defcls, self.locals = fi, func, defcls, locals_
        self.globals = getattr(func, '__globals__', {}) if func is not None else {}
        self.yields = None
        self.loop_ordinal = 0
        self.parent = None
    def lookup(self, name):
        f = self
        while f is not None:
            if name in f.locals: return f.locals[name]
            f = f.parent
        if name in self.globals: return self.globals[name]
        if hasattr(builtins, name): return getattr(builtins, name)
        raise PyExc(NameError, (name,))

class Interp:
    def __init__(self, path: Path, world):
        self.path = path
        self.world = world            # sidecar: contracts, inline set, builtin models, loop specs
        self.depth = 0
        self.inlined: set[str] = set()
        self.used_contracts: set[str] = set()

    # ---- conveniences for contracts
    def fork(self, c): return self.path.fork(c)
    def assume(self, c): self.path.assume(c)
    def require(self, name, goal, meta=None): self.path.require(name, goal, meta)
    def fresh(self, sort, base='v'):
        return z3.Const(self.path.fresh_name(base), sort)
    def fresh_int(self, base='i'): return z3.Int(self.path.fresh_name(base))
    def fresh_bool(self, base='b'): return z3.Bool(self.path.fresh_name(base))
    def raise_(self, cls, *args): raise PyExc(cls, args)

    # ---- truthiness
    def truth(self, v) -> bool:
        if isinstance(v, bool): return v
        if v is None: return False
        if isinstance(v, z3.BoolRef): return self.path.fork(v)
        if isinstance(v, z3.ArithRef): return self.path.fork(v != 0)
        if isinstance(v, z3.ExprRef): raise Outside(f'truth of {v.sort()}')
        if isinstance(v, SymVal):
            t = v.sym_truth(self)
            return self.truth(t) if not isinstance(t, bool) else t
        return bool(v)
    def as_bool(self, v):
        "value -> z3 Bool or python bool, without forking"
        if isinstance(v, (bool, z3.BoolRef)): return v
        if v is None: return False
        if isinstance(v, z3.ArithRef): return v != 0
        if isinstance(v, SymVal):
            t = v.sym_truth(self)
            return t
        return bool(v)

    # ---- function entry
    def call_source(self, fi, func, defcls, args, kw, recv=None):
        label = fi.key
        self.depth += 1
        if self.depth > 40: raise Outside('inline depth > 40')
        try:
            node = fi.node
            locs = self.bind(node, func, args, kw)
            fr = Frame(fi, func, defcls, locs)
            fr.recv = recv
            is_gen = _is_generator(node)
            if is_gen: fr.yields = GenList()
            try:
                self.block(node.body, fr)
                rv = None
            except _Return as r:
                rv = r.v
            if is_gen: return fr.yields
            return rv
        finally:
            self.depth -= 1

    def bind(self, node, func, args, kw):
        a = node.args
        params = [p.arg for p in a.posonlyargs + a.args]
        locs = {}
        args = list(args); kw = dict(kw)
        defaults = list(getattr(func, '__defaults__', None) or ()) if func is not None else []
        if func is None and a.defaults: raise Outside('defaults of a closure')
        ndef = len(defaults)
        for i, p in enumerate(params):
            if i < len(args): locs[p] = args[i]
            elif p in kw and p not in [x.arg for x in a.posonlyargs]: locs[p] = kw.pop(p)
            else:
                j = i - (len(params) - ndef)
                if j < 0: raise PyExc(TypeError, (f'missing argument {p}',))
                locs[p] = defaults[j]
        rest = args[len(params):]
        if a.vararg: locs[a.vararg.arg] = tuple(rest)
        elif rest: raise PyExc(TypeError, ('too many positional arguments',))
        kwd = (getattr(func, '__kwdefaults__', None) or {}) if func is not None else {}
        for p in a.kwonlyargs:
            if p.arg in kw: locs[p.arg] = kw.pop(p.arg)
            elif p.arg in kwd: locs[p.arg] = kwd[p.arg]
            else: raise PyExc(TypeError, (f'missing keyword argument {p.arg}',))
        if a.kwarg: locs[a.kwarg.arg] = kw
        elif kw: raise PyExc(TypeError, (f'unexpected keyword {sorted(kw)}',))
        return locs

    # ---- statements
    def block(self, stmts, fr):
        for st in stmts:
            self.stmt(st, fr)

    def stmt(self, st, fr):
        m = getattr(self, 'st_' + type(st).__name__, None)
        if m is None: raise Outside(f'statement {type(st).__name__} at {fr.fi.key}:{st.lineno}')
        return m(st, fr)

    def st_Expr(self, st, fr):
        self.ev(st.value, fr)
    def st_Pass(self, st, fr): pass
    def st_Return(self, st, fr):
        raise _Return(self.ev(st.value, fr) if st.value is not None else None)
    def st_Break(self, st, fr): raise _Break()
    def st_Continue(self, st, fr): raise _Continue()
    def st_Assign(self, st, fr):
        v = self.ev(st.value, fr)
        for t in st.targets: self.assign(t, v, fr)
    def st_AnnAssign(self, st, fr):
        if st.value is not None: self.assign(st.target, self.ev(st.value, fr), fr)
    def st_AugAssign(self, st, fr):
        cur = self.ev(_load(st.target), fr)
        v = self.binop(type(st.op), cur, self.ev(st.value, fr), inplace=True)
        self.assign(st.target, v, fr)
    def st_If(self, st, fr):
        if self.truth(self.ev(st.test, fr)): self.block(st.body, fr)
        else: self.block(st.orelse, fr)
    def st_Assert(self, st, fr):
        if not self.truth(self.ev(st.test, fr)): raise PyExc(AssertionError)
    def st_Raise(self, st, fr):
        if st.exc is None:
            cur = getattr(fr, 'handling', None)
            if cur is None: raise Outside('bare raise outside handler')
            raise cur
        e = self.ev(st.exc, fr)
        cause = self.ev(st.cause, fr) if st.cause is not None else None
        raise self.to_exc(e, cause)
    def to_exc(self, e, cause=None):
        if isinstance(e, PyExc): return e
        if isinstance(e, type) and issubclass(e, BaseException): return PyExc(e, (), cause)
        if isinstance(e, BaseException): return PyExc(type(e), e.args, cause)
        if isinstance(e, ExcValue): return PyExc(e.cls, e.args, cause)
        raise Outside(f'raise {e!r}')
    def st_Try(self, st, fr):
        try:
            try:
                self.block(st.body, fr)
            except PyExc as e:
                for h in st.handlers:
                    if h.type is None: match = True
                    else:
                        t = self.ev(h.type, fr)
                        ts = t if isinstance(t, tuple) else (t,)
                        match = any(isinstance(x, type) and issubclass(e.cls, x) for x in ts)
                    if match:
                        if h.name: fr.locals[h.name] = ExcValue(e.cls, e.eargs)
                        prev = getattr(fr, 'handling', None)
                        fr.handling = e
                        try: self.block(h.body, fr)
                        finally: fr.handling = prev
                        break
                else:
                    raise
            else:
                self.block(st.orelse, fr)
        finally:
            if st.finalbody:
                self.block(st.finalbody, fr)
    def st_With(self, st, fr):
        exits = []
        for item in st.items:
            cm = self.ev(item.context_expr, fr)
            if self.world.transparent_cm(cm):
                v = cm
            else:
                v = self.call(self.getattr(cm, '__enter__'), [], {})
                exits.append(cm)
            if item.optional_vars is not None: self.assign(item.optional_vars, v, fr)
        try:
            self.block(st.body, fr)
        except PyExc as e:
            for cm in reversed(exits):
                self.call(self.getattr(cm, '__exit__'), [e.cls, ExcValue(e.cls, e.eargs), None], {})
            raise
        except (_Return, _Break, _Continue):
            for cm in reversed(exits):
                self.call(self.getattr(cm, '__exit__'), [None, None, None], {})
            raise
        else:
            for cm in reversed(exits):
                self.call(self.getattr(cm, '__exit__'), [None, None, None], {})
    def st_Delete(self, st, fr):
        for t in st.targets:
            if isinstance(t, ast.Subscript):
                obj = self.ev(t.value, fr); k = self.ev_slice(t.slice, fr)
                self.delitem(obj, k)
            elif isinstance(t, ast.Name):
                fr.locals.pop(t.id, None)
            elif isinstance(t, ast.Attribute):
                obj = self.ev(t.value, fr)
                if isinstance(obj, SymVal): obj.sym_setattr(self, t.attr, DELETED)
                else: raise Outside('del attribute of concrete object')
            else: raise Outside('del target')
    def st_FunctionDef(self, st, fr):
        fr.locals[st.name] = Closure(st, fr, st.name)
    def st_Global(self, st, fr): raise Outside('global')
    def st_Nonlocal(self, st, fr): raise Outside('nonlocal')
    def st_Import(self, st, fr): raise Outside('import in function')
    def st_ImportFrom(self, st, fr): raise Outside('import in function')

    def st_For(self, st, fr):
        ordinal = fr.loop_ordinal; fr.loop_ordinal += 1
        itv = self.ev(st.iter, fr)
        spec = self.world.loop_spec(fr.fi, ordinal, st)
        if spec is not None and spec.invariant is not None:
            return self.loop_with_spec(st, fr, spec, ordinal, itv)
        items = self.iterate(itv)
        broke = False
        for x in items:
            self.assign(st.target, x, fr)
            try:
                self.block(st.body, fr)
            except _Break:
                broke = True; break
            except _Continue:
                continue
        if not broke: self.block(st.orelse, fr)

    def st_While(self, st, fr):
        ordinal = fr.loop_ordinal; fr.loop_ordinal += 1
        spec = self.world.loop_spec(fr.fi, ordinal, st)
        if spec is None or spec.invariant is None:
            # concrete loops only
            n = 0
            while True:
                c = self.ev(st.test, fr)
                if is_sym(c): raise Outside(f'while with symbolic condition needs an invariant: {fr.fi.key} loop {ordinal}')
                if not self.truth(c): break
                n += 1
                if n > 10000: raise Outside('concrete while exceeds 10000 iterations')
                try: self.block(st.body, fr)
                except _Break: return
                except _Continue: continue
            self.block(st.orelse, fr)
            return
        return self.loop_with_spec(st, fr, spec, ordinal, None)

    def loop_with_spec(self, st, fr, spec, ordinal, itv):
        base = spec.canon or f'{fr.fi.qualname}.loop{ordinal}'
        def check_inv(tag):
            inv = spec.invariant(self, fr)
            items = inv if isinstance(inv, list) else [('inv', inv)]
            for nm, g in items:
                self.require(f'{base}.{tag}.{nm}', g, dict(where=fr.fi.where, line=st.lineno))
        def assume_inv():
            inv = spec.invariant(self, fr)
            items = inv if isinstance(inv, list) else [('inv', inv)]
            for nm, g in items: self.assume(g)
        is_for = isinstance(st, ast.For)
        if is_for:
            k = '_k%d' % ordinal
            fr.locals[k] = 0
            fr.locals['_iter%d' % ordinal] = itv
        if spec.on_entry: spec.on_entry(self, fr)
        check_inv('init')
        before = dict(fr.locals)
        assigned = _assigned_names(st.body) | (_assigned_names([ast.Assign(targets=[st.target], value=None)]) if is_for else set())
        marks = {}
        for name in assigned:
            if name in before and not name.startswith('_'): marks[name] = fr.locals[name] = _Untouched()
        spec.havoc(self, fr)
        if is_for:
            kk = self.fresh_int('k'); fr.locals[k] = kk
            self.assume(kk >= 0)
        assume_inv()
        # locals the body assigns but the contract's havoc did not speak about: a cursor (`x = E` right before the loop and as the last
        # statement of the body, nowhere else) equals E at every loop head and is re-read in the havocked state; any other one is unknown
        # at the loop head -- using it is outside the contract (undecided), never silently the pre-loop value
        for name in sorted(marks):
            if fr.locals.get(name) is not marks[name]: continue          # the contract's havoc gave it a value
            fr.locals[name] = before[name]
            e = _cursor_expr(fr.fi.node, st, name)
            fr.locals[name] = self.ev(e, fr) if e is not None else Poison(name, base)
        if is_for:
            n = self.len(itv)
            cond = fr.locals[k] < n
        else:
            cond = self.as_bool(self.ev(st.test, fr))
        v0 = spec.variant(self, fr) if spec.variant else None
        if self.fork(cond):
            if is_for:
                x = spec.elem(self, fr, fr.locals[k]) if spec.elem else self.getitem(itv, fr.locals[k])
                self.assign(st.target, x, fr)
            try:
                self.block(st.body, fr)
            except _Break:
                return
            except _Continue:
                pass
            if is_for: fr.locals[k] = fr.locals[k] + 1
            check_inv('preserve')
            if v0 is not None:
                v1 = spec.variant(self, fr)
                self.require(f'{base}.variant', z3.And(v0 >= 0, v1 < v0), dict(where=fr.fi.where, line=st.lineno))
            raise PathEnd()
        else:
            self.block(st.orelse, fr)

    # ---- assignment
    def assign(self, t, v, fr):
        if isinstance(t, ast.Name):
            fr.locals[t.id] = v
        elif isinstance(t, (ast.Tuple, ast.List)):
            items = self.iterate(v)
            stars = [i for i, e in enumerate(t.elts) if isinstance(e, ast.Starred)]
            if stars:
                i = stars[0]; after = len(t.elts) - i - 1
                if len(items) < len(t.elts) - 1: raise PyExc(ValueError, ('not enough values to unpack',))
                for e, x in zip(t.elts[:i], items[:i]): self.assign(e, x, fr)
                self.assign(t.elts[i].value, list(items[i:len(items) - after]), fr)
                for e, x in zip(t.elts[i + 1:], items[len(items) - after:]): self.assign(e, x, fr)
            else:
                if len(items) != len(t.elts): raise PyExc(ValueError, ('unpack length mismatch',))
                for e, x in zip(t.elts, items): self.assign(e, x, fr)
        elif isinstance(t, ast.Attribute):
            obj = self.ev(t.value, fr)
            self.setattr(obj, self.mangle(t.attr, fr), v)
        elif isinstance(t, ast.Subscript):
            obj = self.ev(t.value, fr)
            self.setitem(obj, self.ev_slice(t.slice, fr), v)
        else:
            raise Outside(f'assign target {type(t).__name__}')

    def setattr(self, obj, name, v):
        if isinstance(obj, SymVal): return obj.sym_setattr(self, name, v)
        raise Outside(f'attribute write on concrete {type(obj).__name__}.{name}')
    def setitem(self, obj, k, v):
        if isinstance(obj, SymVal): return obj.sym_setitem(self, k, v)
        if isinstance(obj, (dict, list)) and getattr(obj, '_pyvc_local', False) or isinstance(obj, (LocalDict, LocalList)):
            obj[k] = v; return
        raise Outside(f'item write on concrete {type(obj).__name__}')
    def delitem(self, obj, k):
        if isinstance(obj, SymVal): return obj.sym_delitem(self, k)
        if isinstance(obj, (LocalDict, LocalList)):
            del obj[k]; return
        raise Outside(f'item delete on concrete {type(obj).__name__}')

    # ---- expressions
    def ev(self, e, fr):
        m = getattr(self, 'ex_' + type(e).__name__, None)
        if m is None: raise Outside(f'expression {type(e).__name__} at {fr.fi.key}:{e.lineno}')
        return m(e, fr)

    def ex_Constant(self, e, fr): return e.value
    def ex_Name(self, e, fr):
        if e.id == '__class__' and fr.defcls is not None: return fr.defcls
        try:
            return fr.lookup(e.id)
        except PyExc as ex:
            if ex.cls is not NameError: raise
            # a closure whose enclosing frame was set up by a check (the outer function was not run): a plain top-level assignment
            # `name = <expr>` of the enclosing function (an alias hoisted out of the closures) is evaluated there on first use
            f = fr
            while f is not None:
                node = getattr(f.fi, 'node', None)
                for st in getattr(node, 'body', []) or []:
                    if isinstance(st, ast.Assign) and len(st.targets) == 1 and isinstance(st.targets[0], ast.Name) and st.targets[0].id == e.id and f is not fr:
                        v = self.ev(st.value, f)
                        f.locals[e.id] = v
                        return v
                f = f.parent
            raise
    def ex_NamedExpr(self, e, fr):
        v = self.ev(e.value, fr); self.assign(e.target, v, fr); return v
    def ex_JoinedStr(self, e, fr):
        parts = []
        for p in e.values:
            if isinstance(p, ast.Constant): parts.append(str(p.value))
            else:
                v = self.ev(p.value, fr)
                parts.append(str(v) if not is_sym(v) else '<sym>')
        return ''.join(parts)
    def ex_Tuple(self, e, fr): return tuple(self._elts(e.elts, fr))
    def ex_List(self, e, fr): return LocalList(self._elts(e.elts, fr))
    def ex_Set(self, e, fr):
        items = self._elts(e.elts, fr)
        if any(is_sym(x) for x in items):
            h = getattr(self.world, 'sym_set_display', None)       # a class-model world may give {x, y} of symbolic items a meaning
            if h is not None: return h(self, items)
            raise Outside('set display with symbolic elements')
        return set(items)
    def ex_Dict(self, e, fr):
        d = LocalDict()
        for k, v in zip(e.keys, e.values):
            if k is None:
                src = self.ev(v, fr)
                if isinstance(src, SymVal) and hasattr(src, 'sym_mapping'): src = src.sym_mapping(self)
                if not isinstance(src, dict): raise Outside('** of non-dict')
                d.update(src)
            else:
                kk = self.ev(k, fr)
                if is_sym(kk): raise Outside('dict display with symbolic key')
                d[kk] = self.ev(v, fr)
        return d
    def _elts(self, elts, fr):
        out = []
        for x in elts:
            if isinstance(x, ast.Starred): out += self.iterate(self.ev(x.value, fr))
            else: out.append(self.ev(x, fr))
        return out
    def ex_Starred(self, e, fr): raise Outside('starred in unsupported position')
    def ex_Lambda(self, e, fr):
        fn = ast.FunctionDef(name='<lambda>', args=e.args, body=[ast.Return(value=e.body, lineno=e.lineno, col_offset=0)],
                             decorator_list=[], lineno=e.lineno, col_offset=0)
        return Closure(fn, fr, '<lambda>')
    def ex_IfExp(self, e, fr):
        return self.ev(e.body, fr) if self.truth(self.ev(e.test, fr)) else self.ev(e.orelse, fr)
    def ex_BoolOp(self, e, fr):
        is_and = isinstance(e.op, ast.And)
        v = None
        for x in e.values:
            v = self.ev(x, fr)
            t = self.truth(v) if x is not e.values[-1] else None
            if x is e.values[-1]: return v
            if is_and and not t: return v
            if not is_and and t: return v
        return v
    def ex_UnaryOp(self, e, fr):
        v = self.ev(e.operand, fr)
        if isinstance(e.op, ast.Not):
            b = self.as_bool(v)
            if isinstance(b, bool): return not b
            if isinstance(b, z3.BoolRef): return z3.Not(b)
            return not self.truth(v)
        if isinstance(v, SymVal): return v.sym_unop(self, type(e.op).__name__)
        if isinstance(v, z3.ExprRef):
            if isinstance(e.op, ast.USub): return -v
            if isinstance(e.op, ast.UAdd): return v
            raise Outside('unary op on z3 term')
        if isinstance(e.op, ast.USub): return self.world.native_unop('neg', v, self)
        if isinstance(e.op, ast.UAdd): return self.world.native_unop('pos', v, self)
        if isinstance(e.op, ast.Invert): return self.world.native_unop('invert', v, self)
        raise Outside('unary op')
    def ex_BinOp(self, e, fr):
        return self.binop(type(e.op), self.ev(e.left, fr), self.ev(e.right, fr))
    def binop(self, op, a, b, inplace=False):
        name = op.__name__
        if isinstance(a, SymVal):
            r = a.sym_binop(self, name, b, False)
            if r is not NotImplemented: return r
        if isinstance(b, SymVal):
            r = b.sym_binop(self, name, a, True)
            if r is not NotImplemented: return r
        if isinstance(a, SymVal) or isinstance(b, SymVal): raise Outside(f'binop {name} on {type(a).__name__},{type(b).__name__}')
        if isinstance(a, z3.ExprRef) or isinstance(b, z3.ExprRef):
            if isinstance(a, z3.BoolRef): a = z3.If(a, 1, 0)
            if isinstance(b, z3.BoolRef): b = z3.If(b, 1, 0)
            if isinstance(a, bool): a = int(a)
            if isinstance(b, bool): b = int(b)
            if name == 'FloorDiv': return _z3_floordiv(a, b)
            if name == 'Div':
                ra = z3.ToReal(a) if isinstance(a, z3.ArithRef) and a.is_int() else (z3.RealVal(a) if not isinstance(a, z3.ExprRef) else a)
                rb = z3.ToReal(b) if isinstance(b, z3.ArithRef) and b.is_int() else (z3.RealVal(b) if not isinstance(b, z3.ExprRef) else b)
                return ra / rb
            if name == 'Mod': return _z3_mod(a, b)
            if name in ('Add', 'Sub', 'Mult'): return _BINOPS[op](a, b)
            raise Outside(f'binop {name} on z3 terms')
        return self.world.native_binop(name, a, b, self)
    def ex_Compare(self, e, fr):
        left = self.ev(e.left, fr)
        res = None
        for op, c in zip(e.ops, e.comparators):
            right = self.ev(c, fr)
            r = self.compare(type(op), left, right)
            if len(e.ops) == 1: return r
            # chained: short circuit
            if not self.truth(r): return False
            res = r
            left = right
        return True
    def compare(self, op, a, b):
        name = op.__name__
        if name in ('Is', 'IsNot'):
            r = self.identical(a, b)
            return r if name == 'Is' else self.not_(r)
        if name in ('In', 'NotIn'):
            r = self.contains(b, a)
            return r if name == 'In' else self.not_(r)
        if isinstance(a, SymVal):
            r = a.sym_compare(self, name, b, False)
            if r is not NotImplemented: return r
        if isinstance(b, SymVal):
            r = b.sym_compare(self, name, a, True)
            if r is not NotImplemented: return r
        if isinstance(a, SymVal) or isinstance(b, SymVal):
            if name == 'Eq': return a is b
            if name == 'NotEq': return a is not b
            raise Outside(f'compare {name} on {type(a).__name__},{type(b).__name__}')
        if isinstance(a, z3.ExprRef) or isinstance(b, z3.ExprRef):
            if (a is None) or (b is None): return name == 'NotEq'
            return _CMPOPS[op](a, b)
        return self.world.native_compare(name, a, b, self)
    def not_(self, r):
        if isinstance(r, bool): return not r
        return z3.Not(r)
    def identical(self, a, b):
        if isinstance(a, SymVal) and hasattr(a, 'sym_is'): return a.sym_is(self, b)
        if isinstance(b, SymVal) and hasattr(b, 'sym_is'): return b.sym_is(self, a)
        if isinstance(a, z3.ExprRef) or isinstance(b, z3.ExprRef):
            if a is None or b is None: return False
            if isinstance(a, z3.ExprRef) and isinstance(b, z3.ExprRef) and a.sort() == b.sort(): return a == b
            if isinstance(a, (bool, int)) or isinstance(b, (bool, int)):
                # `x is True` with symbolic bool
                if isinstance(a, z3.BoolRef) and isinstance(b, bool): return a if b else z3.Not(a)
                if isinstance(b, z3.BoolRef) and isinstance(a, bool): return b if a else z3.Not(b)
            raise Outside('identity of z3 terms of different sorts')
        return a is b
    def contains(self, container, x):
        if isinstance(container, SymVal): return container.sym_contains(self, x)
        if isinstance(x, SymVal) and hasattr(x, 'sym_in'): return x.sym_in(self, container)
        if isinstance(x, z3.ExprRef):
            items = list(container)
            return z3.Or(*[x == self.world.lift(i, x) for i in items]) if items else False
        if isinstance(container, GenList) or isinstance(container, (list, tuple)) and any(is_sym(i) for i in container):
            if isinstance(x, SymVal): return any(x is i for i in container)
            cs = [self.compare(ast.Eq, i, x) for i in container]
            if all(isinstance(c, bool) for c in cs): return any(cs)
            return z3.Or(*[c if not isinstance(c, bool) else z3.BoolVal(c) for c in cs])
        return self.world.native_contains(container, x, self)

    def mangle(self, attr, fr):
        "private name mangling of `__x` inside a class body"
        if attr.startswith('__') and not attr.endswith('__'):
            f = fr
            while f is not None:
                if getattr(f, 'defcls', None) is not None: return '_' + f.defcls.__name__.lstrip('_') + attr
                f = f.parent
        return attr
    def ex_Attribute(self, e, fr):
        return self.getattr(self.ev(e.value, fr), self.mangle(e.attr, fr))
    def getattr(self, obj, name):
        if isinstance(obj, SymVal): return obj.sym_getattr(self, name)
        if isinstance(obj, SuperProxy): return self.world.super_getattr(self, obj, name)
        if isinstance(obj, z3.ExprRef): return self.world.z3_getattr(self, obj, name)
        return self.world.native_getattr(self, obj, name)

    def ev_slice(self, s, fr):
        if isinstance(s, ast.Slice):
            return slice(*(self.ev(x, fr) if x is not None else None for x in (s.lower, s.upper, s.step)))
        if isinstance(s, ast.Tuple): return tuple(self.ev_slice(x, fr) for x in s.elts)
        return self.ev(s, fr)
    def ex_Subscript(self, e, fr):
        return self.getitem(self.ev(e.value, fr), self.ev_slice(e.slice, fr))
    def getitem(self, obj, k):
        if isinstance(obj, SymVal): return obj.sym_getitem(self, k)
        if isinstance(k, SymVal) and hasattr(k, 'sym_index_into'): return k.sym_index_into(self, obj)
        if isinstance(k, z3.ExprRef):
            return self.world.index_concrete_by_symbolic(self, obj, k)
        if isinstance(obj, z3.ExprRef): raise Outside('subscript of z3 term')
        return self.world.native_getitem(self, obj, k)

    def ex_Call(self, e, fr):
        # super() without arguments
        if isinstance(e.func, ast.Name) and e.func.id == 'super' and not e.args:
            return SuperProxy(fr.locals.get(_first_param(fr)), fr.defcls)
        f = self.ev(e.func, fr)
        args = self._elts(e.args, fr)
        kw = {}
        for k in e.keywords:
            if k.arg is None:
                d = self.ev(k.value, fr)
                if isinstance(d, SymVal) and hasattr(d, 'sym_mapping'): d = d.sym_mapping(self)
                if not isinstance(d, dict): raise Outside('** of non-dict')
                kw.update(d)
            else: kw[k.arg] = self.ev(k.value, fr)
        return self.call(f, args, kw)

    def call(self, f, args, kw):
        if isinstance(f, Contract):
            self.used_contracts.add(f.name)
            return f.fn(self, *args, **kw)
        if isinstance(f, BoundSource):
            self.inlined.add(f.fi.key)
            a = ([f.recv] if f.recv is not None else []) + list(args)
            return self.call_source(f.fi, f.func, f.defcls, a, kw, recv=f.recv)
        if isinstance(f, Closure):
            return self.call_closure(f, args, kw)
        if isinstance(f, SymVal):
            return f.sym_call(self, args, kw)
        if isinstance(f, functools.partial):
            return self.call(f.func, list(f.args) + list(args), {**f.keywords, **kw})
        return self.world.call_live(self, f, args, kw)

    def call_closure(self, c, args, kw):
        fi = c.frame.fi
        locs = self.bind(c.node, None, args, kw)
        fr = Frame(fi, c.frame.func, c.frame.defcls, locs)
        fr.parent = c.frame
        fr.globals = c.frame.globals
        is_gen = _is_generator(c.node)
        if is_gen: fr.yields = GenList()
        try:
            self.block(c.node.body, fr)
            rv = None
        except _Return as r:
            rv = r.v
        return fr.yields if is_gen else rv

    def ex_Yield(self, e, fr):
        if fr.yields is None: raise Outside('yield outside generator')
        fr.yields.append(self.ev(e.value, fr) if e.value is not None else None)
        return None
    def ex_YieldFrom(self, e, fr):
        if fr.yields is None: raise Outside('yield from outside generator')
        fr.yields.extend(self.iterate(self.ev(e.value, fr)))
        return None

    def _comp(self, gens, fr, emit):
        def rec(i, f):
            if i == len(gens): emit(f); return
            g = gens[i]
            if g.is_async: raise Outside('async comprehension')
            for x in self.iterate(self.ev(g.iter, f)):
                self.assign(g.target, x, f)
                if all(self.truth(self.ev(c, f)) for c in g.ifs):
                    rec(i + 1, f)
        f2 = Frame(fr.fi, fr.func, fr.defcls, {})
        f2.parent = fr; f2.globals = fr.globals; f2.yields = None
        rec(0, f2)
    def ex_GeneratorExp(self, e, fr):
        out = GenList()
        self._comp(e.generators, fr, lambda f: out.append(self.ev(e.elt, f)))
        return out
    def ex_ListComp(self, e, fr):
        out = LocalList()
        self._comp(e.generators, fr, lambda f: out.append(self.ev(e.elt, f)))
        return out
    def ex_SetComp(self, e, fr):
        out = []
        self._comp(e.generators, fr, lambda f: out.append(self.ev(e.elt, f)))
        if any(is_sym(x) for x in out):
            h = getattr(self.world, 'sym_set_display', None)       # as for a set display: the class-model world may give it a meaning
            if h is not None: return h(self, out)
            raise Outside('set comprehension with symbolic elements')
        return set(out)
    def ex_DictComp(self, e, fr):
        out = LocalDict()
        def emit(f):
            k = self.ev(e.key, f)
            if is_sym(k): raise Outside('dict comprehension with symbolic key')
            out[k] = self.ev(e.value, f)
        self._comp(e.generators, fr, emit)
        return out

    # ---- protocol helpers
    def iterate(self, v) -> list:
        if isinstance(v, SymVal): return list(v.sym_iter(self))
        if isinstance(v, z3.ExprRef): raise Outside('iterate z3 term')
        if isinstance(v, (list, tuple, GenList)): return list(v)
        if isinstance(v, dict): return list(v.keys())
        return self.world.native_iterate(self, v)
    def len(self, v):
        if isinstance(v, SymVal): return v.sym_len(self)
        if isinstance(v, (list, tuple, dict, str, set, frozenset)): return len(v)
        return self.world.native_len(self, v)

def is_private_name(name):
    return name.startswith('_') and not (name.startswith('__') and name.endswith('__'))

def private_helper(it, cls, name, recv, inlined=None):
    """a private member `name` that `cls` (or one of its pytableaux bases) defines and the class model has no contract for:
    refactorings extract such helpers all the time, so the interpretation follows the code into them (plain function ->
    BoundSource, staticmethod -> the function, property -> its value).  -> (True, value) or (False, None)"""
    import types
    from . import source
    if not is_private_name(name): return False, None
    for c in getattr(cls, '__mro__', ()):
        if name in c.__dict__:
            if not str(getattr(c, '__module__', '')).startswith('pytableaux'): return False, None
            v = c.__dict__[name]
            if isinstance(v, types.FunctionType):
                fi = source.of_function(v)
                if inlined is not None: inlined[fi.key] = fi
                return True, BoundSource(fi, v, c, recv)
            if isinstance(v, staticmethod) and isinstance(v.__func__, types.FunctionType):
                fi = source.of_function(v.__func__)
                if inlined is not None: inlined[fi.key] = fi
                return True, BoundSource(fi, v.__func__, c, None)
            if isinstance(v, property) and isinstance(v.fget, types.FunctionType):
                fi = source.of_function(v.fget)
                if inlined is not None: inlined[fi.key] = fi
                return True, it.call_source(fi, v.fget, c, [recv], {}, recv=recv)
            return False, None
    return False, None

class LocalList(list):
    "a list created by the interpreted code itself (mutation allowed)"
class LocalDict(dict):
    "a dict created by the interpreted code itself (mutation allowed)"
class LocalSet(set):
    "a set of concrete hashable items created by the interpreted code itself (mutation allowed)"
class ExcValue:
    def __init__(self, cls, args): self.cls, self.args = cls, args
class _Deleted: pass
DELETED = _Deleted()

def _load(t):
    import copy
    t2 = copy.copy(t); t2.ctx = ast.Load(); return t2

def _first_param(fr):
    a = fr.fi.node.args
    ps = a.posonlyargs + a.args
    # closures inside methods: walk up
    f = fr
    while f is not None:
        if ps and ps[0].arg in f.locals: return ps[0].arg
        f = f.parent
    return ps[0].arg if ps else 'self'

def _is_generator(node):
    for n in _walk_no_nested(node):
        if isinstance(n, (ast.Yield, ast.YieldFrom)): return True
    return False
def _assigned_names(stmts):
    out = set()
    def tgt(t):
        if isinstance(t, ast.Name): out.add(t.id)
        elif isinstance(t, (ast.Tuple, ast.List)):
            for e in t.elts: tgt(e)
        elif isinstance(t, ast.Starred): tgt(t.value)
    for s_ in stmts:
        for n in ast.walk(s_):
            if isinstance(n, (ast.FunctionDef, ast.Lambda, ast.ClassDef)): continue
            if isinstance(n, ast.Assign):
                for t in n.targets: tgt(t)
            elif isinstance(n, (ast.AugAssign, ast.AnnAssign)): tgt(n.target)
            elif isinstance(n, (ast.For, ast.AsyncFor)): tgt(n.target)
            elif isinstance(n, ast.NamedExpr): tgt(n.target)
            elif isinstance(n, ast.withitem) and n.optional_vars is not None: tgt(n.optional_vars)
            elif isinstance(n, ast.ExceptHandler) and n.name: out.add(n.name)
    return out

def _cursor_expr(func_node, loop, name):
    "E if `name = E` is the statement right before `loop` and the last statement of its body, and the body assigns `name` nowhere else"
    def is_asg(s_):
        return isinstance(s_, ast.Assign) and len(s_.targets) == 1 and isinstance(s_.targets[0], ast.Name) and s_.targets[0].id == name
    if not loop.body or not is_asg(loop.body[-1]): return None
    if name in _assigned_names(loop.body[:-1]): return None
    for n in ast.walk(func_node):
        for fld in ('body', 'orelse', 'finalbody'):
            blk = getattr(n, fld, None)
            if isinstance(blk, list) and loop in blk:
                i = blk.index(loop)
                if i > 0 and is_asg(blk[i - 1]) and ast.dump(blk[i - 1].value) == ast.dump(loop.body[-1].value): return loop.body[-1].value
                return None
    return None

def _walk_no_nested(node):
    todo = list(node.body)
    while todo:
        n = todo.pop()
        yield n
        for c in ast.iter_child_nodes(n):
            if isinstance(c, (ast.FunctionDef, ast.Lambda, ast.ClassDef, ast.AsyncFunctionDef)): continue
            todo.append(c)

def _z3_floordiv(a, b):
    "Python floor division of a z3 term by a concrete non-zero divisor: floor(a / b) (z3's ToInt is floor)"
    if isinstance(b, (int, float)) and not isinstance(b, bool) and b != 0:
        if isinstance(a, z3.ArithRef) and a.is_real():
            return z3.ToReal(z3.ToInt(a / b))
        if b > 0: return a / b          # z3 Int division is floor for a positive divisor
        return z3.ToInt(z3.ToReal(a) / z3.RealVal(b))
    raise Outside('floor division by a symbolic or zero divisor')

def _z3_mod(a, b):
    "Python remainder (sign of the divisor) of a z3 term by a concrete non-zero divisor: a - b * floor(a / b)"
    if isinstance(b, (int, float)) and not isinstance(b, bool) and b != 0:
        if isinstance(a, z3.ArithRef) and a.is_real():
            return a - b * z3.ToReal(z3.ToInt(a / b))
        if b > 0: return a % b
        return a - b * _z3_floordiv(a, b)
    if isinstance(b, z3.ExprRef) and isinstance(a, z3.ArithRef) and a.is_int() and isinstance(b, z3.ArithRef) and b.is_int(): return a % b
    raise Outside('remainder by a symbolic or zero divisor')
