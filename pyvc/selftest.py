"""./vf selftest [names...] — sensitivity and false-alarm test of the machinery itself.

Each catalogue entry is one textual edit of a scratch copy of /repo/pytableaux (made under mktemp, removed
afterwards) and the check expected to raise (or, for harmless edits, to stay quiet).  The catalogue is for the
machinery only; it is never evidence for a property."""
from __future__ import annotations
import os, shutil, subprocess, sys, tempfile, json
from concurrent.futures import ThreadPoolExecutor
from . import VERIF, REPO

# (name, file under pytableaux/, old, new, check, expectation, where it should show: 'obligation' | 'any')
CATALOGUE = [
    ('c07-rm3-cond', 'logics/rm3.py', 'if a > b:', 'if a >= b:', 'C07', 'violation', 'obligation'),
    ('c07-mh-disj', 'logics/mh.py', 'if a == b == self.values.N:\n                return self.values.F', 'if a == b == self.values.N:\n                return self.values.N', 'C07', 'violation', 'obligation'),
    ('c07-g3-neg', 'logics/g3.py', "if a == 'N':\n                return self.values.F", "if a == 'N':\n                return self.values.N", 'C07', 'violation', 'obligation'),
    ('c04-l3-des', 'logics/l3.py', '( rhs, not d, w),', '( rhs, d, w),', 'C04', 'violation', 'obligation'),
    ('c04-k3w-group', 'logics/k3w.py', 'sdwgroup(( lhs, True, w), (~rhs, True, w)),\n                sdwgroup((~lhs, True, w), ( rhs, True, w)),\n                sdwgroup((~lhs, True, w), (~rhs, True, w)))', 'sdwgroup(( lhs, True, w), (~rhs, True, w)),\n                sdwgroup((~lhs, True, w), (~rhs, True, w)))', 'C04', 'violation', 'obligation'),
    ('c04-modal-world', 'logics/kfde.py', 'group(sdwnode(si, d, w2), anode(w1, w2)),', 'group(sdwnode(si, d, w1), anode(w1, w2)),', 'C04', 'violation', 'obligation'),
    ('c04-quant-witness', 'logics/fde.py', 's = branch.new_constant() >> self.sentence(node)', 's = (min(branch.constants) if branch.constants else branch.new_constant()) >> self.sentence(node)', 'C06', 'violation', 'obligation'),
    ('c01-trunk', 'logics/fde.py', 'b += sdwnode(arg.conclusion, False, w)', 'b += sdwnode(arg.conclusion, not arg.premises, w)', 'C01', 'violation', 'obligation'),
    ('c01-identity-world', 'logics/cpl.py', "                if n.get('world') != w:\n", "                if n.get('world') != w and False:\n", 'C01', 'violation', 'obligation'),
    ('c02-backward', 'logics/fde.py', 'class ConjunctionUndesignated(rules.BranchingOperandsRule): pass', 'class ConjunctionUndesignated(rules.OperandsRule): pass', 'C04', 'violation', 'obligation'),
    ('c02-backward-b', 'logics/fde.py', 'class DisjunctionNegatedUndesignated(rules.NegatingBranchingOperandsRule): pass', 'class DisjunctionNegatedUndesignated(rules.NegatingOperandsRule): pass', 'C01', 'violation', 'obligation'),
    ('c02-backward-c', 'logics/fde.py', 'class ConjunctionDesignated(rules.OperandsRule): pass', 'class ConjunctionDesignated(rules.BranchingOperandsRule): pass', 'C02', 'violation', 'obligation'),
    ('c02-fork-alias', 'proof/helpers.py', 'self[branch] = copy(self[branch.parent])', 'self[branch] = self[branch.parent]', 'C02', 'violation', 'obligation'),
    ('c03-nontick', 'proof/rules.py', 'class BaseSimpleRule(Rule):\n\n    Helpers = group(AdzHelper)\n    ticking = True', 'class BaseSimpleRule(Rule):\n\n    Helpers = group(AdzHelper)\n    ticking = False', 'C03', 'violation', 'any'),
    ('c05-glut-world', 'logics/k3.py', "return branch.find(sdwnode(-node['sentence'], True, node.get('world')))", "return branch.find(sdwnode(-node['sentence'], True, None))", 'C05', 'violation', 'obligation'),
    ('c05-read-table', 'models/__init__.py', "base = 'TNFB'", "base = 'TBFN'", 'C05', 'violation', 'obligation'),
    ('c05-gap-weak', 'logics/lp.py', "if node['designated'] is False:", "if node['designated'] is False and node.get('world') is None:", 'C05', 'violation', 'obligation'),
    ('c06-append', 'proof/common.py', 'self._nextconst = max(self._constants).next()', 'self._nextconst = max(cons).next()', 'C06', 'violation', 'obligation'),
    ('c06-world', 'proof/common.py', 'if maxworld >= self._nextworld:', 'if maxworld > self._nextworld:', 'C06', 'violation', 'obligation'),
    ('c06-copy-alias', 'proof/common.py', 'b._constants = self._constants.copy()', 'b._constants = self._constants', 'C06', 'violation', 'obligation'),
    ('c08-limit', 'tools/__init__.py', 'if val == limit or better(val, limit):\n            return val', 'if val == limit or better(val, limit):\n            return best', 'C08', 'violation', 'obligation'),
    ('c08-mh-quant', 'logics/mh.py', 'if len(valset) > 1:\n            return values.N', 'if len(valset) > 2:\n            return values.N', 'C08', 'violation', 'obligation'),
    ('c08-reflexive', 'models/__init__.py', "class ReflexiveAccess(BaseModel.Access):\n\n    def enforce(self):\n        for w in self:\n            self.add((w, w))", "class ReflexiveAccess(BaseModel.Access):\n\n    def enforce(self):\n        for w in self:\n            if self[w]: self.add((w, w))", 'C08', 'violation', 'obligation'),
    ('c09-score-none', 'logics/kfde.py', 'if self.score_candidate(target) > 0:\n                return 1.0\n            s = self.sentence(target.node)', "if target['candidate_score'] > 0:\n                return 1.0\n            s = self.sentence(target.node)", 'C09', 'violation', 'obligation'),
    ('c09-select-last', 'proof/tableaux.py', 'if group_score == max_group_score:', 'if group_score == min_group_score:', 'C09', 'violation', 'obligation'),
    ('c10-closure-order', 'proof/tableaux.py', "        self.rules.groups.create('closure').extend(Rules.closure)\n        for group in Rules.groups:\n            self.rules.groups.create().extend(group)", "        for group in Rules.groups:\n            self.rules.groups.create().extend(group)\n        self.rules.groups.create('closure').extend(Rules.closure)", 'C10', 'violation', 'obligation'),
    ('c11-registry', 'logics/__init__.py', '            extends -= result\n', '            extends -= result\n            extends.discard(logic)\n', 'C11', 'quiet', 'any'),
    ('c11-decl', 'logics/k3.py', "extension_of = ('FDE')", "extension_of = ('FDE', 'L3')", 'C11', 'violation', 'obligation'),
    ('c12-subscript', 'lang/writing.py', "if s == 0: return ''", "if s == 0 or s == 10: return ''", 'C12', 'violation', 'obligation'),
    ('c13-checkbound', 'lang/parsing.py', "        if ctype is Variable:\n            context.check_bound(param)", "        if ctype is Variable and context.pos < 6:\n            context.check_bound(param)", 'C13', 'violation', 'any'),
    ('c13-chomp', 'lang/parsing.py', "            while self.type(self.input[self.pos], None) is Marking.whitespace:\n                self.pos += 1", "            while self.type(self.input[self.pos], None) is Marking.whitespace:\n                self.pos += 2", 'C13', 'violation', 'obligation'),
    ('c13-unbind', 'lang/parsing.py', "if self.check_bound(v) not in s.variables:", "if self.check_bound(v) not in s.variables and len(self.bound) < 2:", 'C13', 'violation', 'obligation'),
    ('c14-order', 'lang/lex.py', 'it = zip_longest(lhs.sort_tuple, rhs.sort_tuple, fillvalue=0)', 'it = zip(lhs.sort_tuple, rhs.sort_tuple)', 'C14', 'violation', 'obligation'),
    ('c14-cache-evict', 'lang/lex.py', '                    for k in rev.pop(old):\n                        del(idx[k])', '                    for k in rev.pop(old):\n                        if k is not old: del(idx[k])', 'C14', 'violation', 'obligation'),
    ('c15-quant-subst', 'lang/lex.py', 'return self.quantifier(self.variable, self.sentence.substitute(pnew, pold))', 'return self.quantifier(self.variable, self.sentence) if pold == self.variable else self.quantifier(self.variable, self.sentence.substitute(pnew, pold))', 'C15', 'violation', 'obligation'),
    ('c15-operators-order', 'lang/lex.py', "            (self.operator, *chain.from_iterable(\n                s.operators for s in self)))", "            (*chain.from_iterable(\n                s.operators for s in self), self.operator))", 'C15', 'violation', 'obligation'),
    ('c16-descendants', 'proof/tableaux.py', 'tree.descendant_node_count += len(child.nodes) + child.descendant_node_count', 'tree.descendant_node_count = len(child.nodes) + child.descendant_node_count', 'C16', 'violation', 'obligation'),
    ('c16-open-view', 'proof/tableaux.py', '            opens.remove(branch)\n            self.emit(Tableau.Events.AFTER_BRANCH_CLOSE, branch)', '            self.emit(Tableau.Events.AFTER_BRANCH_CLOSE, branch)', 'C16', 'violation', 'obligation'),
    ('c17-maxsteps', 'proof/tableaux.py', "len(self.history) >= self.opts['max_steps'])", "len(self.history) > self.opts['max_steps'])", 'C17', 'violation', 'obligation'),
    ('c17-valid-premature', 'proof/tableaux.py', "        if self.completed and self.argument is not None:\n            return len(self.open) == 0", "        if self.finished and self.argument is not None:\n            return len(self.open) == 0", 'C17', 'violation', 'obligation'),
    ('c18-insert-set', 'tools/hybrids.py', '        self._seq_.insert(index, value)\n        self._set_.add(value)', '        self._seq_.insert(index, value)\n        if index: self._set_.add(value)', 'C18', 'violation', 'obligation'),
    ('c18-delitem', 'tools/hybrids.py', '        del self._seq_[key]\n        self._set_.difference_update(values)', '        del self._seq_[key]', 'C18', 'violation', 'obligation'),
    ('c19-legend', 'lang/_symdata.py', "'serial'", "'serial_'", 'C19', 'violation', 'obligation'),
    ('c20-having', 'models/__init__.py', "data = self._get_predicate_data_part(predicate, interp.having(*'BF'))", "data = self._get_predicate_data_part(predicate, interp.having(*'F'))", 'C20', 'violation', 'obligation'),
    # harmless edits: no alarm allowed
    ('h-rename-local', 'proof/common.py', "            if len(cons := s.constants):\n                self._constants.update(cons)\n                if self._nextconst in cons:", "            if len(ks := s.constants):\n                cons = ks\n                self._constants.update(cons)\n                if self._nextconst in cons:", 'C06', 'quiet', 'any'),
    ('h-reorder', 'proof/tableaux.py', "        self.flag |= self.flag.FINISHED\n        timeouterr = None", "        timeouterr = None\n        self.flag |= self.flag.FINISHED", 'C17', 'quiet', 'any'),
    ('h-l3-order', 'logics/l3.py', "                    ( lhs, not d, w),\n                    ( rhs, not d, w),\n                    (~lhs, not d, w),", "                    ( rhs, not d, w),\n                    ( lhs, not d, w),\n                    (~lhs, not d, w),", 'C04', 'quiet', 'any'),
    ('h-truth-helper', 'logics/k3w.py', "            if a == 'N' or b == 'N':\n                return self.values.N\n            return super().Conjunction(a, b)", "            if b == 'N' or a == 'N':\n                return self.values.N\n            return super().Conjunction(a, b)", 'C07', 'quiet', 'any'),
]

def run_one(entry):
    name, rel, old, new, check, expect, where = entry
    scr = tempfile.mkdtemp(prefix='selftest_', dir='/tmp')
    try:
        shutil.copytree(os.path.join(REPO, 'pytableaux'), os.path.join(scr, 'pytableaux'))
        p = os.path.join(scr, 'pytableaux', rel)
        s = open(p).read()
        if old not in s: return name, 'STALE', f'pattern not found in {rel}'
        open(p, 'w').write(s.replace(old, new, 1))
        env = dict(os.environ, VERIF_REPO=scr, VERIF_OUT=os.path.join(scr, 'out'))
        r = subprocess.run([os.path.join(VERIF, 'vf'), 'check', check], capture_output=True, text=True, env=env, timeout=1200)
        viol = [l for l in r.stdout.splitlines() if l.startswith('VIOLATION')]
        ob_viol = [l for l in viol if 'bounded stand-in' not in l]
        if expect == 'violation':
            ok = r.returncode == 1 and (bool(ob_viol) if where == 'obligation' else bool(viol))
            detail = f'exit={r.returncode} violations={len(viol)} by-obligation={len(ob_viol)}'
        else:
            ok = r.returncode == 0 and not viol
            detail = f'exit={r.returncode} violations={len(viol)} ' + ' | '.join([l[:120] for l in r.stdout.splitlines() if l.startswith(('VIOLATION', 'UNDECIDED', 'CHECKER'))][:2])
        return name, 'ok' if ok else 'FAIL', detail
    finally:
        shutil.rmtree(scr, ignore_errors=True)

def seed_entries():
    "the confirmed seeded changes kept under /verif/seeded/<id>/ (patch.diff + meta.json): the property's own check must raise"
    out = []
    root = os.path.join(VERIF, 'seeded')
    for d in sorted(os.listdir(root)) if os.path.isdir(root) else []:
        mp, pp = os.path.join(root, d, 'meta.json'), os.path.join(root, d, 'patch.diff')
        if os.path.exists(mp) and os.path.exists(pp):
            m = json.load(open(mp))
            out.append((d, m['property'], pp, 'quiet' if m.get('kind') == 'behaviour-preserving' else 'violation'))
    return out

def run_seed(entry):
    name, check, patch, expect = entry
    scr = tempfile.mkdtemp(prefix='selftest_', dir='/tmp')
    try:
        shutil.copytree(os.path.join(REPO, 'pytableaux'), os.path.join(scr, 'pytableaux'))
        r = subprocess.run(['patch', '-p1', '-s', '-d', scr, '-i', patch], capture_output=True, text=True)
        if r.returncode != 0: return name, 'STALE', f'patch does not apply: {(r.stdout + r.stderr)[-120:]}'
        env = dict(os.environ, VERIF_REPO=scr)
        r = subprocess.run([os.path.join(VERIF, 'vf'), 'check', check], capture_output=True, text=True, env=env, timeout=1800)
        viol = [l for l in r.stdout.splitlines() if l.startswith('VIOLATION')]
        if expect == 'quiet':
            ok = r.returncode == 0 and not viol          # a behaviour-preserving change: no alarm, and decided
            return name, 'ok' if ok else 'FAIL', f'{check} exit={r.returncode} violations={len(viol)} (expected quiet) ' + ' | '.join(l[:100] for l in r.stdout.splitlines() if l.startswith(('VIOLATION', 'UNDECIDED', 'CHECKER')))[:200]
        ok = r.returncode == 1 and bool(viol)
        return name, 'ok' if ok else 'FAIL', f'{check} exit={r.returncode} violations={len(viol)} ' + (viol[0].split('#', 1)[-1].strip()[:100] if viol else '')
    finally:
        shutil.rmtree(scr, ignore_errors=True)
        shutil.rmtree(os.path.join('/tmp/verif_scratch_out', os.path.basename(scr)), ignore_errors=True)

def main(names):
    cat = [e for e in CATALOGUE if not names or e[0] in names or e[4] in names]
    seeds = [e for e in seed_entries() if not names or e[0] in names or e[1] in names or 'seeds' in names]
    if names == ['seeds']: cat = []
    bad = 0
    with ThreadPoolExecutor(max_workers=3) as ex:
        for name, status, detail in ex.map(run_seed, seeds):
            print(f'{status:5s} {name:24s} {detail}')
            sys.stdout.flush()
            if status != 'ok': bad += 1
    cat_n = len(cat) + len(seeds)
    with ThreadPoolExecutor(max_workers=4) as ex:
        for name, status, detail in ex.map(run_one, cat):
            print(f'{status:5s} {name:24s} {detail}')
            sys.stdout.flush()
            if status != 'ok': bad += 1
    print(f'selftest: {cat_n - bad}/{cat_n} as expected')
    return 1 if bad else 0
