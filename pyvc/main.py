"""vf command line: check <ID> [--tier quick|thorough] | replay <path> | selftest"""
from __future__ import annotations
import argparse, importlib, json, os, sys, traceback
from . import VERIF, REPO

def main(argv=None):
    ap = argparse.ArgumentParser(prog='vf')
    sub = ap.add_subparsers(dest='cmd', required=True)
    c = sub.add_parser('check'); c.add_argument('prop'); c.add_argument('--tier', default=os.environ.get('VERIF_TIER', 'quick'), choices=['quick', 'thorough'])
    r = sub.add_parser('replay'); r.add_argument('path')
    s = sub.add_parser('selftest'); s.add_argument('names', nargs='*')
    a = ap.parse_args(argv)
    os.chdir(VERIF)
    if a.cmd == 'check':
        from .report import Ctx
        from . import source
        seed = int(os.environ.get('VERIF_SEED', '0') or 0)
        prop = a.prop.upper()
        ctx = Ctx(prop, a.tier, seed)
        # watchdog: a changed tree can make the code under test spin in places no inner guard covers; a check that does not
        # finish is a checker fault (exit 3), never a verdict
        import threading, signal
        limit = int(os.environ.get('VERIF_CHECK_TIMEOUT', '2400' if a.tier == 'quick' else '14400'))
        def _expire():
            sys.stdout.write(f'CHECKER-FAULT check {prop} did not finish within {limit} s (watchdog); no verdict\n'); sys.stdout.flush()
            try:
                from pyvc import par
                for pid in list(par.CHILDREN):
                    try: os.kill(pid, 9)
                    except Exception: pass
            finally: os._exit(3)
        wd = threading.Timer(limit, _expire); wd.daemon = True; wd.start()
        try:
            source.check_repo_imported_from_worktree()
            mod = importlib.import_module(f'checks.{prop.lower()}')
            mod.run(ctx)
        except Exception:
            traceback.print_exc()
            ctx.fault('checker crashed: ' + traceback.format_exc().strip().splitlines()[-1])
        code = ctx.finish()
        sys.exit(code)
    if a.cmd == 'replay':
        p = a.path if os.path.isabs(a.path) else os.path.join(VERIF, a.path)
        with open(p) as f: payload = json.load(f)
        prop = payload['property']
        mod = importlib.import_module(f'checks.{prop.lower()}')
        out = mod.replay(payload)
        print(json.dumps(out, indent=1, default=str))
        sys.exit(1 if out.get('reproduced') else 0)
    if a.cmd == 'selftest':
        from . import selftest
        sys.exit(selftest.main(a.names))

if __name__ == '__main__':
    main()
