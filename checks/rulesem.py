"""Shared machinery: interpret every rule body of every logic into a schema, and build the exactness
obligations (forward = soundness direction, backward = completeness direction) against spec/semantics.py.
Used by C04 (iff), C01 (forward), C02 (backward), C03 (weights), C06 (witness freshness)."""
from __future__ import annotations
import itertools, functools
from dataclasses import dataclass, field
import z3
from pyvc import source
from pyvc.interp import Interp, explore, Outside, PyExc, GenList
from pyvc.smt import Obligation, Result
from contracts import rules as R
from contracts.rules import STerm, Param, WorldTok, NodeVal, Atom, Body
from spec import semantics as S

def registry():
    from pytableaux.logics import registry
    registry.import_all()
    return registry

@functools.lru_cache(maxsize=None)
def all_logics():
    reg = registry()
    return [reg(n) for n in reg]

def classify(rc):
    from pytableaux.proof import rules as PR
    if issubclass(rc, PR.ClosingRule): return 'closure'
    if getattr(rc, 'quantifier', None) is not None and not issubclass(rc, PR.NarrowQuantifierRule): return 'quant-plain'
    if issubclass(rc, PR.ModalOperatorRule): return 'modal'
    if issubclass(rc, PR.OperatorNodeRule) and getattr(rc, 'operator', None) is not None and rc.operator.name in ('Possibility', 'Necessity'): return 'modal'
    if issubclass(rc, PR.ExtendedQuantifierRule): return 'quant-fat'
    if issubclass(rc, PR.NarrowQuantifierRule): return 'quant-skinny'
    if issubclass(rc, PR.QuantifiedSentenceRule): return 'quant-plain'
    if issubclass(rc, PR.OperatorNodeRule): return 'operator'
    if issubclass(rc, PR.BaseAccessRule): return 'access'
    if issubclass(rc, PR.PredicatedSentenceRule): return 'predicate'
    return 'other'

def rule_classes(logic):
    "all rule classes of the logic's rule table: closure + groups, in table order"
    Rl = logic.Rules
    out = []
    for rc in Rl.closure: out.append(rc)
    for g in Rl.groups:
        for rc in g: out.append(rc)
    seen = set(); res = []
    for rc in out:
        if rc not in seen: seen.add(rc); res.append(rc)
    return res

@dataclass
class Schema:
    logic: object
    rulecls: type
    kind: str
    node: NodeVal = None
    node_sentence: STerm = None
    inner: STerm = None
    designation: object = None
    paths: list = field(default_factory=list)      # [(notes, targets:list[dict]), ...]
    funcs: list = field(default_factory=list)      # FuncInfos interpreted
    error: str = ''
    entry: str = ''

def _node_for(logic, rc, inner):
    from pytableaux.proof import common as C
    Operator = R._lang()[0]
    s = inner.neg() if rc.negated else inner
    d = rc.designation
    props = dict(sentence=s)
    if d is not None: props['designated'] = d
    if logic.Meta.modal: props['world'] = WorldTok('w')
    cls = C.Node.for_mapping({k: (1 if k == 'world' else (True if k == 'designated' else 'x')) for k in props}).__class__
    return NodeVal(cls, props, label='node'), s

def inner_sentence(rc, kind):
    Operator, Quantifier, _ = R._lang()
    if kind in ('operator', 'modal'):
        op = rc.operator
        if op is None: return None
        return STerm.Op(op, Atom('A')) if op.arity == 1 else STerm.Op(op, Atom('A'), Atom('B'))
    if kind.startswith('quant'):
        q = rc.quantifier
        if q is None: return None
        v = Param('var', 'x')
        return STerm('quant', q, v, Body('phi', v))
    return None

def modal_helpers():
    from pytableaux.proof import helpers as H
    hs = {H.WorldIndex: R.WorldIndexModel(), H.NodeCount: R.NodeCountModel()}
    hs[H.NodesWorlds] = R.AbstractSetModel('NodesWorlds')
    return hs

@functools.lru_cache(maxsize=None)
def schema(logic, rc) -> Schema:
    """the schema of the rule body.  In a rule body an operand stands for ANY sentence, a negation included, so negative() of an operand
    has two readings: the body is interpreted once taking the operand for a non-negation (negative = negate) and, when it asked at all,
    once more taking it for a negation (negative = what it negates); the second schema is sc.alt and gets obligations of its own"""
    old = R.NEGATIVE_OF_OPAQUE
    try:
        R.NEGATIVE_OF_OPAQUE = 'neg'; R.NEGATIVE_USED = False
        sc = _schema(logic, rc)
        if R.NEGATIVE_USED and not sc.error:
            R.NEGATIVE_OF_OPAQUE = 'unneg'
            sc.alt = _schema(logic, rc)
        return sc
    finally: R.NEGATIVE_OF_OPAQUE = old

def _schema(logic, rc) -> Schema:
    kind = classify(rc)
    sc = Schema(logic, rc, kind)
    inner = inner_sentence(rc, kind)
    if inner is None:
        sc.error = 'no operator/quantifier attribute'; return sc
    sc.inner = inner
    sc.designation = rc.designation
    world = R.make_world()
    if kind == 'quant-fat':
        entry, mk_args = '_get_constant_nodes', lambda node, br: [node, Param('const', 'c'), br]
    else:
        entry, mk_args = '_get_node_targets', lambda node, br: [node, br]
    sc.entry = entry
    holder = {}
    def run(path):
        it = Interp(path, world)
        rm = R.RuleModel(rc, logic, helpers=modal_helpers())
        node, ns = _node_for(logic, rc, inner)
        holder['node'], holder['ns'], holder['rm'] = node, ns, rm
        br = R.BranchTok()
        f = rm.bound(entry)
        res = it.call(f, mk_args(node, br), {})
        return it.iterate(res) if res is not None else []
    try:
        prs = explore(run)
    except Outside as e:
        sc.error = f'outside subset: {e}'; return sc
    except PyExc as e:
        sc.error = f'exception {e.cls.__name__}'; return sc
    sc.node, sc.node_sentence = holder['node'], holder['ns']
    seen = {}
    for fi in holder['rm'].inlined: seen[fi.key] = fi
    sc.funcs = list(seen.values())
    for p in prs:
        if p.kind == 'raise':
            sc.error = f'exception {p.value.cls.__name__} on a path'; return sc
        if p.kind == 'cut': continue
        sc.paths.append((dict(p.path.notes), list(p.value)))
    return sc

# ------------------------------------------------------------------ semantics of schemas in z3

CODE = {S.F: 0, S.N: 1, S.B: 2, S.T: 3}
UNCODE = {v: k for k, v in CODE.items()}

class ZSem:
    "spec semantics as z3 terms over value codes (Int 0..3 restricted to the logic's values)"
    def __init__(self, sem: S.Sem):
        self.sem = sem
        self.vals = list(sem.values)
    def dom(self, x): return z3.Or(*[x == CODE[v] for v in self.vals])
    def des(self, x): return z3.Or(*[x == CODE[v] for v in self.sem.designated])
    def is_true(self, x): return x == CODE[S.T]
    def op(self, name, *xs):
        ar = len(xs)
        tuples = list(itertools.product(self.vals, repeat=ar))
        res = None
        for tup in reversed(tuples):
            out = z3.IntVal(CODE[self.sem.op(name, *tup)])
            if res is None: res = out
            else: res = z3.If(z3.And(*[x == CODE[v] for x, v in zip(xs, tup)]), out, res)
        return res
    def gen(self, which, occ: dict):
        """generalised disjunction/conjunction as a function of the *set* of occurring values.
        occ: value -> z3 Bool (occurs).  `which` in exists|forall|poss|nec"""
        f = getattr(self.sem, which)
        res = None
        subsets = []
        for r in range(len(self.vals) + 1):
            for sub in itertools.combinations(self.vals, r): subsets.append(sub)
        for sub in reversed(subsets):
            if not sub and which in ('exists', 'forall'):
                continue                # first-order domains are non-empty
            out = z3.IntVal(CODE[f(list(sub))])
            cond = z3.And(*[occ[v] if v in sub else z3.Not(occ[v]) for v in self.vals])
            res = out if res is None else z3.If(cond, out, res)
        return res

def sat_node(zs: ZSem, value, d):
    "node (s, d) is satisfied by value"
    if d is None: return zs.is_true(value)
    return zs.des(value) if d else z3.Not(zs.des(value))

def fmt_groups(groups):
    return [[(repr(n.props.get('sentence')) if 'sentence' in n.props else f"access({n.props.get('world1')},{n.props.get('world2')})",
              n.props.get('designated'), repr(n.props.get('world')) if n.props.get('world') is not None else None) for n in g] for g in groups]


# ------------------------------------------------------------------ exactness obligations

MODAL = ('Possibility', 'Necessity')

class Ctx:
    "evaluation context of schema terms"
    def __init__(self, zs, atoms=None, inst=None, occ=None, world_atoms=None, node_world='w'):
        self.zs, self.atoms, self.inst, self.occ = zs, atoms or {}, inst or {}, occ
        self.world_atoms = world_atoms or {}      # world token name -> value of atom A there
        self.node_world = node_world

def ev(t: STerm, cx: Ctx, world=None):
    zs = cx.zs
    if t.kind == 'atom':
        wn = world.name if isinstance(world, WorldTok) else None
        if cx.world_atoms:
            if wn in cx.world_atoms: return cx.world_atoms[wn]
            raise Outside(f'atom at world {wn}')
        return cx.atoms[t.a]
    if t.kind == 'inst':
        return cx.inst[t.b.name]
    if t.kind == 'body':
        return cx.inst['<var>']
    if t.kind == 'op':
        name = t.a.name
        if name in MODAL:
            wn = world.name if isinstance(world, WorldTok) else None
            if wn != cx.node_world: raise Outside(f'modal operator evaluated at world {wn}')
            img = image_occ(t.b[0], cx, 'world')
            return zs.gen('poss' if name == 'Possibility' else 'nec', img)
        return zs.op(name, *[ev(x, cx, world) for x in t.b])
    if t.kind == 'unneg':
        k = repr(t)
        if k in getattr(cx, 'unneg', {}): return cx.unneg[k]
        raise Outside('the operand of a stripped negation is unbound here')
    if t.kind == 'quant':
        cx2 = cx
        img = image_occ(t.c, cx, 'inst')
        return zs.gen('exists' if t.a.name == 'Existential' else 'forall', img)
    raise Outside(t.kind)

def image_occ(body: STerm, cx: Ctx, mode):
    """occurrence vector of {value(body at element e) | e in family}; the family is abstracted by cx.occ
    (which values the opaque part takes on the family).  body's value at an element whose opaque value is v
    is computed concretely from the spec."""
    zs = cx.zs
    img = {u: [] for u in zs.vals}
    for v in zs.vals:
        if mode == 'inst':
            c2 = Ctx(zs, atoms=cx.atoms, inst={'<var>': z3.IntVal(CODE[v])}, occ=None)
            t = ev(body, c2)
        else:
            c2 = Ctx(zs, world_atoms={'<elem>': z3.IntVal(CODE[v])}, node_world=None)
            t = ev(body, c2, WorldTok('<elem>'))
        r = z3.simplify(t)
        if not z3.is_int_value(r): raise Outside('image of a non-closed body')
        img[UNCODE[r.as_long()]].append(cx.occ[v])
    return {u: (z3.Or(*cs) if cs else z3.BoolVal(False)) for u, cs in img.items()}

def _groups_of(sc: Schema):
    "the unique non-empty schema of the rule: (groups, extra target keys)"
    found = None
    for notes, targets in sc.paths:
        for t in targets:
            if isinstance(t, NodeVal):       # _get_constant_nodes yields nodes
                g = ((t,),)
                key = ('nodes', tuple(n.key() for n in g[0]))
                cur = (g, key, notes)
            else:
                g = tuple(tuple(grp) for grp in t['adds'])
                key = ('adds', tuple(tuple(n.key() for n in grp) for grp in g))
                cur = (g, key, notes)
            if found is None: found = cur
            elif found[1] != cur[1]: raise Outside('paths of the rule body yield different schemas')
    if found is None: raise Outside('rule body yields no target on any path')
    return found[0], found[2]

def _unneg_terms(t, out):
    if not isinstance(t, STerm): return out
    if t.kind == 'unneg':
        if all(repr(t) != repr(x) for x in out): out.append(t)
        return out
    if t.kind == 'op':
        for x in t.b: _unneg_terms(x, out)
    elif t.kind == 'quant': _unneg_terms(t.c, out)
    return out

def _node_sat(zs, n: NodeVal, cx: Ctx):
    if 'sentence' not in n.props: return z3.BoolVal(True)        # access nodes: satisfied by construction of the variant
    s_ = n.props['sentence']
    us = _unneg_terms(s_, [])
    if not us:
        v = ev(s_, cx, n.props.get('world'))
        return sat_node(zs, v, n.props.get('designated'))
    # the operand x is a negation ¬y: y has SOME value u with neg(u) = value(x); the node must be satisfied for every such u
    cl = []
    for combo in itertools.product(zs.vals, repeat=len(us)):
        cx2 = Ctx(zs, atoms=cx.atoms, inst=cx.inst, occ=cx.occ, world_atoms=cx.world_atoms, node_world=cx.node_world)
        cx2.unneg = {repr(t): z3.IntVal(CODE[u]) for t, u in zip(us, combo)}
        pre = z3.And(*[zs.op('Negation', z3.IntVal(CODE[u])) == ev(t.a, cx, n.props.get('world')) for t, u in zip(us, combo)])
        v = ev(s_, cx2, n.props.get('world'))
        cl.append(z3.Implies(pre, sat_node(zs, v, n.props.get('designated'))))
    return z3.And(*cl)

def _occ_vars(zs, pfx='occ'):
    return {v: z3.Bool(f'{pfx}_{S.NAME[v]}') for v in zs.vals}

def exactness(sc: Schema, prefix: str, where: str):
    """-> list[Obligation] named <prefix>.forward / <prefix>.backward (and <prefix>.operand-negation.forward / .backward for the second
    reading of a body that asked for negative() of an operand)"""
    obs = _exactness(sc, prefix, where, False)
    alt = getattr(sc, 'alt', None)
    if alt is not None:
        if alt.error: raise Outside(f'second reading of negative(): {alt.error}')
        obs += _exactness(alt, prefix + '.operand-negation', where, True)
    return obs

def _neg_image(zs):
    return sorted({zs.sem.op('Negation', v) for v in zs.vals}, key=lambda v: CODE[v])

def _exactness(sc: Schema, prefix: str, where: str, operand_is_negation: bool):
    L = sc.logic.Meta.name
    sem = S.spec_of(L)
    zs = ZSem(sem)
    groups, notes = _groups_of(sc)
    d = sc.designation
    meta = dict(logic=L, rule=sc.rulecls.__name__, kind=sc.kind, node=repr(sc.node_sentence), designation=d, schema=fmt_groups(groups),
                defined_in=[f.key for f in sc.funcs])
    obs = []
    def mk(suffix, goal, hyps, vars_, decode):
        hy_ = list(hyps)
        if operand_is_negation:
            # this reading: the operands are negations, so they (and the body at every element / world) only take values negation yields
            img = _neg_image(zs)
            for x in vars_:
                if z3.is_int(x): hy_.append(z3.Or(*[x == CODE[v] for v in img]))
                elif z3.is_bool(x) and str(x).startswith('occ_'):
                    v = next(k for k, nm in S.NAME.items() if nm == str(x)[4:])
                    if v not in img: hy_.append(z3.Not(x))
        obs.append(Obligation(f'{prefix}.{suffix}', goal, hyps=hy_, where=where, meta=dict(meta, direction=suffix, reading=('operands are negations' if operand_is_negation else None)), decode=decode, enum_vars=vars_))
    if sc.kind == 'operator':
        a, b = z3.Int('A'), z3.Int('B')
        cx = Ctx(zs, atoms=dict(A=a, B=b))
        lhs = sat_node(zs, ev(sc.node_sentence, cx), d)
        rhs = z3.Or(*[z3.And(*[_node_sat(zs, n, cx) for n in g]) for g in groups]) if groups else z3.BoolVal(False)
        hy = [zs.dom(a), zs.dom(b)]
        used = [a, b] if sc.inner.a.arity == 2 else [a]
        dec = lambda m: {str(x): S.NAME[UNCODE[m.eval(x, model_completion=True).as_long()]] for x in used}
        mk('forward', z3.Implies(lhs, rhs), hy, used, dec)
        mk('backward', z3.Implies(rhs, lhs), hy, used, dec)
        return obs
    if sc.kind.startswith('quant'):
        occ = _occ_vars(zs)
        vn = z3.Int('new')
        occl = list(occ.values())
        def dec(m):
            out = {f'occ_{S.NAME[v]}': bool(z3.is_true(m.eval(o, model_completion=True))) for v, o in occ.items()}
            out['new'] = S.NAME.get(UNCODE.get(m.eval(vn, model_completion=True).as_long()), '?')
            return out
        if sc.kind == 'quant-fat':
            cxn = Ctx(zs, occ=occ)
            lhs = sat_node(zs, ev(sc.node_sentence, cxn), d)
            per = []
            for v in zs.vals:
                cxv = Ctx(zs, inst={'c': z3.IntVal(CODE[v])}, occ=occ)
                per.append(z3.Implies(occ[v], z3.And(*[_node_sat(zs, n, cxv) for g in groups for n in g])))
            rhs = z3.And(*per)
            hy = [z3.Or(*occl)]
            mk('forward', z3.Implies(lhs, rhs), hy, occl, dec)
            mk('backward', z3.Implies(rhs, lhs), hy, occl, dec)
            return obs
        uses_new = 'NEW' in repr(fmt_groups(groups))
        if not uses_new:
            cxn = Ctx(zs, occ=occ)
            lhs = sat_node(zs, ev(sc.node_sentence, cxn), d)
            rhs = z3.Or(*[z3.And(*[_node_sat(zs, n, cxn) for n in g]) for g in groups])
            hy = [z3.Or(*occl)]
            mk('forward', z3.Implies(lhs, rhs), hy, occl, dec)
            mk('backward', z3.Implies(rhs, lhs), hy, occl, dec)
            return obs
        # witness rule.  forward: the new constant copies an element of the (non-empty) domain
        cx0 = Ctx(zs, occ=occ)
        lhs0 = sat_node(zs, ev(sc.node_sentence, cx0), d)
        alts = []
        for v in zs.vals:
            cxv = Ctx(zs, inst={'NEW': z3.IntVal(CODE[v])}, occ=occ)
            alts.append(z3.And(occ[v], z3.Or(*[z3.And(*[_node_sat(zs, n, cxv) for n in g]) for g in groups])))
        mk('forward', z3.Implies(lhs0, z3.Or(*alts)), [z3.Or(*occl)], occl, dec)
        # backward: any value for the new constant; the domain afterwards contains it
        occ2 = {v: z3.Or(occ[v], vn == CODE[v]) for v in zs.vals}
        cx1 = Ctx(zs, inst={'NEW': vn}, occ=occ2)
        rhs1 = z3.Or(*[z3.And(*[_node_sat(zs, n, cx1) for n in g]) for g in groups])
        lhs1 = sat_node(zs, ev(sc.node_sentence, cx1), d)
        mk('backward', z3.Implies(rhs1, lhs1), [zs.dom(vn)], occl + [vn], dec)
        return obs
    if sc.kind == 'modal':
        occ = _occ_vars(zs)
        occl = list(occ.values())
        vn, aw = z3.Int('new'), z3.Int('here')
        def dec(m):
            out = {f'occ_{S.NAME[v]}': bool(z3.is_true(m.eval(o, model_completion=True))) for v, o in occ.items()}
            out['new'] = S.NAME.get(UNCODE.get(m.eval(vn, model_completion=True).as_long()), '?')
            out['here'] = S.NAME.get(UNCODE.get(m.eval(aw, model_completion=True).as_long()), '?')
            return out
        text = repr(fmt_groups(groups))
        uses_new = "'NEW'" in text or 'NEW' in text
        generic = "'w2'" in text
        if generic and uses_new: raise Outside('modal schema mixes a generic accessible world and a new world')
        hy0 = [zs.dom(aw)]
        if not uses_new:
            # universal-type: one target per accessible world; the family of accessible worlds is abstracted by occ
            cxn = Ctx(zs, occ=occ, world_atoms={'w': aw}, node_world='w')
            lhs = sat_node(zs, ev(sc.node_sentence, cxn, WorldTok('w')), d)
            if generic:
                per = []
                for v in zs.vals:
                    cxv = Ctx(zs, occ=occ, world_atoms={'w': aw, 'w2': z3.IntVal(CODE[v])}, node_world='w')
                    per.append(z3.Implies(occ[v], z3.Or(*[z3.And(*[_node_sat(zs, n, cxv) for n in g]) for g in groups])))
                rhs = z3.And(*per)
            else:
                rhs = z3.Or(*[z3.And(*[_node_sat(zs, n, cxn) for n in g]) for g in groups])
            mk('forward', z3.Implies(lhs, rhs), hy0, occl + [aw], dec)
            mk('backward', z3.Implies(rhs, lhs), hy0, occl + [aw], dec)
            return obs
        # witness-type
        cx0 = Ctx(zs, occ=occ, world_atoms={'w': aw}, node_world='w')
        lhs0 = sat_node(zs, ev(sc.node_sentence, cx0, WorldTok('w')), d)
        alts = []
        gw = [g for g in groups if 'NEW' in repr(fmt_groups([g]))]
        gn = [g for g in groups if 'NEW' not in repr(fmt_groups([g]))]
        for v in zs.vals:
            cxv = Ctx(zs, occ=occ, world_atoms={'w': aw, 'NEW': z3.IntVal(CODE[v])}, node_world='w')
            if gw: alts.append(z3.And(occ[v], z3.Or(*[z3.And(*[_node_sat(zs, n, cxv) for n in g]) for g in gw])))
        for g in gn:
            alts.append(z3.And(*[_node_sat(zs, n, cx0) for n in g]))
        mk('forward', z3.Implies(lhs0, z3.Or(*alts) if alts else z3.BoolVal(False)), hy0, occl + [aw], dec)
        occ2 = {v: z3.Or(occ[v], vn == CODE[v]) for v in zs.vals}
        cx1 = Ctx(zs, occ=occ2, world_atoms={'w': aw, 'NEW': vn}, node_world='w')
        lhs1 = sat_node(zs, ev(sc.node_sentence, cx1, WorldTok('w')), d)
        parts = [z3.And(*[_node_sat(zs, n, cx1) for n in g]) for g in gw]
        # a group without the new world leaves the accessible family as it was
        parts0 = [z3.And(*[_node_sat(zs, n, cx0) for n in g]) for g in gn]
        goal = z3.And(z3.Implies(z3.Or(*parts) if parts else z3.BoolVal(False), lhs1),
                      z3.Implies(z3.Or(*parts0) if parts0 else z3.BoolVal(False), lhs0))
        mk('backward', goal, hy0 + [zs.dom(vn)], occl + [aw, vn], dec)
        return obs
    raise Outside(f'no exactness scheme for kind {sc.kind}')
