"""Structural contracts shared by C01/C02/C03/C16: AdzHelper._apply, FilterNodeCache listeners.
All interpreted from the real source over token models (nodes are opaque tokens, branches are recorded lists)."""
from __future__ import annotations
from pyvc import source
from pyvc.interp import Interp, explore, Outside, PyExc, SymVal, Contract, GenList
from pyvc.world import World
from pyvc.smt import Obligation, Result

class Tok(SymVal):
    def __init__(self, name): self.name = name
    def __repr__(self): return self.name
    def sym_is(self, it, o): return self is o
    def sym_truth(self, it): return True
    def sym_compare(self, it, op, o, reflected):
        if op == 'Eq': return self is o
        if op == 'NotEq': return self is not o
        raise Outside('ordering of tokens')

class BranchRec(SymVal):
    "a branch as a recorded node list + ticked set"
    def __init__(self, name, nodes=(), ticked=(), parent=None):
        self.name, self.nodes, self.ticked, self.parent = name, list(nodes), set(ticked), parent
        self.closed = False
    def __repr__(self): return self.name
    def sym_getattr(self, it, name):
        if name == 'extend':
            def extend(it, nodes):
                for n in it.iterate(nodes): self.nodes.append(n)
                return self
            return Contract(extend, 'Branch.extend')
        if name == 'append':
            def append(it, n): self.nodes.append(n); return self
            return Contract(append, 'Branch.append')
        if name == 'tick':
            def tick(it, n): self.ticked.add(n); return self
            return Contract(tick, 'Branch.tick')
        if name == 'is_ticked':
            return Contract(lambda it, n: n in self.ticked, 'Branch.is_ticked')
        if name == 'parent': return self.parent
        raise Outside(f'Branch.{name}')
    def sym_truth(self, it): return True
    def sym_is(self, it, o): return self is o

class NodeTok(Tok):
    "a node token with the per-node tick mark Branch.tick leaves on the node object"
    def __init__(self, name, ticked): super().__init__(name); self.ticked = ticked
    def sym_getattr(self, it, name):
        if name == 'ticked': return self.ticked
        raise Outside(f'Node.{name}')

class HelperCaches:
    """rule[HelperClass][branch] for the branch caches of a rule (FilterHelper and friends): every cache holds the old nodes of the target
    branch; a branch made by Tableau.branch(parent) starts with a copy of its parent's entry (BranchCache listener contract)"""
    def __init__(self, target, old): self.target, self.old, self.by_helper = target, list(old), {}
    def cache(self, helpercls):
        from checks.helpers_ob import LSet
        outer = self
        if helpercls not in self.by_helper:
            class Cache(SymVal):
                def __init__(s): s.d = {}
                def sym_getitem(s, it, b):
                    if id(b) not in s.d:
                        if b is outer.target or getattr(b, 'parent', None) is not None: s.d[id(b)] = (b, LSet(outer.old))
                        else: raise PyExc(KeyError, (b,))
                    return s.d[id(b)][1]
                def sym_contains(s, it, b): return True
                def sym_getattr(s, it, n):
                    if n == 'get': return Contract(lambda it, b, d=None: s.sym_getitem(it, b), 'dict.get')
                    raise Outside(f'helper cache .{n}')
            self.by_helper[helpercls] = Cache()
        return self.by_helper[helpercls]
    def changed(self):
        out = []
        for h, c in self.by_helper.items():
            for b, st in c.d.values():
                if set(st) != set(self.old): out.append(f'_apply changed {getattr(h, "__name__", h)}[{b!r}]: {sorted(map(repr, st))}, the listeners had put {sorted(map(repr, self.old))} there')
        return out

class RuleRec(SymVal):
    def __init__(self, caches, **kw): self.caches, self.kw = caches, kw
    def sym_getattr(self, it, name):
        if name in self.kw: return self.kw[name]
        if name == 'helpers': return self
        raise Outside(f'rule.{name}')
    def sym_getitem(self, it, helpercls): return self.caches.cache(helpercls)
    def sym_truth(self, it): return True

class TabRec(SymVal):
    def __init__(self): self.branches = []
    def sym_getattr(self, it, name):
        if name == 'branch':
            def branch(it, parent=None):
                # contract of Tableau.branch(parent): a copy of the parent *as it is now*, added to the tableau
                b = BranchRec(f'copy{len(self.branches)}', parent.nodes if parent else (), parent.ticked if parent else (), parent)
                self.branches.append(b)
                return b
            return Contract(branch, 'Tableau.branch')
        raise Outside(f'Tableau.{name}')

class Holder(SymVal):
    def __init__(self, **kw): self.kw = kw
    def sym_getattr(self, it, name):
        if name in self.kw: return self.kw[name]
        if self.kw.get('_cls') is not None:          # the record stands for an instance of a real class: follow its private helpers
            from pyvc.interp import private_helper
            ok, v = private_helper(it, self.kw['_cls'], name, self)
            if ok: return v
        raise Outside(f'attribute {name}')
    def sym_getitem(self, it, k):
        if k in self.kw: return self.kw[k]
        raise PyExc(KeyError, (k,))

def adz_apply_obligations(ctx, prefix):
    tableau_branch_obligation(ctx, prefix)
    if prefix != 'C06':
        # ... and what that copy is (Branch.copy: same nodes, ticks, index, constants, worlds in objects of its own): C06's obligations, re-stated
        from checks import c06
        c06.copy_obligations(ctx, f'{prefix}.fork')
        ctx.replayers.setdefault(f'{prefix}.fork.copy', c06.replay_history)
    from pytableaux.proof import helpers as H
    fi = source.get('pytableaux/proof/helpers.py', 'AdzHelper._apply')
    where = ctx.under_contract(fi)
    func = H.AdzHelper.__dict__['_apply']
    bad = []
    cases = 0
    for ticking in (True, False):
        for k in (1, 2, 3, 4):
            for size in (1, 2):
                cases += 1
                groups = tuple(tuple(Tok(f'n{i}_{j}') for j in range(size)) for i in range(k))
                # nodes already on the branch; o2 carries the per-NODE tick mark (it was ticked on some branch -- not necessarily on this one)
                old = [NodeTok('o1', False), NodeTok('o2', True)]
                node = old[0]
                tb = BranchRec('target', old)
                tab = TabRec()
                tgt = Holder(adds=groups, branch=tb, node=node)
                caches = HelperCaches(tb, old)
                selfm = Holder(tableau=tab, rule=RuleRec(caches, ticking=ticking, tableau=tab), _cls=H.AdzHelper)      # Rule.Helper.tableau is rule.tableau
                def run(path):
                    from checks.helpers_ob import helper_world
                    it = Interp(path, helper_world())
                    return it.call_source(fi, func, H.AdzHelper, [selfm, tgt], {})
                try:
                    prs = explore(run)
                except Outside as e:
                    ctx.add_result(Result(f'{prefix}.AdzHelper._apply.extends', 'unknown', detail=f'outside subset: {e}', where=where)); return
                if len(prs) != 1 or prs[0].kind != 'return': bad.append(f'ticking={ticking} k={k}: paths={[(p.kind) for p in prs]}'); continue
                want0 = old + list(groups[0])
                if tb.nodes != want0: bad.append(f'k={k}: target branch nodes {tb.nodes} != {want0}')
                if len(tab.branches) != k - 1: bad.append(f'k={k}: {len(tab.branches)} new branches')
                for i, b in enumerate(tab.branches, 1):
                    if b.nodes != old + list(groups[i]): bad.append(f'k={k}: branch {i} nodes {b.nodes} != old + adds[{i}]')
                    if b.parent is not tb: bad.append(f'k={k}: branch {i} is not a copy of target.branch')
                    if ticking != (node in b.ticked): bad.append(f'ticking={ticking}: node ticked on branch {i}: {node in b.ticked}')
                if ticking != (node in tb.ticked): bad.append(f'ticking={ticking}: node ticked on target branch: {node in tb.ticked}')
                # frame: the rule's helper caches are kept by the branch listeners -- _apply itself takes nothing out of them
                for why in caches.changed(): bad.append(f'k={k}: {why}')
    ctx.add(Obligation(f'{prefix}.AdzHelper._apply.extends', not bad, kind='enum', where=where,
                       meta=dict(clause='after _apply: target.branch = old + adds[0]; one copy of the OLD target.branch + adds[i] per i >= 1; the node is ticked on all of them iff rule.ticking; nothing else changes',
                                 cases=cases, cex=dict(bad=bad[:5]))))


def tableau_branch_obligation(ctx, prefix):
    """the contract AdzHelper._apply is checked against: Tableau.branch(parent) returns parent.copy(parent=parent) (a fresh Branch() without
    a parent), after announcing it once through Tableau.add, which emits the tableau's first event (AFTER_BRANCH_ADD) with the branch"""
    from pytableaux.proof import tableaux as T, common as C
    fnb = T.Tableau.__dict__['branch']; fib = source.of_function(fnb); where = ctx.under_contract(fib)
    fna = T.Tableau.__dict__['add']; fia = source.of_function(fna); ctx.under_contract(fia)
    bad = []
    try:
        for has_parent in (True, False):
            emitted = []; copies = []; fresh = []
            class Par(SymVal):
                def sym_getattr(s, it, n):
                    if n == 'copy':
                        def copy(it, **kw): c = Tok('copy'); copies.append((c, dict(kw))); return c
                        return Contract(copy, 'Branch.copy')
                    raise Outside(f'Branch.{n}')
                def sym_is(s, it, o): return s is o
                def sym_truth(s, it): return True
            par = Par()
            class Tab(SymVal):
                def sym_getattr(s, it, n):
                    if n == 'add': return Contract(lambda it, b: it.call_source(fia, fna, T.Tableau, [s, b], {}), 'Tableau.add')
                    if n == 'emit': return Contract(lambda it, ev, *a: emitted.append((ev, a)), 'EventEmitter.emit')
                    if n == 'events': return GenList(['FIRST-EVENT', 'SECOND-EVENT'])
                    raise Outside(f'Tableau.{n}')
            w = World()
            w.contract(C.Branch, lambda it, *a: (fresh.append(a), Tok('new-branch'))[1], name='Branch()')
            it = Interp(__import__('pyvc.interp', fromlist=['Path']).Path([]), w)
            r = it.call_source(fib, fnb, T.Tableau, [Tab()] + ([par] if has_parent else []), {})
            if has_parent:
                if len(copies) != 1 or copies[0][1] != dict(parent=par) or r is not copies[0][0] or fresh: bad.append(f'branch(parent): copies {copies}, result {r}')
            else:
                if fresh != [()] or copies or getattr(r, 'name', None) != 'new-branch': bad.append(f'branch(): {fresh}, {r}')
            if emitted != [('FIRST-EVENT', (r,))]: bad.append(f'has_parent={has_parent}: announced {emitted}')
        ctx.add(Obligation(f'{prefix}.Tableau.branch.copy-of-parent-announced-once', not bad, kind='enum', where=where,
                           meta=dict(clause='branch(parent) = parent.copy(parent=parent) (Branch() when there is no parent), announced exactly once by emitting the tableau\'s first event with it, and returned', cex=dict(bad=bad) if bad else None)))
    except Outside as e:
        ctx.add_result(Result(f'{prefix}.Tableau.branch.copy-of-parent-announced-once', 'unknown', detail=f'outside subset: {e}', where=where))
