"""Selection code is choice-only (C02 (S) clause / C09): Rule.target, Rule._extend_targets,
Rule._select_best_target, Tableau.next, Tableau._get_group_application, Tableau._select_optim_group_application
are interpreted from source for both values of is_rank_optim / is_group_optim with symbolic scores."""
from __future__ import annotations
import itertools
import z3
from pyvc import source
from pyvc.interp import Interp, explore, Outside, PyExc, SymVal, Contract, GenList, LocalList
from pyvc.world import World
from pyvc.smt import Obligation, Result
from contracts.tableau import Timer
from checks.structs import Tok, Holder

FILE = 'pytableaux/proof/tableaux.py'

class TargetObj(SymVal):
    "a Target (dict with attribute access)"
    def __init__(self, name, **kw): self.name, self.d, self.attrs = name, dict(kw), {}
    def __repr__(self): return self.name
    def sym_getitem(self, it, k):
        if k in self.d: return self.d[k]
        raise PyExc(KeyError, (k,))
    def sym_setitem(self, it, k, v): self.d[k] = v
    def sym_getattr(self, it, name):
        if name == 'update':
            def update(it, *a, **kw):
                for x in a:
                    if isinstance(x, dict): self.d.update(x)
                    else: raise Outside('Target.update(<non-dict>)')
                self.d.update(kw)
            return Contract(update, 'Target.update')
        if name == 'get': return Contract(lambda it, k, d=None: self.d.get(k, d), 'Target.get')
        if name in self.attrs: return self.attrs[name]
        if name in self.d: return self.d[name]
        raise PyExc(AttributeError, (name,))
    def sym_setattr(self, it, name, v): self.attrs[name] = v
    def sym_truth(self, it): return True
    def sym_is(self, it, o): return self is o
    def sym_isinstance(self, it, cls):
        from collections.abc import Sequence
        return False if cls is Sequence else True

class DequeVal(LocalList):
    maxlen = None
def _deque(it, xs=(), maxlen=None):
    d = DequeVal(it.iterate(xs)); d.maxlen = maxlen
    if maxlen is not None and is_concrete(maxlen):
        while len(d) > maxlen: d.pop(0)
    return d
def is_concrete(x): return isinstance(x, int)

def sel_world():
    from collections import deque
    from pytableaux.proof import Tableau, common as C
    from pytableaux.tools.timing import Counter
    w = World()
    w.transparent.append(lambda cm: isinstance(cm, Timer))
    w.builtin_models[deque] = _deque
    w.builtin_models[Counter] = lambda it, *a: 'counter'
    w.builtin_models[Tableau.StepEntry] = lambda it, rule, target, dur: EntryObj(rule, target)
    orig = w.call_builtin_method
    def cbm(it, f, args, kw):
        obj = f.__self__
        if isinstance(obj, DequeVal) and f.__name__ == 'append':
            list.append(obj, args[0])
            if obj.maxlen is not None and len(obj) > obj.maxlen: obj.pop(0)
            return None
        return orig(it, f, args, kw)
    w.call_builtin_method = cbm
    return w

class EntryObj(SymVal):
    def __init__(self, rule, target): self.rule, self.target = rule, target
    def sym_getattr(self, it, name):
        if name == 'rule': return self.rule
        if name == 'target': return self.target
        raise Outside(f'StepEntry.{name}')
    def sym_truth(self, it): return True
    def sym_is(self, it, o): return self is o

# ------------------------------------------------------------------ Rule.target

class RuleSel(SymVal):
    "`self` of Rule.target/_extend_targets/_select_best_target with k pre-made targets and symbolic scores"
    def __init__(self, k, rank, as_sequence=False):
        from pytableaux.proof import Rule
        self.cls = Rule
        self.k, self.rank = k, rank
        self.targets = [TargetObj(f't{i}') for i in range(k)]
        self.scores = [z3.Real(f'score{i}') for i in range(k)]
        self.as_sequence = as_sequence
        self.inlined = {}
    def sym_getattr(self, it, name):
        if name == 'timers': return {'search': Timer(), 'apply': Timer()}
        if name == 'opts': return {'is_rank_optim': self.rank}
        if name == '_get_targets':
            return Contract(lambda it, br: (LocalList(self.targets) if self.as_sequence else GenList(self.targets)), 'Rule._get_targets')
        if name == 'score_candidate':
            return Contract(lambda it, t: self.scores[self.targets.index(t)], 'Rule.score_candidate')
        if name in ('target', '_extend_targets', '_select_best_target'):
            v = self.cls.__dict__[name]
            fi = source.of_function(v); self.inlined[fi.key] = fi
            from pyvc.interp import BoundSource
            return BoundSource(fi, v, self.cls, self)
        from pyvc.interp import private_helper
        ok_, v_ = private_helper(it, self.cls, name, self, self.inlined)
        if ok_: return v_
        raise Outside(f'Rule.{name}')
    def sym_truth(self, it): return True
    def sym_is(self, it, o): return self is o

def rule_target_obligations(ctx, prefix):
    register_replayers(ctx, prefix)
    from pytableaux.proof import Rule
    from collections.abc import Sequence
    fi = source.of_function(Rule.__dict__['target'])
    where = ctx.under_contract(fi)
    world = sel_world()
    # GenList must not count as a Sequence (a generator is not), LocalList must (deque/list are)
    orig_isinstance = world.builtin_models[isinstance]
    def isinst(it, x, cls):
        if cls is Sequence:
            if isinstance(x, GenList): return False
            if isinstance(x, LocalList): return True
        return orig_isinstance(it, x, cls)
    world.builtin_models[isinstance] = isinst
    bad = []; smt = []
    for rank in (True, False):
        for k in (0, 1, 2, 3):
            for as_seq in (False, True):
                holder = []
                def run(path):
                    it = Interp(path, world)
                    r = RuleSel(k, rank, as_seq); holder.append(r)
                    return it.call(r.sym_getattr(it, 'target'), [Tok('branch')], {}), r
                try:
                    prs = explore(run)
                except Outside as e:
                    ctx.add_result(Result(f'{prefix}.Rule.target.choice-only', 'unknown', detail=f'outside subset: {e}', where=where)); return
                for pr in prs:
                    if pr.kind == 'raise':
                        bad.append(f'rank={rank} k={k}: raises {pr.value.cls.__name__}'); continue
                    if pr.kind != 'return': continue
                    res, r = pr.value
                    for f2 in r.inlined.values(): ctx.under_contract(f2)
                    if k == 0:
                        if res is not None: bad.append(f'k=0 returns {res}')
                        continue
                    if res is None or not any(res is t for t in r.targets):
                        bad.append(f'rank={rank} k={k}: returns {res!r}, not one of the offered targets'); continue
                    i = [j for j, t in enumerate(r.targets) if t is res][0]
                    if rank:
                        smt.append(z3.Implies(pr.pc, z3.And(*[r.scores[i] >= s for s in r.scores])))
                    # augmentation keys
                    for t in [res]:
                        want = {'rule', 'is_rank_optim', 'total_candidates', 'candidate_score', 'min_candidate_score', 'max_candidate_score'}
                        if not want <= set(t.d): bad.append(f'missing keys {want - set(t.d)}')
                        if rank is False and t.d.get('candidate_score') is not None: bad.append('candidate_score not None with rank optimisation off')
                        if rank is True and t.d.get('candidate_score') is None: bad.append('candidate_score None with rank optimisation on')
    ctx.add(Obligation(f'{prefix}.Rule.target.choice-only', z3.And(z3.BoolVal(not bad), *smt), where=where,
                       meta=dict(clause='Rule.target returns None iff the rule offers no target, else one of the offered targets (a maximal-score one under rank optimisation); '
                                        'candidate_score is None iff rank optimisation is off; never raises', bad=bad[:4])))

# ------------------------------------------------------------------ Tableau.next / group application

class TabSel(SymVal):
    def __init__(self, n_branches, group_sizes, group_optim):
        from pytableaux.proof import Tableau
        self.cls = Tableau
        self.branches = [Tok(f'b{i}') for i in range(n_branches)]
        self.groups = [LocalList(RuleChoice(f'r{g}_{j}') for j in range(sz)) for g, sz in enumerate(group_sizes)]
        self.group_optim = group_optim
        self.inlined = {}
        self.offers = {}
    def sym_getattr(self, it, name):
        if name == 'open': return LocalList(self.branches)
        if name == 'rules': return Holder(groups=LocalList(self.groups))
        if name == 'opts': return {'is_group_optim': self.group_optim}
        if name in ('next', '_get_group_application', '_select_optim_group_application'):
            v = self.cls.__dict__[name]
            fi = source.of_function(v); self.inlined[fi.key] = fi
            from pyvc.interp import BoundSource
            return BoundSource(fi, v, self.cls, self)
        from pyvc.interp import private_helper
        ok_, v_ = private_helper(it, self.cls, name, self, self.inlined)
        if ok_: return v_
        raise Outside(f'Tableau.{name}')
    def sym_truth(self, it): return True

class RuleChoice(SymVal):
    def __init__(self, name): self.name = name; self.offered = {}; self.score = {}
    def __repr__(self): return self.name
    def sym_getattr(self, it, name):
        if name == 'target':
            def target(it, branch):
                if it.fork(z3.Bool(f'offers.{self.name}.{branch.name}')):
                    t = TargetObj(f'T({self.name},{branch.name})', branch=branch, rule=self)
                    self.offered[branch.name] = t
                    return t
                self.offered[branch.name] = None
                return None
            return Contract(target, 'Rule.target')
        if name == 'group_score':
            def gs(it, target):
                s = z3.Real(f'gscore.{target.name}')
                self.score[target.name] = s
                return s
            return Contract(gs, 'Rule.group_score')
        raise Outside(f'Rule.{name}')
    def sym_truth(self, it): return True
    def sym_is(self, it, o): return self is o
    def sym_compare(self, it, op, o, reflected):
        if op == 'Eq': return self is o
        if op == 'NotEq': return self is not o
        raise Outside('ordering of rules')

def next_obligations(ctx, prefix):
    register_replayers(ctx, prefix)
    from pytableaux.proof import Tableau
    fi = source.of_function(Tableau.__dict__['next'])
    where = ctx.under_contract(fi)
    world = sel_world()
    bad = []; smt = []; npaths = 0
    for optim in (True, False):
        for nb, sizes in ((1, (2,)), (2, (1, 2)), (2, (2, 1)), (1, (0, 1)), (0, (1,))):
            def run(path):
                it = Interp(path, world)
                t = TabSel(nb, sizes, optim)
                return it.call(t.sym_getattr(it, 'next'), [], {}), t
            try:
                prs = explore(run)
            except Outside as e:
                ctx.add_result(Result(f'{prefix}.Tableau.next.choice-only', 'unknown', detail=f'outside subset: {e}', where=where)); return
            for pr in prs:
                npaths += 1
                if pr.kind == 'raise': bad.append(f'optim={optim} {nb}x{sizes}: raises {pr.value.cls.__name__}'); continue
                if pr.kind != 'return': continue
                res, t = pr.value
                for f2 in t.inlined.values(): ctx.under_contract(f2)
                # what was offered, in search order (branches outer, groups inner, rules in group order)
                first = None
                for b in t.branches:
                    for g in t.groups:
                        offers = [(r, r.offered.get(b.name)) for r in g if r.offered.get(b.name) is not None]
                        asked = [r for r in g if b.name in r.offered]
                        if offers and first is None: first = (b, g, offers)
                    if first: break
                anything = first is not None
                if res is None:
                    # None only if every rule that exists was asked on every open branch and none offered
                    if anything: bad.append(f'optim={optim} {nb}x{sizes}: returns None although {first[2][0][1]!r} was offered')
                    for b in t.branches:
                        for g in t.groups:
                            for r in g:
                                if b.name not in r.offered: bad.append(f'optim={optim}: returns None without asking {r!r} on {b!r}')
                    continue
                if not isinstance(res, EntryObj): bad.append(f'returns {res!r}'); continue
                if not anything: bad.append('returns an entry although nothing was offered'); continue
                b, g, offers = first
                if not any(res.target is tt and res.rule is rr for rr, tt in offers):
                    bad.append(f'optim={optim}: entry ({res.rule!r},{res.target!r}) is not an offer of the first branch/group with offers'); continue
                if not optim:
                    if res.target is not offers[0][1]: bad.append('without group optimisation the first offer of the group must win')
                    if res.target.d.get('is_group_optim') is not False: bad.append('is_group_optim key')
                else:
                    # all rules of that group were asked, and the winner has a maximal group score
                    for r in g:
                        if b.name not in r.offered: bad.append(f'group optimisation: {r!r} not asked')
                    sc = [rr.score.get(tt.name) for rr, tt in offers]
                    if any(s is None for s in sc): bad.append('group_score not computed for every offer'); continue
                    win = res.rule.score[res.target.name]
                    smt.append(z3.Implies(pr.pc, z3.And(*[win >= s for s in sc])))
    ctx.add(Obligation(f'{prefix}.Tableau.next.choice-only', z3.And(z3.BoolVal(not bad), *smt), where=where,
                       meta=dict(clause='next() returns None only when every rule of every group was asked on every open branch and offered nothing; otherwise it returns an offered '
                                        '(rule, target) of the first open branch / first group with an offer (the first offer without group optimisation, a maximal-score one with it); never raises',
                                 paths=npaths, bad=bad[:4])))


def replay_selection(r):
    "valid propositional arguments under the four option combinations, built at once and step by step"
    from pytableaux.lang import Argument
    from pytableaux.proof import Tableau
    out = []
    for L in ('CPL', 'K3', 'FDE', 'S4'):
        for a in ('a:a', 'a:Kab', 'b:a:Cab', 'Aab:a'):
            for g in (True, False):
                for k in (True, False):
                    try:
                        t = Tableau(L, Argument(a), is_group_optim=g, is_rank_optim=k).build()
                        t2 = Tableau(L, Argument(a), is_group_optim=g, is_rank_optim=k)
                        while t2.step(): pass
                    except Exception as e:
                        out.append(f'{L} {a} group={g} rank={k}: {type(e).__name__}'); continue
                    if not (t.valid and t2.valid): out.append(f'{L} {a} group={g} rank={k}: valid={t.valid} (build) / {t2.valid} (steps), history {len(t.history)}')
    return dict(reproduced=bool(out), detail='; '.join(out[:3]) or 'the sample arguments are proved under every option combination')

def register_replayers(ctx, prefix):
    for nm in ('Rule.target', 'Rule._extend_targets', 'Rule._select_best_target', 'Tableau.next', 'Tableau._get_group_application', 'Tableau._select_optim_group_application'):
        ctx.replayers.setdefault(f'{prefix}.{nm}', replay_selection)
