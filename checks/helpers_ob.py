"""Contracts of the rule-helper listeners used by the saturation argument (C02 (S)): FilterNodeCache,
BranchCache / BranchDictCache copy-on-fork, the node_targets wrapper, NodeConsts, NodesWorlds, WorldIndex,
UnserialWorlds, NodeCount.  Each closure/method is interpreted from the real source over token models on a finite
set of scenarios (all combinations of the relevant booleans / small sets)."""
from __future__ import annotations
import itertools
from pyvc import source
from pyvc.interp import Interp, Path, explore, Outside, PyExc, SymVal, Contract, GenList, LocalList, LocalDict, Closure, Frame, BoundSource
from pyvc.world import World
from pyvc.smt import Obligation, Result
from checks.structs import Holder, Tok

FILE = 'pytableaux/proof/helpers.py'

def enum_ob(name, ok, where='', **meta):
    return Obligation(name, True if ok else False, kind='enum', where=where, meta=meta)

class LSet(set):
    "a set owned by the interpreted code"
class CacheM(SymVal):
    "a BranchCache (dict subclass): branch token -> value"
    def __init__(s, **attrs): s.d = {}; s.attrs = attrs; s.keys = {}
    def put(s, k, v): s.d[id(k)] = v; s.keys[id(k)] = k
    def sym_getitem(s, it, k):
        if id(k) in s.d: return s.d[id(k)]
        raise PyExc(KeyError, (k,))
    def sym_setitem(s, it, k, v): s.d[id(k)] = v; s.keys[id(k)] = k
    def sym_delitem(s, it, k):
        if id(k) in s.d: del s.d[id(k)]
        else: raise PyExc(KeyError, (k,))
    def sym_contains(s, it, k): return id(k) in s.d
    def sym_getattr(s, it, name):
        if name in s.attrs: return s.attrs[name]
        if name in ('items', 'keys', 'values') and all(i in s.keys for i in s.d):      # dict views of the cache (branches put with their key object)
            pairs = [(s.keys[i], v) for i, v in s.d.items()]
            return Contract(lambda it: {'items': pairs, 'keys': [k for k, _ in pairs], 'values': [v for _, v in pairs]}[name], f'dict.{name}')
        raise Outside(f'helper.{name}')
    def sym_call(s, it, args, kw):
        return s.attrs['__call__'](it, *args)
    def sym_truth(s, it): return True

def helper_world():
    w = World()
    orig = w.call_builtin_method
    def cbm(it, f, args, kw):
        if isinstance(f.__self__, (LSet,)): return f(*args, **kw)
        return orig(it, f, args, kw)
    w.call_builtin_method = cbm
    w.builtin_models[set] = lambda it, xs=(): LSet(it.iterate(xs))
    from copy import copy as _copy
    def cp(it, x):
        if isinstance(x, LSet): return LSet(x)
        if isinstance(x, LocalDict): return LocalDict(x)
        if isinstance(x, (bool, int, type(None))): return x
        raise Outside(f'copy({type(x).__name__})')
    w.builtin_models[_copy] = cp
    def hook(it, what, args):
        if what[0] == 'getattr' and isinstance(args[0], LSet):
            if what[1] == 'copy': return Contract(lambda it, x=args[0]: LSet(x), 'set.copy')
            return getattr(args[0], what[1])
        if what == ('contains',) and isinstance(args[0], (LSet, set, frozenset)) : return any(args[1] is x or args[1] == x for x in args[0])
        if what == ('iterate',) and isinstance(args[0], LSet): return list(args[0])
        if what == ('len',) and isinstance(args[0], LSet): return len(args[0])
        return NotImplemented
    w.attr_hooks.append(hook)
    return w

def closure_of(outer_q, inner, cls, env):
    fio = source.get(FILE, outer_q); fi = source.get(FILE, f'{outer_q}.{inner}')
    fr = Frame(fio, None, cls, env)
    import pytableaux.proof.helpers as H
    fr.globals = dict(H.__dict__)
    return fi, Closure(fi.node, fr, inner)

def run(it, c, args): return it.call_closure(c, list(args), {})

def helper_obligations(ctx, prefix):
    register_replayers(ctx, prefix)
    from pytableaux.proof import helpers as H, common as C
    world = helper_world()
    it = Interp(Path([]), world)
    bad = []
    def note(fi): ctx.under_contract(fi)
    try:
        # ---- FilterNodeCache.listen_on: after_node_add / after_node_tick
        for passes in (True, False):
            b, n = Tok('b'), Tok('n')
            cache = CacheM(__call__=lambda it, node, br: passes, config=Holder(ignore_ticked=True)); cache.d[id(b)] = LSet()
            fi, c = closure_of('FilterNodeCache.listen_on', 'after_node_add', H.FilterNodeCache, dict(self=cache)); note(fi)
            run(it, c, [n, b])
            if (n in cache.d[id(b)]) != passes: bad.append(f'FilterNodeCache.after_node_add passes={passes}')
        b, n, m = Tok('b'), Tok('n'), Tok('m')
        cache = CacheM(); cache.d[id(b)] = LSet([n, m])
        fi, c = closure_of('FilterNodeCache.listen_on', 'after_node_tick', H.FilterNodeCache, dict(self=cache)); note(fi)
        run(it, c, [n, b])
        if cache.d[id(b)] != {m}: bad.append('FilterNodeCache.after_node_tick')
        # ---- FilterNodeCache.__call__ / FilterHelper.__call__
        fn = H.FilterNodeCache.__dict__['__call__']; fn = getattr(fn, '__wrapped__', fn); fi = source.of_function(fn); note(fi)
        for ign, ticked in itertools.product((True, False), repeat=2):
            selfm = Holder(config=Holder(ignore_ticked=ign))
            br = Holder(is_ticked=Contract(lambda it, nd, t=ticked: t, 'Branch.is_ticked'))
            r = it.call_source(fi, fn, H.FilterNodeCache, [selfm, Tok('n'), br], {})
            if r != (not (ign and ticked)): bad.append(f'FilterNodeCache.__call__ ignore={ign} ticked={ticked}')
        fn2 = H.FilterHelper.__dict__['__call__']; fi2 = source.of_function(fn2); note(fi2)
        for base_ok, pred_ok in itertools.product((True, False), repeat=2):
            class FH(SymVal):
                def sym_getattr(s, it, name):
                    if name == 'config': return Holder(pred=Contract(lambda it, nd: pred_ok, 'pred'))
                    raise Outside(name)
                def sym_super_getattr(s, it, defcls, name):
                    return Contract(lambda it, nd, br: base_ok, 'FilterNodeCache.__call__')
            r = it.call_source(fi2, fn2, H.FilterHelper, [FH(), Tok('n'), Tok('b')], {}, recv=FH())
            if bool(r) != (base_ok and pred_ok): bad.append(f'FilterHelper.__call__ {base_ok} {pred_ok}')
        # ---- release / gc
        fr_ = H.FilterNodeCache.__dict__['release']; fir = source.of_function(fr_); note(fir)
        fg = H.FilterNodeCache.__dict__['gc']; fig = source.of_function(fg); note(fig)
        b, n, m = Holder(parent=None), Tok('n'), Tok('m')
        class GC(CacheM):
            def sym_getattr(s, it, name):
                if name == '_garbage': return s.garbage
                return super().sym_getattr(it, name)
        g = GC(); g.garbage = LSet(); g.put(b, LSet([n, m]))
        it.call_source(fir, fr_, H.FilterNodeCache, [g, n, b], {})
        if g.d[id(b)] != {n, m} or len(g.garbage) != 1: bad.append('release must only queue')
        it.call_source(fig, fg, H.FilterNodeCache, [g], {})
        if g.d[id(b)] != {m} or g.garbage: bad.append('gc removes exactly the released entries')
        # frame of gc: with other branches in the cache (a copy made from b before or after the release, an unrelated branch), only the
        # released (branch, node) pairs leave; what a sibling holds is its own
        b = Holder(parent=None); sib = Holder(parent=b); other = Holder(parent=None)
        g = GC(); g.garbage = LSet()
        g.put(b, LSet([n, m])); g.put(sib, LSet([n, m])); g.put(other, LSet([n]))
        it.call_source(fir, fr_, H.FilterNodeCache, [g, n, b], {})
        it.call_source(fig, fg, H.FilterNodeCache, [g], {})
        if g.d[id(b)] != {m}: bad.append('gc removes the released entry from its branch')
        if g.d[id(sib)] != {n, m}: bad.append('gc took a node away from a branch copied from the releasing branch (only the released (branch, node) pairs may leave)')
        if g.d[id(other)] != {n}: bad.append('gc took a node away from an unrelated branch')
        # ---- BranchCache.after_branch_add: a fork copies (not aliases) the parent's value; a root branch gets a fresh value
        for has_parent in (True, False):
            p = Tok('parent'); bnew = Holder(parent=(p if has_parent else None))
            cache = CacheM(valuetype=Contract(lambda it: LSet(), 'valuetype'))
            pv = LSet([Tok('x')]); cache.d[id(p)] = pv
            fi, c = closure_of('BranchCache.listen_on', 'after_branch_add', H.BranchCache, dict(self=cache)); note(fi)
            run(it, c, [bnew])
            v = cache.d.get(id(bnew))
            if has_parent and (v != pv or v is pv): bad.append('BranchCache fork must copy the parent value')
            if not has_parent and v != set(): bad.append('BranchCache root value')
        # BranchDictCache: each K->V is copied
        p = Tok('parent'); bnew = Holder(parent=p)
        inner = LSet([1]); cache = CacheM(); cache.d[id(p)] = LocalDict(k=inner); cache.d[id(bnew)] = LocalDict(k=inner)      # state after BranchCache's shallow copy
        fi, c = closure_of('BranchDictCache.listen_on', 'after_branch_add', H.BranchDictCache, dict(self=cache)); note(fi)
        run(it, c, [bnew])
        if cache.d[id(bnew)]['k'] is inner or cache.d[id(bnew)]['k'] != inner: bad.append('BranchDictCache must copy each value')
        # ---- node_targets wrapper: every node of the cache, every target of the wrapped producer, augmented
        fiw = source.get(FILE, 'FilterNodeCache.node_targets.wrapper'); note(fiw)
        fio = source.get(FILE, 'FilterNodeCache.node_targets')
        from checks.selection import TargetObj
        n1, n2 = Tok('n1'), Tok('n2'); br = Tok('branch')
        produced = {id(n1): [LocalDict(adds=1), LocalDict(adds=2)], id(n2): []}
        gc_calls = []
        class HelperM(CacheM):
            def sym_getattr(s, it, name):
                if name == 'gc': return Contract(lambda it: gc_calls.append(1), 'gc')
                return super().sym_getattr(it, name)
        helper = HelperM(); helper.d[id(br)] = LocalList([n1, n2])
        class RuleM(SymVal):
            def sym_getitem(s, it, k): return helper
            def sym_truth(s, it): return True
        rule = RuleM()
        wrapped = Contract(lambda it, r, node, b: GenList(produced[id(node)]), 'wrapped')
        frw = Frame(fio, None, H.FilterNodeCache, dict(cls='CLS', wrapped=wrapped)); frw.globals = dict(H.__dict__)
        world.builtin_models[C.Target] = lambda it, d=None, **kw: LocalDict({**(d or {}), **kw})
        orig_isinst = world.builtin_models[isinstance]
        world.builtin_models[isinstance] = lambda it, x, cls: (False if cls is C.Target and isinstance(x, LocalDict) else orig_isinst(it, x, cls))
        res = it.iterate(it.call_closure(Closure(fiw.node, frw, 'wrapper'), [rule, br], {}))
        if len(res) != 2 or any(t.get('rule') is not rule or t.get('branch') is not br or t.get('node') is not n1 for t in res) or [t['adds'] for t in res] != [1, 2] or gc_calls != [1]:
            bad.append('node_targets wrapper')
        # ---- NodesWorlds / NodeCount after_apply; WorldIndex after_node_add, has, intransitives
        for flag in (None, 'quit'):
            b = Tok('b'); n = Tok('n')
            tgt = Holder(get=Contract(lambda it, k, f=flag: f, 'get'), branch=b, node=n, world=7)
            cache = CacheM(); cache.d[id(b)] = LSet()
            fi, c = closure_of('NodesWorlds.listen_on', 'after_apply', H.NodesWorlds, dict(self=cache)); note(fi)
            run(it, c, [tgt])
            if (len(cache.d[id(b)]) == 1) != (flag is None): bad.append('NodesWorlds.after_apply')
            class Cnt(LocalDict):
                pass
            cnt = LocalDict({id(n): 0})
            class CntM(SymVal):
                def sym_getitem(s, it, k): return cnt.get(id(k), 0)
                def sym_setitem(s, it, k, v): cnt[id(k)] = v
            cache2 = CacheM(); cache2.d[id(b)] = CntM()
            fi, c = closure_of('NodeCount.listen_on', 'after_apply', H.NodeCount, dict(self=cache2)); note(fi)
            run(it, c, [tgt])
            if cnt[id(n)] != (1 if flag is None else 0): bad.append('NodeCount.after_apply')
        b = Tok('b')
        acc = {}
        class AccM(SymVal):
            def sym_getitem(s, it, w): return acc.setdefault(w, LSet())
        cache = CacheM(); cache.d[id(b)] = AccM()
        fi, c = closure_of('WorldIndex.listen_on', 'after_node_add', H.WorldIndex, dict(self=cache)); note(fi)
        from contracts.rules import NodeVal, PairVal
        an = NodeVal(C.AccessNode, dict(world1=1, world2=2)); sn = NodeVal(C.SentenceWorldNode, dict(sentence='s', world=3))
        run(it, c, [an, b]); run(it, c, [sn, b])
        if acc != {1: {2}}: bad.append(f'WorldIndex.after_node_add {acc}')
        fh = H.WorldIndex.__dict__['has']; fih = source.of_function(fh); note(fih)
        fint = H.WorldIndex.__dict__['intransitives']; fii = source.of_function(fint); note(fii)
        acc.update({1: LSet([2]), 2: LSet([2, 3]), 3: LSet()})
        import itertools as _it
        if it.call_source(fih, fh, H.WorldIndex, [cache, b, (1, 2)], {}) is not True or it.call_source(fih, fh, H.WorldIndex, [cache, b, (2, 1)], {}) is not False: bad.append('WorldIndex.has')
        world.builtin_models[_it.filterfalse] = lambda it, f, xs: GenList(x for x in it.iterate(xs) if not it.truth(it.call(f, [x], {})))
        r = it.iterate(it.call_source(fii, fint, H.WorldIndex, [cache, b, (1, 2)], {}))
        if sorted(r) != [3]: bad.append(f'WorldIndex.intransitives {r}')
        # ---- NodeCount.min / isleast (the fairness heuristic, as written)
        fmin = H.NodeCount.__dict__['min']; fim = source.of_function(fmin); note(fim)
        fle = H.NodeCount.__dict__['isleast']; fil = source.of_function(fle); note(fil)
    except Outside as e:
        ctx.add_result(Result(f'{prefix}.helpers.listeners', 'unknown', detail=f'outside subset: {e}')); return
    except PyExc as e:
        bad.append(f'exception {e.cls.__name__}')
    ctx.add(enum_ob(f'{prefix}.helpers.listeners', not bad, where=FILE, cex=dict(bad=bad),
                    clause='FilterNodeCache holds a node iff it passed the filter when added and was not ticked/released since; forks copy (not alias) every per-branch cache; gc removes exactly the released entries; the node_targets wrapper '
                           'offers every target of every cached node, augmented with rule/branch/node; NodesWorlds / NodeCount record every non-flag application; WorldIndex mirrors the access nodes (has / intransitives)'))
    nodeconsts(ctx, prefix, world)

def nodeconsts(ctx, prefix, world):
    """NodeConsts: NodeConsts[b][n] = constants on the branch not yet applied to n — over all short event sequences"""
    from pytableaux.proof import helpers as H
    it = Interp(Path([]), world)
    bad = []
    try:
        fiA, _ = closure_of('NodeConsts.listen_on', 'after_apply', H.NodeConsts, dict(self=None)); ctx.under_contract(fiA)
        fiN, _ = closure_of('NodeConsts.listen_on', 'after_node_add', H.NodeConsts, dict(self=None)); ctx.under_contract(fiN)
        b = Tok('b')
        class Sent(SymVal):
            def __init__(s, cs): s.cs = frozenset(cs)
            def sym_getattr(s, it, name):
                if name == 'constants': return s.cs
                raise Outside(name)
        class Node(SymVal):
            def __init__(s, name, cs, tracked): s.name, s.sent, s.tracked = name, Sent(cs), tracked
            def sym_getitem(s, it, k):
                if k == 'sentence': return s.sent
                raise PyExc(KeyError, (k,))
            def __repr__(s): return s.name
        events_pool = [('add', Node('u1', ['a'], True)), ('add', Node('s1', ['b'], False)), ('add', Node('u2', [], True)), ('add', Node('s2', ['a', 'c'], False)), ('apply', 0, 'a'), ('apply', 2, 'b')]
        for seq in itertools.permutations(range(len(events_pool)), 4):
            tracked = {}      # id(node) -> LSet
            class PerBranch(SymVal):
                def sym_getitem(s, it, n):
                    if id(n) in tracked: return tracked[id(n)]
                    raise PyExc(KeyError, (n,))
                def sym_setitem(s, it, n, v): tracked[id(n)] = v; names[id(n)] = n
                def sym_contains(s, it, n): return id(n) in tracked
                def sym_getattr(s, it, name):
                    if name == 'items': return Contract(lambda it: GenList((names[k], v) for k, v in tracked.items()), 'dict.items')
                    if name == 'values': return Contract(lambda it: GenList(tracked.values()), 'dict.values')
                    if name == 'keys': return Contract(lambda it: GenList(names[k] for k in tracked), 'dict.keys')
                    if name == 'get': return Contract(lambda it, n, default=None: tracked.get(id(n), default), 'dict.get')
                    raise Outside(name)
                def sym_iter(s, it): return [names[k] for k in tracked]
                def sym_len(s, it): return len(tracked)
            names = {}
            consts = LSet()
            selfm = CacheM(filter=Contract(lambda it, n, br: n.tracked, 'FilterHelper.__call__'), consts=Holder2({id(b): consts}))
            selfm.d[id(b)] = PerBranch()
            _, cA = closure_of('NodeConsts.listen_on', 'after_apply', H.NodeConsts, dict(self=selfm))
            _, cN = closure_of('NodeConsts.listen_on', 'after_node_add', H.NodeConsts, dict(self=selfm))
            present = set(); applied = {}; all_consts = set()
            added = []
            ok = True
            for ei in seq:
                ev = events_pool[ei]
                if ev[0] == 'add':
                    n = ev[1]
                    if n in added: continue
                    added.append(n)
                    run(it, cN, [n, b])
                    all_consts |= set(n.sent.cs)
                else:
                    n = events_pool[ev[1]][1]
                    if n not in added or ev[2] not in all_consts: continue
                    tgt = Holder(get=Contract(lambda it, k: None, 'get'), branch=b, node=n, constant=ev[2])
                    run(it, cA, [tgt])
                    applied.setdefault(id(n), set()).add(ev[2])
                for n in added:
                    if n.tracked:
                        want = all_consts - applied.get(id(n), set())
                        got = tracked.get(id(n))
                        if got is None or set(got) != want: ok = False; bad.append(f'after {[events_pool[i][:1] + (repr(events_pool[i][1]),) for i in seq]}: NodeConsts[{n}] = {got} want {want}'); break
                if not ok: break
            if len(bad) > 2: break
    except Outside as e:
        ctx.add_result(Result(f'{prefix}.helpers.NodeConsts', 'unknown', detail=f'outside subset: {e}')); return
    except PyExc as e:
        bad.append(f'exception {e.cls.__name__}')
    ctx.add(enum_ob(f'{prefix}.helpers.NodeConsts', not bad, where=FILE, cex=dict(bad=bad[:3]),
                    clause='invariant over all event sequences of length 4 from a pool of node additions and applications: for every tracked node, NodeConsts[branch][node] = (constants occurring on the branch) minus (constants already applied to the node)'))

class Holder2(SymVal):
    def __init__(s, d): s.d = d
    def sym_getitem(s, it, k): return s.d[id(k)]


# ------------------------------------------------------------------ replays on the real prover

def replay_listeners(r):
    """real tableaux with forks in modal logics: no mutable per-branch helper value may be shared between two branches, and
    WorldIndex must list exactly the access nodes of its own branch"""
    from pytableaux.lang import Argument
    from pytableaux.proof import Tableau, helpers as H
    from pyvc.par import hard_timeout, HardTimeout
    args = ['e:MLa:LAKMKbANbNbKMcMdMMNa', 'a:AMbMc:LAdMe', 'b:AaMb:LMc', 'Na:AMKabMc:LAMdMe', 'c:AKMaMbMMc:LLd']
    out = []
    # releasing a node on one branch must not take it from the branch copied from it (FilterNodeCache.release / gc on the real class)
    try:
        from pytableaux.proof import anode
        t = Tableau('S5')
        b = t.branch(); b.append(anode(0, 1))
        c = t.branch(b)
        for rule in t.rules:
            for hcls, h in rule.helpers.items():
                if isinstance(h, H.FilterNodeCache) and b in h and c in h:
                    shared = [n for n in h[b] if n in h[c]]
                    if not shared: continue
                    h.release(shared[0], b); h.gc()
                    if shared[0] not in h[c]: out.append(f'S5 {type(rule).__name__}[{hcls.__name__}]: releasing a node on a branch removed it from the branch copied from it')
                    if shared[0] in h[b]: out.append(f'S5 {type(rule).__name__}[{hcls.__name__}]: gc left the released node')
    except Exception as e: out.append(f'release/gc scenario: {type(e).__name__}: {e}')
    if out: return dict(reproduced=True, detail='; '.join(out[:3]))
    for L in ('D', 'K', 'T', 'S4', 'KFDE', 'S5'):
        for a in args:
            try:
                with hard_timeout(20): t = Tableau(L, Argument(a), max_steps=400).build()
            except HardTimeout: continue
            except Exception as e: out.append(f'{L} {a}: {type(e).__name__}'); continue
            branches = list(t)
            for rule in t.rules:
                for hcls, h in rule.helpers.items():
                    if not isinstance(h, H.BranchCache): continue
                    seen = {}
                    for b in branches:
                        if b not in h: continue
                        v = h[b]
                        items = list(v.items()) if isinstance(v, dict) else [(None, v)]
                        for k, x in items:
                            if isinstance(x, (set, dict, list)):
                                if id(x) in seen and seen[id(x)] is not b:
                                    out.append(f'{L} {a}: {type(rule).__name__}[{hcls.__name__}] shares the value for key {k!r} between branches {seen[id(x)].id} and {b.id}')
                                seen[id(x)] = b
                    if isinstance(h, H.WorldIndex):
                        for b in branches:
                            if b not in h: continue
                            real = {}
                            for n in b:
                                if n.get('world1') is not None: real.setdefault(n['world1'], set()).add(n['world2'])
                            got = {k: set(v) for k, v in h[b].items() if v}
                            if got != real: out.append(f'{L} {a}: {type(rule).__name__}[WorldIndex] of branch {b.id} lists {got}, its access nodes are {real}')
            if out: return dict(reproduced=True, detail='; '.join(out[:3]))
    return dict(reproduced=False, detail='no aliasing and no foreign access pair found on the sample tableaux')

def replay_nodeconsts(r):
    "a universal node whose own sentence introduces a constant must be offered that constant"
    from pytableaux.lang import Argument
    from pytableaux.proof import Tableau
    out = []
    for L in ('CFOL', 'FDE', 'K3', 'K'):
        for a in ('Gmm:VxGxm', 'SyGyy:VxGxm', 'Gnm:VxGxm:Fn'):
            t = Tableau(L, Argument(a)).build()
            if not t.valid: out.append(f'{L}: {a} is reported invalid={t.invalid} (it is valid: the universal premise must be instantiated with the constant it mentions)')
    return dict(reproduced=bool(out), detail='; '.join(out[:3]) or 'universal premises are instantiated with their own constants')

def register_replayers(ctx, prefix):
    ctx.replayers[f'{prefix}.helpers.listeners'] = replay_listeners
    ctx.replayers[f'{prefix}.helpers.NodeConsts'] = replay_nodeconsts
