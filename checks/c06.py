"""C06 — new constants and new worlds are always fresh."""
from __future__ import annotations
import ast, itertools, os
import z3
from pyvc import source, REPO
from pyvc.interp import Interp, explore, Outside, PyExc, SymVal, Contract, GenList
from pyvc.world import World
from pyvc.smt import Obligation, Result
from contracts import branch as B
from checks import rulesem as RS

FILE = 'pytableaux/proof/common.py'

def enum_ob(name, ok, where='', **meta):
    return Obligation(name, True if ok else False, kind='enum', where=where, meta=meta)

def branch_world():
    from pytableaux.proof import common as C
    from pytableaux.lang import Constant
    from pytableaux.tools import events, hybrids, SetView
    w = World()
    # live Constant objects are lifted to their key
    def hook(it, what, args):
        return NotImplemented
    w.attr_hooks.append(hook)
    w.builtin_models[C.Node.for_mapping] = lambda it, m: m
    w.builtin_models[events.EventEmitter.__init__] = lambda it, self, *ev: self.sym_setattr(it, 'events', B.Opaque('events', dict(copy=lambda it, **kw: B.Opaque('events', {}))))
    w.builtin_models[hybrids.qset] = lambda it, *a: B.Opaque('qset', dict(append=None, copy=lambda it: B.Opaque('qset', dict(append=None))))
    w.builtin_models[SetView] = lambda it, s: B.Opaque('SetView', {})
    return w

def lift_const(c):
    return B.ConstKey(z3.IntVal(4 * c.subscript + c.index))

class EmsgModel(SymVal):
    def sym_getattr(self, it, name):
        from pytableaux.errors import Emsg
        m = getattr(Emsg, name)
        return Contract(lambda it, *a: __import__('pyvc.interp').interp.ExcValue(m.cls if hasattr(m, 'cls') else Exception, a), f'Emsg.{name}')

def run_method(name, setup, world=None):
    """explore Branch.<name>; setup(it) -> (args, kw, state)"""
    from pytableaux.proof import common as C
    fi = source.get(FILE, f'Branch.{name}')
    func = C.Branch.__dict__[name]
    if isinstance(func, property): func = func.fget
    world = world or branch_world()
    holder = []
    def run(path):
        it = Interp(path, world)
        args, kw, state = setup(it)
        holder.append((path, state))
        rv = it.call_source(fi, func, C.Branch, args, kw, recv=args[0])
        state['rv'] = rv
        return rv
    prs = explore(run)
    # pair path results with their states
    by_path = {id(p): s for p, s in holder}
    out = []
    for pr in prs:
        out.append((pr, by_path[id(pr.path)]))
    return fi, out

def _clauses(paths, post, allow_raise=None):
    """conjunction over paths of pc => post(state); exceptional paths must be allowed"""
    cl = []
    for pr, st in paths:
        if pr.kind == 'cut': continue
        if pr.kind == 'raise':
            ok = allow_raise(pr, st) if allow_raise else z3.BoolVal(False)
            cl.append(z3.Implies(pr.pc, ok))
            continue
        cl.append(z3.Implies(pr.pc, post(pr, st)))
    return z3.And(*cl) if cl else z3.BoolVal(False)

def append_obligations(ctx, prefix='C06', only=None):
    """Branch.append interpreted from source for an arbitrary pre-state satisfying the freshness invariant (also a premise of
    L-SOUND: C01 re-states the two freshness clauses under its own names)"""
    from pytableaux.errors import IllegalStateError
    real_ctx = ctx
    class _F:
        def add(self, ob):
            if only is None or any(ob.name.endswith(x) for x in only): return real_ctx.add(ob)
        def __getattr__(self, n): return getattr(real_ctx, n)
    ctx = _F()
    # ---------------- append
    def setup_append(it):
        b = B.BranchObj('b'); node = B.NodeSym('node')
        for c in B.wf(b, node): it.assume(c)
        for _, c in B.inv_fresh(b): it.assume(c)
        old = dict(constants=b.f['_constants'].t, worlds=b.f['_worlds'].t, nextconst=b.f['_nextconst'].k, nextworld=b.f['_nextworld'])
        return [b, node], {}, dict(b=b, node=node, old=old)
    w = branch_world()
    from pytableaux.errors import Emsg
    w.attr_hooks.append(lambda it, what, args: (_emsg(what, args)))
    try:
        fi, paths = run_method('append', setup_append, w)
        where = ctx.under_contract(fi)
        def allow(pr, st): return st['b'].closed if issubclass(pr.value.cls, IllegalStateError) else z3.BoolVal(False)
        b0 = B.BranchObj('b'); n0 = B.NodeSym('node')
        hyps = B.wf(b0, n0) + [c for _, c in B.inv_fresh(b0)]
        def decode(m):
            cand = set(range(0, 12))
            for d_ in m.decls():
                try:
                    v_ = m[d_]
                    if z3.is_int_value(v_): cand |= {v_.as_long() - 1, v_.as_long(), v_.as_long() + 1}
                except Exception: pass
            def setof(t):
                out = []
                for i in sorted(c_ for c_ in cand if c_ >= 0):
                    if z3.is_true(m.eval(z3.IsMember(z3.IntVal(i), t), model_completion=True)): out.append(i)
                return out
            return dict(constants=setof(b0.f['_constants'].t), nextconst=str(m.eval(b0.f['_nextconst'].k, model_completion=True)),
                        node_is_sentence=str(m.eval(n0.is_sentence, model_completion=True)), node_consts=setof(n0.consts),
                        worlds=setof(b0.f['_worlds'].t), nextworld=str(m.eval(b0.f['_nextworld'], model_completion=True)),
                        node_is_modal=str(m.eval(n0.is_modal, model_completion=True)), node_worlds=setof(n0.worlds),
                        note='constants are keys 4*subscript+index: 0=a 1=b 2=c 3=d 4=a1 ...')
        def post_inv(i):
            return lambda pr, st: B.inv_fresh(st['b'])[i][1]
        ctx.add(Obligation(f'{prefix}.append.fresh-constant', _clauses(paths, post_inv(0), allow), hyps=hyps, where=where, decode=decode,
                           meta=dict(clause='after append: new_constant() not in constants', function='Branch.append')))
        ctx.add(Obligation(f'{prefix}.append.fresh-world', _clauses(paths, post_inv(1), allow), hyps=hyps, where=where, decode=decode,
                           meta=dict(clause='after append: every world on the branch < new_world()', function='Branch.append')))
        def post_view_c(pr, st):
            b, node, old = st['b'], st['node'], st['old']
            return b.f['_constants'].t == z3.If(node.is_sentence, z3.SetUnion(old['constants'], node.consts), old['constants'])
        def post_view_w(pr, st):
            b, node, old = st['b'], st['node'], st['old']
            return b.f['_worlds'].t == z3.If(node.is_modal, z3.SetUnion(old['worlds'], node.worlds), old['worlds'])
        ctx.add(Obligation(f'{prefix}.append.view-constants', _clauses(paths, post_view_c, allow), hyps=hyps, where=where, decode=decode,
                           meta=dict(clause='constants\' == constants ∪ consts(node) for sentence nodes, unchanged otherwise')))
        ctx.add(Obligation(f'{prefix}.append.view-worlds', _clauses(paths, post_view_w, allow), hyps=hyps, where=where, decode=decode,
                           meta=dict(clause='worlds\' == worlds ∪ worlds(node) for modal nodes, unchanged otherwise')))
        # closed branch: raises and leaves the fields alone
        def post_closed(pr, st): return z3.Not(st['b'].closed)
        ctx.add(Obligation(f'{prefix}.append.closed-raises', _clauses(paths, post_closed, allow), hyps=hyps, where=where,
                           meta=dict(clause='append returns normally only on an open branch; IllegalStateError only on a closed one')))
        # vacuity: a normal path and a raising path are both reachable
        normal = [pr for pr, st in paths if pr.kind == 'return']
        raising = [pr for pr, st in paths if pr.kind == 'raise']
        ctx.add(enum_ob(f'{prefix}.append.cover', len(normal) >= 4 and len(raising) >= 1, where=where, normal_paths=len(normal), raising_paths=len(raising),
                        cex=dict(normal=len(normal), raising=len(raising))))
    except Outside as e:
        ctx.add_result(Result(f'{prefix}.append.fresh-constant', 'unknown', detail=f'outside subset: {e}'))

def run(ctx):
    from pytableaux.proof import common as C
    from pytableaux.lang import Constant
    from pytableaux.errors import IllegalStateError
    ctx.level = 'proof'
    ctx.drop('type annotations', 'docstrings')
    ctx.trust('EventEmitter.emit (tools/events.py): calls listeners; listeners do not write Branch\'s private fields (checked by the package-wide frame scan C06.frame)',
              'qset.append / qset.copy / set.copy: fresh-copy and append contracts (C18); Branch.Index.add / Index.copy are under contract in C05.struct.* (copy returns the same buckets in sets of its own)',
              'Node.worlds yields the int values of world/world1/world2 (straight-line; interpreted in C04 models)',
              'builtin axioms: max of a finite non-empty set, set.update = union, frozenset(x) = set of x, len(s)==0 iff s empty')
    ctx.assume('Python ints are mathematical; constants are ordered by key 4*subscript+index (obligations C06.next.*, C06.order)',
               'Errors raised via Emsg.IllegalState are IllegalStateError (errors.py, executed)')
    ctx.explanation = ('Branch.__init__/append/copy/new_constant/new_world are symbolically executed from source over z3 sets and integers for an '
                       'arbitrary pre-state satisfying the freshness invariant and an arbitrary node; z3 proves the invariant and the whole-view '
                       'postconditions for every append history (inductive invariant, no bound).  Witness use is checked on the interpreted '
                       'schema of every rule.  A bounded search over real append/copy histories replays refutations.')
    append_obligations(ctx)
    # premise of append's bookkeeping, under C06's own names: sentence.constants (read by Branch.append) is exactly the set of
    # constants occurring in the sentence -- C15's obligations on the derived attribute and its lazy cache
    from checks import c15
    ctx.restate(c15.run, 'C15.', 'C06.constants.', keep=lambda n: n.endswith('.constants') or '.constants.' in n or n in ('C15.lazy.wrapper', 'C15.Atomic.attributes', 'C15.Predicated.class-attributes'))
    # ---------------- __init__
    try:
        def setup_init(it):
            b = B.BranchObj('b', fresh=False)
            return [b], {}, dict(b=b)
        w2 = branch_world()
        w2.attr_hooks.append(_first_const_hook)
        fi, paths = run_method('__init__', setup_init, w2)
        where = ctx.under_contract(fi)
        def post_init(pr, st):
            b = st['b']
            cs, ws = _as_set(b.f.get('_constants')), _as_set(b.f.get('_worlds'))
            nc, nw = _as_key(b.f.get('_nextconst')), b.f.get('_nextworld')
            if cs is None or ws is None or nc is None or nw is None: return z3.BoolVal(False)
            x = z3.Int('x')
            return z3.And(cs == z3.EmptySet(z3.IntSort()), ws == z3.EmptySet(z3.IntSort()), nc >= 0, nw >= 0 if isinstance(nw, z3.ExprRef) else z3.BoolVal(nw >= 0),
                          z3.Not(z3.IsMember(nc, cs)))
        ctx.add(Obligation('C06.init.invariant', _clauses(paths, post_init), where=where, meta=dict(clause='a new branch has no constants/worlds and satisfies the freshness invariant')))
    except Outside as e:
        ctx.add_result(Result('C06.init.invariant', 'unknown', detail=f'outside subset: {e}'))
    copy_obligations(ctx)
    # ---------------- new_constant / new_world
    for nm, fld in (('new_constant', '_nextconst'), ('new_world', '_nextworld')):
        try:
            def setup_new(it):
                b = B.BranchObj('b'); return [b], {}, dict(b=b)
            fi, paths = run_method(nm, setup_new)
            where = ctx.under_contract(fi)
            ok = all(pr.kind == 'return' and pr.value is st['b'].f[fld] and not st['b'].written for pr, st in paths) and len(paths) == 1
            ctx.add(enum_ob(f'C06.{nm}.returns-field', ok, where=where, clause=f'{nm}() returns self.{fld} and writes nothing', cex=dict(paths=len(paths))))
        except Outside as e:
            ctx.add_result(Result(f'C06.{nm}.returns-field', 'unknown', detail=f'outside subset: {e}'))
    next_obligations(ctx)
    frame_scan(ctx)
    witness_obligations(ctx)
    bounded_histories(ctx)
    ctx.replayers['C06.append'] = replay_history
    ctx.replayers['C06.copy'] = replay_history
    ctx.replayers['C06.'] = lambda r: dict(reproduced=None, detail='see counterexample')

def copy_obligations(ctx, prefix='C06'):
    "Branch.copy interpreted from source: equal bookkeeping, fresh objects holding copies of the original's fields, the original untouched"
    # ---------------- copy
    try:
        def setup_copy(it):
            b = B.BranchObj('b')
            for c in B.wf(b): it.assume(c)
            for _, c in B.inv_fresh(b): it.assume(c)
            return [b], {}, dict(b=b, old={k: v for k, v in b.f.items()})
        fi, paths = run_method('copy', setup_copy)
        where = ctx.under_contract(fi)
        b0 = B.BranchObj('b')
        hyps = B.wf(b0) + [c for _, c in B.inv_fresh(b0)]
        def post_copy(pr, st):
            c, b = pr.value, st['b']
            if not isinstance(c, B.BranchObj): return z3.BoolVal(False)
            try:
                eqs = [c.f['_constants'].t == b.f['_constants'].t, c.f['_worlds'].t == b.f['_worlds'].t,
                       c.f['_nextconst'].k == b.f['_nextconst'].k, c.f['_nextworld'] == b.f['_nextworld']]
            except (KeyError, AttributeError):
                return z3.BoolVal(False)
            return z3.And(*eqs, *[g for _, g in B.inv_fresh(c)])
        ctx.add(Obligation(f'{prefix}.copy.equal-and-fresh', _clauses(paths, post_copy), hyps=hyps, where=where,
                           meta=dict(clause='the copy has the same constants/worlds/next items and satisfies the invariant')))
        indep = True; why = []
        for pr, st in paths:
            if pr.kind != 'return': continue
            c, b = pr.value, st['b']
            for fld in ('_constants', '_worlds', '_nodes', '_ticked', '_index'):
                if c.f.get(fld) is None or c.f.get(fld) is b.f.get(fld): indep = False; why.append(fld)
            # ... and has the content of the original's field: the nodes, the ticks and the node index are .copy() of the original's
            for fld in ('_nodes', '_ticked', '_index', 'events'):
                if getattr(c.f.get(fld), 'copy_of', None) is not b.f.get(fld): indep = False; why.append(f'{fld} is not a copy of the original\'s {fld}')
            if 'parent' in st and c.f.get('parent') is not st['parent'] and c.f.get('_parent') is not st['parent']: indep = False; why.append('parent is not the branch given as parent=')
            if b.written: indep = False; why.append('writes to the original: ' + ','.join(b.written))
        ctx.add(enum_ob(f'{prefix}.copy.independent', indep, where=where, cex=dict(shared=why),
                        clause='every mutable field of the copy is a fresh object holding a .copy() of the original\'s field (nodes, ticks, node index, events), the original is not written'))
    except Outside as e:
        ctx.add_result(Result(f'{prefix}.copy.equal-and-fresh', 'unknown', detail=f'outside subset: {e}'))

def _emsg(what, args):
    from pytableaux.errors import Emsg
    from pyvc.interp import ExcValue
    if what[0] == 'getattr' and args[0] is Emsg:
        member = getattr(Emsg, what[1])
        cls = member.cls if hasattr(member, 'cls') else member.value[0]
        return Contract(lambda it, *a: ExcValue(cls, a), f'Emsg.{what[1]}')
    return NotImplemented

def _first_const_hook(it, what, args):
    return NotImplemented

def _as_set(v):
    if isinstance(v, B.SetVal): return v.t
    if isinstance(v, (set, frozenset)) and not v: return z3.EmptySet(z3.IntSort())
    return None
def _as_key(v):
    from pytableaux.lang import Constant
    if isinstance(v, B.ConstKey): return v.k
    if isinstance(v, Constant): return z3.IntVal(4 * v.subscript + v.index)
    return None

# ---------------------------------------------------------------- CoordsItem.next

class SpecSym(SymVal):
    "BiCoords namedtuple (index, subscript) with symbolic ints"
    def __init__(self, idx, sub): self.idx, self.sub = idx, sub
    def sym_getitem(self, it, k):
        if isinstance(k, slice) and (k.start, k.stop, k.step) == (0, 2, None): return (self.idx, self.sub)
        if k == 0: return self.idx
        if k == 1: return self.sub
        raise Outside('spec[..]')
    def sym_getattr(self, it, name):
        if name == '_replace':
            def rep(it, **kw):
                return SpecSym(kw.get('index', self.idx), kw.get('subscript', self.sub))
            return Contract(rep, 'BiCoords._replace')
        if name == 'index': return self.idx
        if name == 'subscript': return self.sub
        raise Outside(f'spec.{name}')

class ItemSym(SymVal):
    def __init__(self, cls, spec): self.cls, self.spec = cls, spec
    def sym_getattr(self, it, name):
        if name == 'spec': return self.spec
        raise Outside(f'item.{name}')
    def sym_type(self, it): return ItemCls(self.cls)
class ItemCls(SymVal):
    def __init__(self, cls): self.cls = cls
    def sym_getattr(self, it, name):
        if name == 'TYPE': return self.cls.TYPE
        raise Outside(f'cls.{name}')
    def sym_call(self, it, args, kw):
        (spec,) = args
        # CoordsItem.__new__ contract: stores spec; raises ValueError if index > maxi or subscript < 0
        if not isinstance(spec, SpecSym): raise Outside('cls(<non-spec>)')
        if it.fork(spec.idx > self.cls.TYPE.maxi): raise PyExc(ValueError, ('index > maxi',))
        if it.fork(spec.sub < 0): raise PyExc(ValueError, ('subscript < 0',))
        return ItemSym(self.cls, spec)

def next_obligations(ctx):
    from pytableaux.lang import lex, Constant, Variable, Atomic
    fi = source.get('pytableaux/lang/lex.py', 'CoordsItem.next')
    where = ctx.under_contract(fi)
    func = lex.CoordsItem.__dict__['next']
    for cls in (Constant,):
        maxi = cls.TYPE.maxi
        idx, sub = z3.Int('idx'), z3.Int('sub')
        w = World()
        def hook(it, what, args, cls=cls):
            if what[0] == 'getattr' and args[0] is cls.TYPE and what[1] == 'maxi': return cls.TYPE.maxi
            return NotImplemented
        w.attr_hooks.append(hook)
        def runp(path):
            it = Interp(path, w)
            path.assume(z3.And(idx >= 0, idx <= maxi, sub >= 0))
            return it.call_source(fi, func, lex.CoordsItem, [ItemSym(cls, SpecSym(idx, sub))], {})
        try:
            prs = explore(runp)
        except Outside as e:
            ctx.add_result(Result(f'C06.next.{cls.__name__}.successor', 'unknown', detail=f'outside subset: {e}', where=where)); continue
        key = lambda i, s: (maxi + 1) * s + i
        cl = []
        for pr in prs:
            if pr.kind == 'return' and isinstance(pr.value, ItemSym):
                cl.append(z3.Implies(pr.pc, z3.And(key(pr.value.spec.idx, pr.value.spec.sub) == key(idx, sub) + 1,
                                                   pr.value.spec.idx >= 0, pr.value.spec.idx <= maxi, pr.value.spec.sub >= 0)))
            else:
                cl.append(z3.Not(pr.pc))
        ctx.add(Obligation(f'C06.next.{cls.__name__}.successor', z3.And(*cl), hyps=[idx >= 0, idx <= maxi, sub >= 0], where=where,
                           meta=dict(clause=f'next() is the successor in the order key = {maxi + 1}*subscript + index, and never raises')))
        # the order used by max() on constants (sort_tuple = (rank, subscript, index)) is the key order: ground check over a window
        items = [cls(i, s) for s in range(0, 4) for i in range(0, maxi + 1)]
        ok = all((a < b) == (key(a.index, a.subscript) < key(b.index, b.subscript)) for a in items for b in items) and \
             all(a.next() == items[n + 1] for n, a in enumerate(items[:-1]))
        ctx.add(enum_ob(f'C06.order.{cls.__name__}', ok, clause='real < on items agrees with the key order; real next() is the list successor (window 0..3 x 0..maxi)', cex={}))

# ---------------------------------------------------------------- frame scan

PRIVATE = ('_constants', '_nextconst', '_worlds', '_nextworld', '_nodes')
MUTATORS = {'add', 'update', 'discard', 'remove', 'clear', 'pop', 'append', 'extend', 'insert', 'sort', 'reverse', 'difference_update', 'intersection_update', 'symmetric_difference_update'}

def frame_scan(ctx):
    """no code outside class Branch writes the five private fields (assignment, augmented assignment, del, or a
    mutating method call on the field)"""
    offenders = []
    root = os.path.join(REPO, 'pytableaux')
    for dp, dn, fn in os.walk(root):
        for f in fn:
            if not f.endswith('.py'): continue
            path = os.path.join(dp, f)
            rel = os.path.relpath(path, REPO)
            tree = ast.parse(open(path, encoding='utf-8').read())
            for cls_stack, node in _walk_with_class(tree):
                inside_branch = rel == FILE and 'Branch' in cls_stack
                hit = None
                if isinstance(node, (ast.Assign, ast.AugAssign, ast.AnnAssign, ast.Delete)):
                    tgts = node.targets if isinstance(node, (ast.Assign, ast.Delete)) else [node.target]
                    for t in tgts:
                        for sub in ast.walk(t):
                            if isinstance(sub, ast.Attribute) and sub.attr in PRIVATE and isinstance(sub.ctx, (ast.Store, ast.Del)): hit = sub.attr
                            if isinstance(sub, ast.Subscript) and isinstance(sub.value, ast.Attribute) and sub.value.attr in PRIVATE: hit = sub.value.attr
                if isinstance(node, ast.Call) and isinstance(node.func, ast.Attribute) and node.func.attr in MUTATORS:
                    v = node.func.value
                    if isinstance(v, ast.Attribute) and v.attr in PRIVATE: hit = v.attr
                if hit and not inside_branch:
                    # same attribute names on unrelated classes (lex.py slots) are reads/declarations, not writes through a Branch
                    offenders.append(f'{rel}:{node.lineno}:{hit}')
    ctx.add(enum_ob('C06.frame.private-fields', not offenders, clause='only methods of Branch write _constants/_nextconst/_worlds/_nextworld/_nodes',
                    cex=dict(offenders=offenders)))
    # inside Branch: which methods write them
    writers = set()
    tree = ast.parse(open(os.path.join(REPO, FILE), encoding='utf-8').read())
    for n in ast.walk(tree):
        if isinstance(n, ast.ClassDef) and n.name == 'Branch':
            for m in n.body:
                if isinstance(m, ast.FunctionDef):
                    for sub in ast.walk(m):
                        if isinstance(sub, ast.Attribute) and sub.attr in PRIVATE and isinstance(sub.ctx, ast.Store): writers.add(m.name)
                        if isinstance(sub, ast.Call) and isinstance(sub.func, ast.Attribute) and sub.func.attr in MUTATORS and isinstance(sub.func.value, ast.Attribute) and sub.func.value.attr in PRIVATE:
                            writers.add(m.name)
    # a private helper that writes the fields is fine when it can only run as part of __init__ / copy / append: every call of it
    # anywhere in the package sits in one of those three (or in another such helper), and it is never taken as a value
    allowed = {'__init__', 'copy', 'append'}
    changed = True
    while changed:
        changed = False
        for w in sorted(writers - allowed):
            if not (w.startswith('_') and not w.startswith('__')): continue
            callers = set(); escapes = False
            for dp, dn, fn in os.walk(root):
                for f in fn:
                    if not f.endswith('.py'): continue
                    path = os.path.join(dp, f); rel = os.path.relpath(path, REPO)
                    t2 = ast.parse(open(path, encoding='utf-8').read())
                    for cls_stack, func_stack, node in _walk_with_class(t2, with_func=True):
                        if isinstance(node, ast.Attribute) and node.attr == w:
                            in_branch = rel == FILE and 'Branch' in cls_stack
                            is_call_on_self = isinstance(node.value, ast.Name) and node.value.id in ('self', 'b', 'branch')
                            if in_branch and func_stack: callers.add(func_stack[0])
                            else: escapes = True
            called_as_function = True      # conservative: any mention outside a call position counts as a call site of its function
            if not escapes and callers <= allowed: allowed.add(w); changed = True      # (no caller at all: dead code)
    ctx.add(enum_ob('C06.frame.writers', writers <= allowed, clause='inside Branch only __init__, copy and append (and private helpers reachable only from them) write the fields',
                    writers=sorted(writers), allowed=sorted(allowed), cex=dict(writers=sorted(writers), allowed=sorted(allowed))))

def _walk_with_class(tree, with_func=False):
    """yield (class stack, node) -- or (class stack, [outermost enclosing method name of the innermost class], node) with
    with_func -- for every node"""
    def rec(node, stack, funcs):
        for ch in ast.iter_child_nodes(node):
            if isinstance(ch, ast.ClassDef):
                yield from rec(ch, stack + [ch.name], [])
            elif isinstance(ch, (ast.FunctionDef, ast.AsyncFunctionDef)):
                f2 = funcs if funcs else [ch.name]
                yield (stack, f2, ch) if with_func else (stack, ch)
                yield from rec(ch, stack, f2)
            else:
                yield (stack, funcs, ch) if with_func else (stack, ch)
                yield from rec(ch, stack, funcs)
    yield from rec(tree, [], [])

# ---------------------------------------------------------------- witness use

def witness_obligations(ctx):
    from pyvc.par import pmap
    names = [RS.registry()(n).Meta.name for n in RS.registry()]
    for res, funcs in pmap(_witness_work, names):
        for r in res: ctx.add_result(r)
        ctx.functions.update(funcs)

def _params_and_worlds(groups):
    ps, ws = set(), set()
    def walk(t):
        if isinstance(t, RS.STerm):
            if t.kind == 'inst': ps.add(t.b)
            for x in (t.a, t.b, t.c):
                if isinstance(x, tuple):
                    for y in x: walk(y)
                else: walk(x)
    for g in groups:
        for n in g:
            if 'sentence' in n.props: walk(n.props['sentence'])
            for k in ('world', 'world1', 'world2'):
                if n.props.get(k) is not None: ws.add(n.props[k])
    return ps, ws

def _witness_work(lname):
    from pyvc.smt import discharge
    logic = RS.registry()(lname)
    L = logic.Meta.name
    results, funcs = [], {}
    for rc in RS.rule_classes(logic):
        kind = RS.classify(rc)
        if kind not in ('modal', 'quant-skinny', 'quant-fat', 'quant-plain'): continue
        sc = RS.schema(logic, rc)
        for fi in sc.funcs: funcs[fi.key] = dict(file=fi.relfile, qualname=fi.qualname, lines=f'{fi.lineno}-{fi.end_lineno}', sha1=fi.sha1)
        name = f'C06.witness.{L}.{rc.__name__}'
        if sc.error:
            results.append(Result(name, 'unknown', detail=sc.error)); continue
        bad = []
        for notes, targets in sc.paths:
            groups = []
            for t in targets:
                if isinstance(t, RS.NodeVal): groups.append((t,))
                else: groups += [tuple(g) for g in t['adds']]
            ps, ws = _params_and_worlds(groups)
            fresh = notes.get('fresh', [])
            for p in ps:
                ok = isinstance(p, RS.Param) and ((p.name == 'NEW' and 'const' in fresh) or (p.name == 'c' and kind == 'quant-fat'))
                if not ok: bad.append(f'parameter {p!r} is neither branch.new_constant() nor the constant the rule was given')
            for w_ in ws:
                ok = isinstance(w_, RS.WorldTok) and (w_.name == 'w' or (w_.name == 'NEW' and 'world' in fresh) or (w_.name == 'w2' and any(q[0] == 'WorldIndex.get' for q in notes.get('queries', []))))
                if not ok: bad.append(f'world {w_!r} is neither the node world, an accessible world, nor branch.new_world()')
        results.append(discharge(Obligation(name, not bad, kind='enum', where=(sc.funcs[-1].where if sc.funcs else ''),
                                            meta=dict(logic=L, rule=rc.__name__, clause='every parameter/world introduced by the rule comes from branch.new_constant()/new_world() in the same call', cex=dict(bad=bad)))))
    # the serial rule
    from pytableaux.proof import rules as PR, helpers as H
    for rc in RS.rule_classes(logic):
        if issubclass(rc, PR.access.Serial):
            name = f'C06.witness.{L}.Serial'
            try:
                world = RS.R.make_world()
                fi = source.get('pytableaux/proof/rules.py', 'access.Serial._get_targets')
                funcs[fi.key] = dict(file=fi.relfile, qualname=fi.qualname, lines=f'{fi.lineno}-{fi.end_lineno}', sha1=fi.sha1)
                class SerialModel(RS.R.RuleModel):
                    def sym_getattr(self, it, nm):
                        if nm == '_should_apply': return Contract(lambda it, b: it.fork(it.fresh_bool('should_apply')), 'Serial._should_apply')
                        return super().sym_getattr(it, nm)
                class Unserial(SymVal):
                    def sym_getitem(self, it, br): return GenList([RS.WorldTok('w'), RS.WorldTok('u')])      # two successor-less worlds
                def runp(path):
                    it = Interp(path, world)
                    rm = SerialModel(rc, logic, helpers={H.UnserialWorlds: Unserial()})
                    br = RS.R.BranchTok()
                    return it.call_source(fi, PR.access.Serial.__dict__['_get_targets'], PR.access.Serial, [rm, br], {}, recv=rm), path
                bad = []; n = 0
                for pr in explore(runp):
                    if pr.kind != 'return': bad.append('exception'); continue
                    targets, path = pr.value
                    served = []
                    for t in targets:
                        n += 1
                        nds = [nd for g in t['adds'] for nd in g]
                        # branch.new_world() only moves on when a node is appended: within ONE application it names one world, so a
                        # target may use it as the successor of one world only
                        if len(nds) != 1: bad.append(f'one serial application adds {len(nds)} access nodes {nds!r}: they share the one fresh world'); continue
                        nd = nds[0]; served.append(nd.props.get('world1'))
                        if not (nd.props.get('world1') in (RS.WorldTok('w'), RS.WorldTok('u')) and nd.props.get('world2') == RS.WorldTok('NEW') and 'world' in path.notes.get('fresh', [])):
                            bad.append(f'serial target {nd!r}')
                    if targets and served != [RS.WorldTok('w'), RS.WorldTok('u')]: bad.append(f'targets serve {served!r}, the successor-less worlds are [w, u]')
                if n == 0: bad.append('no target on any path')
                results.append(discharge(Obligation(name, not bad, kind='enum', where=fi.where, meta=dict(logic=L, rule='Serial', cex=dict(bad=bad)))))
            except Outside as e:
                results.append(Result(name, 'unknown', detail=f'outside subset: {e}'))
    return results, funcs

# ---------------------------------------------------------------- bounded histories on the real Branch (replay search + cross-check)

def _alphabet():
    from pytableaux.lang import Predicate, Constant, Atomic, Quantified, Variable
    from pytableaux.proof import snode, swnode, anode, sdwnode
    F = Predicate(0, 0, 1); G = Predicate(1, 0, 2)
    a, b, c, d, a1 = Constant(0, 0), Constant(1, 0), Constant(2, 0), Constant(3, 0), Constant(0, 1)
    return [('Fa', lambda: snode(F(a))), ('Fb', lambda: snode(F(b))), ('Fc', lambda: snode(F(c))), ('Fd', lambda: snode(F(d))), ('Fa1', lambda: snode(F(a1))),
            ('Gab', lambda: snode(G(a, b))), ('Gca', lambda: snode(G(c, a))), ('A@2', lambda: swnode(Atomic(0, 0), 2)), ('A@0', lambda: swnode(Atomic(0, 0), 0)),
            ('R01', lambda: anode(0, 1)), ('R20', lambda: anode(2, 0)), ('Fb@1', lambda: sdwnode(F(b), True, 1)),
            # compounds whose operands share a constant and differ in another (the branch reads the compound's constants, not the atoms')
            ('Fa&Gab', lambda: snode(F(a) & G(a, b))), ('Ex(Gxa&Gac)', lambda: snode(Quantified('Existential', Variable(0, 0), G(Variable(0, 0), a) & G(a, c))))]

def walk_constants(s):
    "the constants occurring in a sentence, by walking its structure (independent of the cached Sentence.constants)"
    from pytableaux.lang import Predicated, Operated, Quantified, Constant
    if isinstance(s, Predicated): return {p for p in s.params if isinstance(p, Constant)}
    if isinstance(s, Operated): return set().union(*[walk_constants(x) for x in s.operands]) if s.operands else set()
    if isinstance(s, Quantified): return walk_constants(s.sentence)
    return set()

def check_real(b):
    "the property on a real branch"
    nc, nw = b.new_constant(), b.new_world()
    consts = set()
    worlds = set()
    for n in b:
        s = n.get('sentence')
        if s is not None: consts |= walk_constants(s)
        worlds |= set(n.worlds())
    if nc in consts: return f'new_constant() = {nc} occurs on the branch'
    if any(w >= nw for w in worlds): return f'new_world() = {nw} but worlds {sorted(worlds)}'
    if set(b.constants) != consts: return f'constants view {sorted(map(str, b.constants))} != {sorted(map(str, consts))}'
    if set(b.worlds) != worlds: return 'worlds view differs'
    return None

def search_histories(depth, copy_points=True, limit=None):
    from pytableaux.proof import Branch
    alpha = _alphabet()
    n = 0; fails = []; distinct = set()
    for k in range(1, depth + 1):
        for seq in itertools.product(range(len(alpha)), repeat=k):
            b = Branch()
            names = [alpha[i][0] for i in seq]
            ok = True
            for j, i in enumerate(seq):
                b.append(alpha[i][1]())
                n += 1
                if copy_points and j == k - 2:
                    c = b.copy()
                    c.append(alpha[seq[-1]][1]())
                    e = check_real(c)
                    if e: fails.append((names[:j + 1] + ['copy'] + [names[-1]], e))
                    e0 = check_real(b)
                    if e0: fails.append((names[:j + 1] + ['(original after copy extended)'], e0))
                e = check_real(b)
                if e:
                    fails.append((names[:j + 1], e)); ok = False; break
            distinct.add((tuple(sorted(map(str, b.constants))), tuple(sorted(b.worlds))))
            if limit and n > limit: return n, len(distinct), fails
    return n, len(distinct), fails

def bounded_histories(ctx, prefix='C06', depth=None):
    depth = depth or (4 if ctx.thorough else 3)
    n, dist, fails = search_histories(depth)
    seen = {}
    for names, e in sorted(fails, key=lambda x: len(x[0])):
        key = tuple(names)
        if any(key[:len(s_)] == s_ for s_ in seen): continue
        seen[key] = e
    mins = sorted(seen, key=len)[:6]
    ctx.bounded_part(evaluations=n, distinct_nontrivial=dist,
                     rule='all append histories over a 14-node alphabet (one- and two-place predications over a,b,c,d,a1, two compounds with overlapping operands; world and access nodes; constants-of-branch by an independent structural walk) with a copy before the last append; distinct = distinct (constants, worlds) end states',
                     bound=f'depth <= {depth}', samples=[dict(history=list(m), failure=seen[m]) for m in mins] or [dict(history=['Fb', 'Fa'], note='example of a history explored; no failure found')], label='real-branch histories')
    for m in mins[:3]:
        clause = f'{prefix}.append.fresh-constant' if 'new_constant' in seen[m] else (f'{prefix}.append.fresh-world' if 'new_world' in seen[m] else f'{prefix}.append.view')
        ctx.bounded_failure(clause, f'real Branch violates freshness after {list(m)}: {seen[m]}', dict(history=list(m)), instance='/'.join(m))

def replay_history(r):
    "search a reaching history on the real Branch for a refuted append obligation"
    n, dist, fails = search_histories(2, limit=None)
    want = 'constant' if 'constant' in r.name else ('world' if 'world' in r.name else None)
    for names, e in fails:
        if want is None or want in e:
            return dict(reproduced=True, detail=f'real Branch: after appending {names}: {e}', history=names,
                        call='b = Branch(); [b.append(n) for n in history]; b.new_constant() in constants-of-branch')
    return dict(reproduced=False, detail=f'no history of length <= 2 over the alphabet violates the clause on the real Branch ({n} appends tried)')

def replay(payload):
    class R_: pass
    r = R_(); r.name = payload['obligation']
    if payload.get('kind') == 'bounded':
        from pytableaux.proof import Branch
        alpha = dict(_alphabet())
        b = Branch()
        for nm in payload['input']['history']:
            if nm == 'copy': b = b.copy()
            elif nm in alpha: b.append(alpha[nm]())
        e = check_real(b)
        return dict(reproduced=bool(e), detail=e or 'holds')
    return replay_history(r)
