"""Contract of the event dispatch every proof-side bookkeeping hangs on (tools/events.py): Listeners.emit, EventsListeners.emit / on /
once / off, EventEmitter.emit / on, Listener.__call__ -- interpreted from the real source over token models.

 emit:  every registered listener is called exactly once, in registration order, with exactly the arguments of the emit; a `once`
        listener is discarded after its call (also when it raises), the others stay; the call count is returned and added to the
        counters; a raising listener ends the emit with its own exception after the counters were updated.
 on / once:  one Listener(cb, once-flag) per callback, appended in order to the event's listeners (the argument normaliser in front of
        them dispatches the three calling conventions to the same method).
"""
from __future__ import annotations
import itertools
from pyvc import source
from pyvc.interp import Interp, Path, explore, Outside, PyExc, SymVal, Contract, GenList
from pyvc.world import World
from pyvc.smt import Obligation, Result

def enum_ob(name, ok, where='', **meta):
    return Obligation(name, True if ok else False, kind='enum', where=where, meta=meta)

class Rec(SymVal):
    "an object with recorded integer counters and given attributes"
    CLS = None          # the real class the record stands for: private helpers it defines are followed from source
    def __init__(s, **attrs): s.attrs = dict(attrs)
    def sym_getattr(s, it, name):
        if name in s.attrs: return s.attrs[name]
        if s.CLS is not None:
            from pyvc.interp import private_helper
            ok, v = private_helper(it, s.CLS, name, s)
            if ok: return v
        raise Outside(f'attribute {name}')
    def sym_setattr(s, it, name, v): s.attrs[name] = v
    def sym_truth(s, it): return True

class Boom(Exception): pass

def events_obligations(ctx, prefix):
    from pytableaux.tools import events as E
    world = World()
    bad = []
    try:
        # ---------------- Listeners.emit
        fn = E.Listeners.__dict__['emit']; fi = source.of_function(fn); where = ctx.under_contract(fi)
        cases = 0
        for k in range(0, 4):
            for onces in itertools.product((False, True), repeat=k):
                for raiser in [None] + list(range(k)):
                    cases += 1
                    calls = []; discarded = []
                    class L(SymVal):
                        def __init__(s, i): s.i = i
                        def __repr__(s): return f'listener{s.i}'
                        def sym_getattr(s, it, n):
                            if n == 'once': return onces[s.i]
                            raise Outside(f'Listener.{n}')
                        def sym_call(s, it, args, kw):
                            calls.append((s.i, tuple(args), dict(kw)))
                            if raiser == s.i: raise PyExc(Boom, ('listener failed',))
                            return 'a truthy result the emitter must ignore'
                    ls = [L(i) for i in range(k)]
                    class LS(Rec):
                        CLS = E.Listeners
                        def sym_iter(s, it): return list(ls)
                        def sym_getattr(s, it, n):
                            if n == 'discard': return Contract(lambda it, x: discarded.append(x), 'linqset.discard')
                            return super().sym_getattr(it, n)
                    me = LS(emitcount=5, callcount=7)
                    a1, a2 = object(), object()
                    it = Interp(Path([]), world)
                    try:
                        r = it.call_source(fi, fn, E.Listeners, [me, a1], dict(key=a2)); exc = None
                    except PyExc as e: r = None; exc = e
                    upto = k if raiser is None else raiser + 1
                    okc = [c[0] for c in calls] == list(range(upto)) and all(c[1] == (a1,) and c[2] == dict(key=a2) for c in calls)
                    okd = [d.i for d in discarded] == [i for i in range(upto) if onces[i]]
                    done = k if raiser is None else raiser
                    okn = me.attrs['emitcount'] == 6 and me.attrs['callcount'] == 7 + done and ((r == k and exc is None) if raiser is None else (exc is not None and exc.cls is Boom))
                    if not (okc and okd and okn): bad.append(f'{k} listeners once={onces} raising={raiser}: calls {[c[0] for c in calls]}, discarded {[d.i for d in discarded]}, returned {r}, counters {me.attrs}')
        ctx.add(enum_ob(f'{prefix}.events.Listeners.emit', not bad, where, cases=cases, cex=dict(bad=bad[:4]) if bad else None,
                        clause='emit(*a, **k) calls every listener once, in order, with exactly (*a, **k); once-listeners are discarded after their call (also when it raises); returns and adds the number of completed calls'))
        # ---------------- EventsListeners.emit, EventEmitter.emit
        bad = []
        fn = E.EventsListeners.__dict__['emit']; fi = source.of_function(fn); where = ctx.under_contract(fi)
        seen = []
        lst = Rec(emit=Contract(lambda it, *a, **k: (seen.append((a, k)), 3)[1], 'Listeners.emit'))
        class EL(Rec):
            CLS = E.EventsListeners
            def sym_getitem(s, it, ev):
                if ev == 'EV': return lst
                raise PyExc(KeyError, (ev,))
        me = EL(emitcount=1, callcount=10); a1 = object()
        it = Interp(Path([]), world)
        r = it.call_source(fi, fn, E.EventsListeners, [me, 'EV', a1], dict(key=2))
        if r != 3 or seen != [((a1,), dict(key=2))] or me.attrs != dict(emitcount=2, callcount=13): bad.append(f'EventsListeners.emit: returned {r}, forwarded {seen}, counters {me.attrs}')
        fn2 = E.EventEmitter.__dict__['emit']; fi2 = source.of_function(fn2); ctx.under_contract(fi2)
        seen2 = []
        me2 = Rec(events=Rec(emit=Contract(lambda it, *a, **k: (seen2.append((a, k)), 4)[1], 'EventsListeners.emit')))
        r2 = it.call_source(fi2, fn2, E.EventEmitter, [me2, 'EV', a1], dict(key=2))
        if r2 != 4 or seen2 != [(('EV', a1), dict(key=2))]: bad.append(f'EventEmitter.emit: returned {r2}, forwarded {seen2}')
        ctx.add(enum_ob(f'{prefix}.events.emit-dispatch', not bad, where, cex=dict(bad=bad[:4]) if bad else None,
                        clause='EventEmitter.emit(event, *a, **k) = events.emit(event, *a, **k) = events[event].emit(*a, **k), counters updated by the returned call count'))
        # ---------------- Listener.__call__
        bad = []
        fn = E.Listener.__dict__['__call__']; fi = source.of_function(fn); where = ctx.under_contract(fi)
        got = []
        me = Rec(cb=Contract(lambda it, *a, **k: (got.append((a, k)), 'result')[1], 'callback'), callcount=2, once=False)
        r = it.call_source(fi, fn, E.Listener, [me, a1], dict(key=2))
        if r != 'result' or got != [((a1,), dict(key=2))] or me.attrs['callcount'] != 3: bad.append(f'Listener.__call__: {r}, {got}, {me.attrs["callcount"]}')
        ctx.add(enum_ob(f'{prefix}.events.Listener.__call__', not bad, where, cex=dict(bad=bad) if bad else None, clause='a listener calls its callback with exactly the arguments it was given and returns its result'))
        # ---------------- on / once (the methods behind the argument normaliser)
        bad = []
        for nm, flag in (('on', False), ('once', True)):
            wrapped = E.EventsListeners.__dict__[nm]
            fn = getattr(wrapped, '__wrapped__', None)
            if fn is None: raise Outside(f'EventsListeners.{nm} is not the normaliser around a plain method')
            fi = source.of_function(fn); where = ctx.under_contract(fi)
            made = []
            w2 = World()
            w2.contract(E.Listener, lambda it, cb, once=False: (made.append((cb, once)), ('listener', cb, once))[1], name='Listener(cb, once)')
            ext = []
            class EL2(Rec):
                CLS = E.EventsListeners
                def sym_getitem(s, it, ev):
                    if ev == 'EV': return Rec(extend=Contract(lambda it, xs: ext.extend(it.iterate(xs)), 'linqset.extend'))
                    raise PyExc(KeyError, (ev,))
            cb1, cb2 = object(), object()
            Interp(Path([]), w2).call_source(fi, fn, E.EventsListeners, [EL2(), 'EV', cb1, cb2], {})
            if ext != [('listener', cb1, flag), ('listener', cb2, flag)]: bad.append(f'{nm}: registered {ext}')
        # the normaliser: (event, *cbs), ({event: cb | cbs}), (**{event: cbs}) all reach method(self, event, *cbs)
        fiw = None
        for q in ('EventsListeners.normargs.f',):
            try: fiw = source.get('pytableaux/tools/events.py', q)
            except Exception: fiw = None
        if fiw is not None:
            ctx.under_contract(fiw)
            real = E.EventsListeners()
            real.create('EV', 'EW')
            c1, c2 = (lambda *a: None), (lambda *a: None)
            real.on('EV', c1, c2); real.on({'EW': c1}); real.once(EW=(c2,))
            got = {ev: [(l.cb, l.once) for l in real[ev]] for ev in real}
            if got != {'EV': [(c1, False), (c2, False)], 'EW': [(c1, False), (c2, True)]}: bad.append(f'normaliser (run on the real class): {got}')
        ctx.add(enum_ob(f'{prefix}.events.on-once', not bad, where, cex=dict(bad=bad[:4]) if bad else None,
                        clause='on / once append one Listener(cb, once-flag) per callback, in order, to the event\'s listeners; the three calling conventions register the same listeners'))
    except Outside as e:
        ctx.add_result(Result(f'{prefix}.events', 'unknown', detail=f'outside subset: {e}'))

def replay_events(r):
    from pytableaux.tools.events import EventEmitter
    out = []
    class Em(EventEmitter):
        def __init__(s): super().__init__('EV')
    for onces in itertools.product((False, True), repeat=3):
        em = Em(); log = []
        cbs = [(lambda *a, i=i, **k: log.append((i, a, k))) for i in range(3)]
        for cb, o in zip(cbs, onces): (em.once if o else em.on)('EV', cb)
        n1 = em.emit('EV', 1, x=2); n2 = em.emit('EV', 3)
        want = [(i, (1,), dict(x=2)) for i in range(3)] + [(i, (3,), {}) for i in range(3) if not onces[i]]
        if log != want or n1 != 3 or n2 != sum(1 for o in onces if not o): out.append(f'once={onces}: calls {[(c[0], c[1]) for c in log]}, counts {n1}, {n2}')
    return dict(reproduced=bool(out), detail='; '.join(out[:3]) or 'every listener is called once per emit, in order')

def register_replayers(ctx, prefix):
    ctx.replayers[f'{prefix}.events.'] = replay_events
