"""C03 — propositional arguments are decided exactly, without limits."""
from __future__ import annotations
import ast, os, random
import z3
from pyvc import source, REPO
from pyvc.interp import Outside
from pyvc.smt import Obligation, Result, discharge
from pyvc.par import pmap
from checks import rulesem as RS, structs
from spec import semantics as S, evaluate as E

def enum_ob(name, ok, where='', **meta):
    return Obligation(name, True if ok else False, kind='enum', where=where, meta=meta)

# ------------------------------------------------------------------ termination measure (ghost found by the solver)

def weight_terms(term, c, k):
    "weight of a schema term as (const, coeff_A, coeff_B) z3 ints: mu(op(x..)) = c_op + k_op * sum(mu(x))"
    if term.kind == 'atom':
        return (z3.IntVal(0), z3.IntVal(1 if term.a == 'A' else 0), z3.IntVal(1 if term.a == 'B' else 0))
    if term.kind != 'op': raise Outside('non-propositional term in an operator schema')
    subs = [weight_terms(x, c, k) for x in term.b]
    tot = [sum(s[i] for s in subs) for i in range(3)]
    o = term.a.name
    return (c[o] + k[o] * tot[0], k[o] * tot[1], k[o] * tot[2])

def work_logic(lname):
    logic = RS.registry()(lname)
    L = logic.Meta.name
    results, funcs = [], {}
    ops = [o for o in S.OPERATORS]
    c = {o: z3.Int(f'c_{o}') for o in ops}
    k = {o: z3.Int(f'k_{o}') for o in ops}
    delta = z3.Int('delta_undesignated')
    cons = [delta >= 0, delta <= 4000]
    for o in ops: cons += [c[o] >= 1, c[o] <= 4000, k[o] >= 1, k[o] <= 40]
    nrules = 0
    bad_schema = []
    for rc in RS.rule_classes(logic):
        if RS.classify(rc) != 'operator': continue
        sc = RS.schema(logic, rc)
        for fi in sc.funcs: funcs[fi.key] = dict(file=fi.relfile, qualname=fi.qualname, lines=f'{fi.lineno}-{fi.end_lineno}', sha1=fi.sha1)
        if sc.error: bad_schema.append(f'{rc.__name__}: {sc.error}'); continue
        try:
            groups, _ = RS._groups_of(sc)
            wn = weight_terms(sc.node_sentence, c, k)
            dn = delta if sc.designation is False else 0
            for g in groups:
                for nd in g:
                    wa = weight_terms(nd.props['sentence'], c, k)
                    da = delta if nd.props.get('designated') is False else 0
                    # coefficient of each operand weight does not grow, and the value at operand weights 1 strictly drops
                    cons += [wn[1] >= wa[1], wn[2] >= wa[2], wn[0] + wn[1] + wn[2] + dn > wa[0] + wa[1] + wa[2] + da]
            nrules += 1
        except Outside as e:
            bad_schema.append(f'{rc.__name__}: {e}')
        # ticking
        results.append(discharge(enum_ob(f'C03.ticking.{L}.{rc.__name__}', rc.ticking is True, cex=dict(ticking=rc.ticking))))
    if bad_schema:
        results.append(Result(f'C03.weight.{L}', 'unknown', detail='; '.join(bad_schema[:3])))
    else:
        def dec(m):
            return dict(c={o: m[c[o]].as_long() for o in ops if m[c[o]] is not None}, k={o: m[k[o]].as_long() for o in ops if m[k[o]] is not None},
                        delta=(m[delta].as_long() if m[delta] is not None else 0))
        results.append(discharge(Obligation(f'C03.weight.{L}', None, hyps=cons, kind='exists', decode=dec,
                                            meta=dict(logic=L, rules=nrules, shape='mu(op(x,y)) = c_op + k_op*(mu x + mu y), + delta on undesignated nodes',
                                                      cex=dict(note='no linear measure makes every operator rule of this logic strictly decreasing')))))
    return results, funcs

# ------------------------------------------------------------------ bounded decide cross-check

def _decide_chunk(job):
    lname, argstrs, optsets = job[:3]
    import time as _time
    deadline = job[3] if len(job) > 3 else 10 ** 12      # absolute wall-clock deadline of the bounded part: what is not reached is not counted
    from pytableaux.lang import Argument
    from bounded import prover as P, args as A_
    logic = RS.registry()(lname)
    sem = S.spec_of(logic.Meta.name)
    out = []
    n = 0
    stalls = 0
    for i, astr in enumerate(argstrs):
        if _time.time() > deadline: break
        arg = Argument(astr)
        want, cm = E.tt_valid(sem, arg.premises, arg.conclusion)
        opts = optsets[i % len(optsets)]
        if i % 5 == 4: arg = A_.hostile(arg)         # every fifth argument: no two equal sentences/parameters share an object
        o, tab = P.outcome(logic, arg, **opts)
        n += 1
        if o == 'harness-limit':
            # the harness's own cap (1500 steps / 1.5 s) is not a verdict (three-branching logics are slow under load);
            # a chunk that keeps stalling is abandoned so that the check stays bounded in time.
            stalls += 1
            if stalls >= 6: break
            continue
        if o not in ('valid', 'invalid') or (o == 'valid') != want:
            out.append(dict(logic=logic.Meta.name, argument=astr, options=opts, outcome=o, truth_table_valid=want, countermodel=cm))
    return n, out

OPTS = [dict(is_group_optim=True, is_rank_optim=True), dict(is_group_optim=False, is_rank_optim=True),
        dict(is_group_optim=True, is_rank_optim=False), dict(is_group_optim=False, is_rank_optim=False)]

def bounded_decide(ctx):
    from bounded import args as A
    rnd = random.Random(ctx.seed)
    small = [a.argstr() for a in A.exhaustive_prop_arguments(1)]
    mid = [a.argstr() for a in A.exhaustive_prop_arguments(2)]
    names = [RS.registry()(n).Meta.name for n in RS.registry()]
    jobs = []
    for L in names:
        if ctx.thorough:
            sample = mid + [A.random_argument(rnd, 'prop', depth=4).argstr() for _ in range(150)]
        else:
            sample = small + rnd.sample(mid, 40) + [A.random_argument(rnd, 'prop', depth=3, max_premises=1).argstr() for _ in range(10)]
        for i in range(0, len(sample), 200):
            jobs.append((L, sample[i:i + 200], OPTS))
    import time as _time
    deadline = _time.time() + (2400 if ctx.thorough else 240)
    rnd.shuffle(jobs)                                  # so that a run that meets its deadline has sampled every logic
    jobs = [j + (deadline,) for j in jobs]
    total = 0; fails = []
    for n, out in pmap(_decide_chunk, jobs):
        total += n; fails += out
    distinct = min(len({(j[0], a) for j in jobs for a in j[1]}), total)      # pairs actually evaluated (a chunk may stop at its time budget)
    ctx.bounded_part(evaluations=total, distinct_nontrivial=distinct,
                     rule='propositional arguments (exhaustive up to 1 connective, sampled/exhaustive up to 2, seeded random deeper) x 57 logics, option combinations rotated; verdict of the real prover vs truth-table validity computed from spec/; distinct = distinct (logic, argument) pairs',
                     bound=('exhaustive <= 2 connectives + 150 random depth<=4 per logic, in shuffled chunks of 200 arguments under a 2400 s deadline (evaluations counts what was actually run)' if ctx.thorough else 'exhaustive <= 1 connective + 40 sampled of <= 2 + 10 random depth<=3 per logic; harness caps (1500 steps / 1.5 s) are skipped, not counted as verdicts; the whole stand-in stops at a 240 s deadline (chunks are shuffled so every logic is sampled)'),
                     samples=[dict(logic='K3', argument=small[5]), dict(logic='S4', argument=mid[100])] + fails[:3], label='decide')
    for f in fails:
        ctx.bounded_failure(f"C03.decide.{f['logic']}", f"prover says {f['outcome']} but truth-table validity is {f['truth_table_valid']} for {f['argument']} with {f['options']}", f, instance=f['argument'])

def run(ctx):
    ctx.level = 'other'
    ctx.drop('type annotations', 'docstrings')
    ctx.trust('paper lemma L-DECIDE = L-SOUND + L-HINTIKKA + L-TERM restricted to operator rules (DESIGN.md §4): the verdict equals truth-table validity when every operator rule is exact (C04), ticking and strictly decreasing under the synthesised measure',
              'FilterNodeCache drops ticked nodes; Tableau.next returns None only when no rule has a target (C02 saturation contracts)',
              'spec/semantics.py (the oracle)')
    ctx.assume('the termination measure is linear per operator with an offset for undesignated nodes; its existence (sat) is a certificate, its non-existence (unsat) only means "no measure of this shape"',
               'frame rules on modality-free input add finitely many access nodes: covered by the bounded run only (no limit outcome observed), not proved')
    ctx.explanation = ('Proved/ground: a per-logic termination measure synthesised by z3 from the interpreted operator-rule schemas; every operator rule ticks; '
                       'AdzHelper._apply (interpreted from source) ticks the node on every resulting branch; exactly one rule per propositional shape (C04 shape '
                       'obligations re-checked here); quit flags can only come from quantifier/modal rules; limits default to None.  The step from these local '
                       'conditions to "decision procedure" is the paper lemma L-DECIDE.  Bounded: prover verdict vs independent truth-table validity.')
    names = [RS.registry()(n).Meta.name for n in RS.registry()]
    for res, funcs in pmap(work_logic, names):
        for r in res: ctx.add_result(r)
        ctx.functions.update(funcs)
    structs.adz_apply_obligations(ctx, 'C03')
    # premise of completeness: a closure rule's lookup finds the contradicting node when it is on the branch (branch index contract)
    from checks import index_ob
    index_ob.index_obligations(ctx, 'C03.index')
    index_ob.register_replayers(ctx, 'C03.index')
    # the step loop: Rule.target / Tableau.next return a target whenever some rule has one, for both values of every option
    from checks import selection
    selection.rule_target_obligations(ctx, 'C03')
    selection.next_obligations(ctx, 'C03')
    # rule exactness and shape coverage for the operator fragment (from C04's generator)
    from checks import c04
    for res, funcs in pmap(_operator_exactness, names):
        for r in res: ctx.add_result(r)
        ctx.functions.update(funcs)
    # no limit can arise on this fragment
    sites = quit_flag_sites()
    allowed = {'pytableaux/proof/rules.py:NarrowQuantifierRule._get_targets', 'pytableaux/proof/rules.py:ModalOperatorRule._check_maxworlds'}
    ctx.add(enum_ob('C03.no-limit.quit-flag-sites', set(sites) <= allowed and len(sites) >= 2, sites=sorted(sites), cex=dict(sites=sorted(sites)),
                    clause='quit_flag() is called only from quantifier / modal rule target producers'))
    from pytableaux.proof import Tableau
    ctx.add(enum_ob('C03.no-limit.defaults', Tableau.defaults['max_steps'] is None and Tableau.defaults['build_timeout'] is None,
                    cex=dict(defaults=dict(Tableau.defaults)), clause='no step/time limit unless the caller asks for one'))
    bounded_decide(ctx)
    def _rule_replay(r):
        from checks import c04
        return c04.replay(dict(obligation=r.name, counterexample=r.cex, meta=r.meta))
    ctx.replayers['C03.'] = _rule_replay
    ctx.replayers['C03.AdzHelper.'] = replay_apply
    ctx.replayers['C03.Tableau.branch'] = replay_apply
    ctx.replayers['C03.fork.'] = replay_apply

def _operator_exactness(lname):
    "re-report the operator-rule exactness and shape obligations under C03 names"
    from checks import c04
    res, funcs = c04.work_logic(lname)
    out = []
    for r in res:
        parts = r.name.split('.')
        keep = False
        if len(parts) >= 4 and parts[2] == 'shape' and parts[3] in S.OPERATORS: keep = True
        if r.meta.get('kind') == 'operator' and parts[-1] in ('forward', 'backward'): keep = True
        if keep:
            r.name = 'C03.' + r.name[len('C04.'):]
            out.append(r)
    return out, funcs

def quit_flag_sites():
    sites = []
    root = os.path.join(REPO, 'pytableaux')
    for dp, dn, fn in os.walk(root):
        for f in fn:
            if not f.endswith('.py'): continue
            rel = os.path.relpath(os.path.join(dp, f), REPO)
            tree = ast.parse(open(os.path.join(dp, f), encoding='utf-8').read())
            def rec(node, stack):
                for ch in ast.iter_child_nodes(node):
                    if isinstance(ch, (ast.ClassDef, ast.FunctionDef)):
                        rec(ch, stack + [ch.name])
                    else:
                        if isinstance(ch, ast.Call) and isinstance(ch.func, ast.Attribute) and ch.func.attr == 'quit_flag':
                            sites.append(f'{rel}:{".".join(stack)}')
                        rec(ch, stack)
            rec(tree, [])
    return sites

def replay(payload):
    from pytableaux.lang import Argument
    from bounded import prover as P
    if payload.get('kind') == 'bounded':
        f = payload['input']
        logic = RS.registry()(f['logic'])
        sem = S.spec_of(f['logic'])
        arg = Argument(f['argument'])
        o, _ = P.outcome(logic, arg, **f['options'])
        want, cm = E.tt_valid(sem, arg.premises, arg.conclusion)
        return dict(reproduced=(o not in ('valid', 'invalid') or (o == 'valid') != want), detail=f"{f['logic']} {f['argument']}: prover {o}, truth table valid={want}, countermodel={cm}")
    return dict(reproduced=None, detail='see counterexample / meta')


def replay_apply(r):
    "arguments that make a three-way rule fork twice on one branch (nodes shared by sibling lineages): verdict against truth-table validity"
    from pytableaux.lang import Argument
    from bounded import prover as P
    from spec import evaluate as E
    out = []
    args = ['Kcb:Abc:Aaa:AaNb:ANaNa', 'Kab:Aab:Acc:AcNa:ANcNc', 'b:Aab:Aaa:ANaNa:AaNb', 'Kcb:Abc:Aaa:AaNb']
    for L in ('K3W', 'B3E', 'P3', 'MH', 'NH', 'KK3W'):
        lg = RS.registry()(L); sem = S.spec_of(L)
        for a in args:
            arg = Argument(a)
            want = E.tt_valid(sem, arg.premises, arg.conclusion)
            for opts in (dict(), dict(is_rank_optim=False, is_group_optim=False)):
                o = P.outcome(lg, arg, **opts)[0]
                if o in ('valid', 'invalid') and (o == 'valid') != bool(want): out.append(f'{L} {a} {opts}: prover says {o}, truth tables say {"valid" if want else "invalid"}')
    return dict(reproduced=bool(out), detail='; '.join(out[:3]) or 'verdicts agree with the truth tables')
