"""C13 — parsers accept only closed well-formed sentences and fail only with ParseError."""
from __future__ import annotations
import itertools, random
import z3
from pyvc import source
from pyvc.interp import Interp, explore, Outside, PyExc, SymVal, Contract
from pyvc.smt import Obligation, Result
from pyvc.par import pmap
from contracts import parsing as PM
from contracts.parsing import CtxM, CT, INTAB, WS, VarV, SentVars
from spec import notation as N

def enum_ob(name, ok, where='', **meta):
    return Obligation(name, True if ok else False, kind='enum', where=where, meta=meta)

def run_ctx(ctx, meth, args_fn=lambda c: (), pre=None, notes=None):
    world = PM.parsing_world()
    holder = []; fis = []
    def run(path):
        it = Interp(path, world)
        c = CtxM('c')
        for h in c.wf(): path.assume(h)
        for h in (pre(c) if pre else []): path.assume(h)
        if notes: notes(path, c)
        old = dict(pos=c.pos, bound=c.bound.S)
        bs = c.sym_getattr(it, meth); fis.append(bs.fi)
        holder.append((path, c, old))
        return it.call(bs, list(args_fn(c)), {})
    prs = explore(run)
    byp = {id(p): (c, o) for p, c, o in holder}
    out = [(pr,) + byp[id(pr.path)] for pr in prs]
    for pr, c, o in out:
        for f in c.inlined.values(): ctx.under_contract(f)
    return fis[0], out

def clause(paths, post, raises=None):
    cl = []
    for pr, c, old in paths:
        if pr.kind == 'cut': continue
        if pr.kind == 'raise': cl.append(z3.Implies(pr.pc, raises(pr, c, old) if raises else z3.BoolVal(False)))
        else: cl.append(z3.Implies(pr.pc, post(pr, c, old)))
    return z3.And(*cl) if cl else z3.BoolVal(False)

def path_obligations(ctx, paths, prefix, where, hyps):
    "loop obligations (init / preserve / variant) recorded along the paths"
    by = {}
    for pr, c, old in paths:
        for name, pc, goal, meta in pr.path.obligations:
            by.setdefault(name, []).append(z3.Implies(z3.And(*pc) if pc else z3.BoolVal(True), goal))
    for name, cls in sorted(by.items()):
        ctx.add(Obligation(f'{prefix}.{name}', z3.And(*cls), hyps=hyps, where=where, meta=dict(clause='loop obligation generated from the sidecar invariant/variant')))

def run(ctx):
    from pytableaux.errors import ParseError, BoundVariableError, UnboundVariableError
    ctx.level = 'other'
    ctx.drop('type annotations', 'docstrings')
    ctx.trust('the parse table is abstracted by two uninterpreted functions of the code point (membership, type); ParseTable is an immutable MapCover',
              'str indexing raises IndexError exactly outside [-len, len); dict lookup raises KeyError exactly for absent keys; set.remove raises KeyError for absent members',
              'the prefix readers (DefaultParser._read*, PolishParser._read_operated) are each verified against a contract with the other readers under theirs (C13.reader.*): only ParseError escapes, progress, bound set restored, returned variables bound; StandardParser\'s infix / parenthesis readers and the denotation (which sentence is built) are bounded (exhaustive short strings and structured families against the reference grammar)')
    ctx.assume('recursion depth is outside the exception model (bounded: nesting up to 300 / 2000)', 'CPython semantics of the interpreted subset as encoded by pyvc/interp.py')
    ctx.explanation = ('Proved (ParseContext, interpreted from source over an SMT array input): current/next/has_current/has_next/assert_current/assert_end/advance never raise anything but ParseError and keep '
                       '0 <= pos; chomp has a loop invariant (only blanks skipped) and a variant (len - pos), ends at a non-blank or at the end, and swallows its IndexError; bind/check_bound/unbind implement '
                       'the bound-variable discipline exactly.  Bounded: both parsers against an independent reference grammar on every string of length <= 4 (quick) / 5 (thorough) over a reduced alphabet plus '
                       'foreign characters, with empty and pre-declared predicate stores, plus history sequences, deep nesting and the digit-limit input.')
    c0 = CtxM('c')
    H = c0.wf()
    # ---------------- chomp
    try:
        fi, paths = run_ctx(ctx, 'chomp', pre=lambda c: [c.pos <= c.input.n], notes=lambda path, c: path.notes.__setitem__('chomp_pos0', c.pos))
        where = fi.where
        k = z3.Int('k!post')
        def post(pr, c, old):
            at = c.input.A[c.pos]
            return z3.And(old['pos'] <= c.pos, c.pos <= c.input.n, z3.BoolVal(pr.value is c),
                          z3.ForAll([k], z3.Implies(z3.And(old['pos'] <= k, k < c.pos), z3.And(INTAB(c.input.A[k]), CT(c.input.A[k]) == WS))),
                          z3.Or(c.pos == c.input.n, z3.Not(z3.And(INTAB(at), CT(at) == WS))))
        ctx.add(Obligation('C13.ParseContext.chomp.post', clause(paths, post), hyps=H + [c0.pos <= c0.input.n], where=where,
                           meta=dict(clause='chomp never raises, skips only blanks, stops at the first non-blank or at the end, returns self')))
        path_obligations(ctx, paths, 'C13.ParseContext', where, H + [c0.pos <= c0.input.n])
    except Outside as e:
        ctx.add_result(Result('C13.ParseContext.chomp.post', 'unknown', detail=f'outside subset: {e}'))
    # ---------------- straight-line primitives
    def simple(name, meth, post, raises=None, args_fn=lambda c: (), pre=None, clause_text=''):
        try:
            fi, paths = run_ctx(ctx, meth, args_fn=args_fn, pre=pre)
            ctx.add(Obligation(name, clause(paths, post, raises), hyps=H + (pre(c0) if pre else []), where=fi.where, meta=dict(clause=clause_text)))
        except Outside as e:
            ctx.add_result(Result(name, 'unknown', detail=f'outside subset: {e}'))
    same = lambda c, old: z3.And(c.pos == old['pos'], c.bound.S == old['bound'])
    simple('C13.ParseContext.current', 'current', lambda pr, c, old: z3.And(same(c, old), (z3.BoolVal(pr.value is None) == (c.pos >= c.input.n))),
           clause_text='current() is None exactly after the last character and never raises')
    n = z3.Int('n_arg')
    simple('C13.ParseContext.next', 'next', lambda pr, c, old: z3.And(same(c, old), z3.Implies(n >= 0, z3.BoolVal(pr.value is None) == (c.pos + n >= c.input.n))), args_fn=lambda c: (n,),
           clause_text='next(n) is None exactly when pos+n is past the end (n >= 0) and never raises')
    simple('C13.ParseContext.has_current', 'has_current', lambda pr, c, old: z3.And(same(c, old), pr.value == (c.input.n > c.pos)), clause_text='has_current() iff pos < len')
    simple('C13.ParseContext.has_next', 'has_next', lambda pr, c, old: z3.And(same(c, old), pr.value == (c.input.n > c.pos + n)), args_fn=lambda c: (n,), clause_text='has_next(n) iff pos+n < len')
    simple('C13.ParseContext.assert_end', 'assert_end', lambda pr, c, old: z3.And(same(c, old), c.pos >= c.input.n),
           lambda pr, c, old: z3.And(z3.BoolVal(issubclass(pr.value.cls, ParseError)), c.pos < c.input.n, same(c, old)), clause_text='assert_end raises ParseError exactly when input remains')
    simple('C13.ParseContext.assert_current', 'assert_current', lambda pr, c, old: z3.And(same(c, old), c.pos < c.input.n),
           lambda pr, c, old: z3.And(z3.BoolVal(issubclass(pr.value.cls, ParseError)), c.pos >= c.input.n, same(c, old)),
           clause_text='assert_current raises ParseError exactly at the end of input; an unknown symbol yields type None, not KeyError')
    simple('C13.ParseContext.advance', 'advance', lambda pr, c, old: z3.And(c.pos >= old['pos'] + n, c.bound.S == old['bound'], z3.BoolVal(pr.value is c)), args_fn=lambda c: (n,),
           pre=lambda c: [n >= 1, c.pos + n <= c.input.n], clause_text='advance(n) moves forward by at least n (progress) and never raises')
    # ---------------- bound-variable discipline
    v = VarV(z3.Int('v.key'))
    simple('C13.ParseContext.bind', 'bind', lambda pr, c, old: z3.And(z3.Not(z3.IsMember(v.key, old['bound'])), c.bound.S == z3.SetAdd(old['bound'], v.key), c.pos == old['pos'], z3.BoolVal(pr.value is v)),
           lambda pr, c, old: z3.And(z3.BoolVal(issubclass(pr.value.cls, BoundVariableError) and issubclass(pr.value.cls, ParseError)), z3.IsMember(v.key, old['bound']), same(c, old)), args_fn=lambda c: (v,),
           clause_text='bind(v) adds v unless already bound (then BoundVariableError, a ParseError)')
    simple('C13.ParseContext.check_bound', 'check_bound', lambda pr, c, old: z3.And(z3.IsMember(v.key, old['bound']), same(c, old), z3.BoolVal(pr.value is v)),
           lambda pr, c, old: z3.And(z3.BoolVal(issubclass(pr.value.cls, UnboundVariableError) and issubclass(pr.value.cls, ParseError)), z3.Not(z3.IsMember(v.key, old['bound'])), same(c, old)), args_fn=lambda c: (v,),
           clause_text='check_bound(v) raises UnboundVariableError (a ParseError) exactly for unbound v')
    sv = z3.Const('s.vars', z3.SetSort(z3.IntSort()))
    s = SentVars(sv)
    simple('C13.ParseContext.unbind', 'unbind', lambda pr, c, old: z3.And(z3.IsMember(v.key, old['bound']), z3.IsMember(v.key, sv), c.bound.S == z3.SetDel(old['bound'], v.key), c.pos == old['pos']),
           lambda pr, c, old: z3.And(z3.BoolVal(issubclass(pr.value.cls, ParseError)), z3.Or(z3.Not(z3.IsMember(v.key, old['bound'])), z3.Not(z3.IsMember(v.key, sv))), same(c, old)), args_fn=lambda c: (v, s),
           clause_text='unbind(v, s) removes v iff it is bound and occurs in s; otherwise a ParseError and no change (no vacuous quantifier)')
    from checks import readers
    readers.reader_obligations(ctx)
    readers.store_obligations(ctx)
    hierarchy(ctx)
    bounded_strings(ctx)
    bounded_scope(ctx)
    bounded_misc(ctx)
    ctx.replayers['C13.'] = lambda r: dict(reproduced=None, detail='see counterexample / meta')
    ctx.replayers['C13.store.'] = readers.replay_store

def hierarchy(ctx):
    from pytableaux import errors as Er
    ok = all(issubclass(getattr(Er, nme), Er.ParseError) for nme in ('UnboundVariableError', 'BoundVariableError', 'UndefinedPredicateError'))
    ctx.add(enum_ob('C13.errors.hierarchy', ok, clause='UnboundVariableError, BoundVariableError and UndefinedPredicateError are ParseErrors', cex={}))

def _chunk(job):
    notation, strings, preds, auto = job
    from bounded import parsing as BP
    bad = []; stuck = 0
    for s in strings:
        d = BP.compare(notation, s, preds, auto)
        if d: bad.append((s, d))
        if d and 'does-not-return' in d:
            stuck += 1
            if stuck >= 3: break          # a parser that does not return on these inputs will not return on the rest either
    return len(strings), bad

def bounded_strings(ctx):
    from bounded import parsing as BP
    maxlen = 5 if ctx.thorough else 4
    jobs = []
    total_distinct = 0
    stores = [({}, True), ({(0, 0): 2, (1, 0): 1}, True), ({(0, 0): 1}, False)]
    for notation in ('polish', 'standard'):
        strings = list(BP.exhaustive_strings(notation, maxlen))
        total_distinct += len(strings)
        for preds, auto in stores:
            sample = strings if (preds == {} or ctx.thorough) else strings[:len(strings) // 6]
            for i in range(0, len(sample), 20000):
                jobs.append((notation, sample[i:i + 20000], preds, auto))
    total = 0; fails = []
    for job, (n, bad) in zip(jobs, pmap(_chunk, jobs)):
        total += n
        for s, d in bad: fails.append(dict(notation=job[0], input=s, predicates={f'{k[0]},{k[1]}': v for k, v in job[2].items()}, auto_preds=job[3], problem=d))
    ctx.bounded_part(evaluations=total, distinct_nontrivial=total_distinct, rule='every string over a reduced alphabet (2 symbols per token class, digits, blank, two foreign characters) parsed by the real parser and by the independent reference grammar: same accept/reject, only ParseError, same denotation, returned sentence closed/non-vacuous/arity-correct, same predicate store afterwards; three predicate-store configurations; distinct = distinct strings',
                     bound=f'length <= {maxlen}, both notations', samples=[dict(notation='polish', input='SxFx'), dict(notation='standard', input='(A&B)')] + fails[:3], label='exhaustive short strings')
    seen = set()
    for f in fails:
        key = (f['notation'], f['problem'].split(':')[0][:30])
        if key in seen: continue
        seen.add(key)
        ctx.bounded_failure(f"C13.bounded.{f['notation']}", f"{f['notation']} parser on {f['input']!r}: {f['problem']}", f, instance=repr(f['input']))

def bounded_scope(ctx):
    "binding discipline: trees built without regard to scoping, rendered in both notations, real parser vs reference grammar"
    from bounded import parsing as BP
    preds = {(0, 0): 1, (1, 0): 2}
    jobs = []; distinct = 0
    for notation in ('polish', 'standard'):
        strings = sorted({N.render(notation, t) for t in BP.scope_family(2)})
        distinct += len(strings)
        for i in range(0, len(strings), 4000): jobs.append((notation, strings[i:i + 4000], preds, False))
    total = 0; fails = []
    for job, (n, bad) in zip(jobs, pmap(_chunk, jobs)):
        total += n
        for s_, d in bad: fails.append(dict(notation=job[0], input=s_, predicates={f'{k[0]},{k[1]}': v for k, v in job[2].items()}, auto_preds=False, problem=d))
    ctx.bounded_part(evaluations=total, distinct_nontrivial=distinct, rule='every tree of depth <= 2 (plus one unary layer) over 8 leaves (Fx, Fy, Fm, Gxy, Gxm, x=x, y=m, a), negation, the prefixes (all x) (all y) (some x) and conjunction, built WITHOUT regard to scoping and rendered in both notations: the real parser accepts exactly the closed, non-vacuous, singly-bound ones (reference grammar), with the same denotation, and rejects the rest with ParseError; distinct = distinct strings',
                     bound='tree depth 2 + one unary layer, both notations', samples=[dict(notation='polish', input='KVxFxVxFm'), dict(notation='standard', input='(LxFx&LxFa)')] + fails[:3], label='binding discipline on structured inputs')
    seen = set()
    for f in fails:
        key = (f['notation'], f['problem'].split(':')[0][:30])
        if key in seen: continue
        seen.add(key)
        ctx.bounded_failure(f"C13.bounded.scope.{f['notation']}", f"{f['notation']} parser on {f['input']!r}: {f['problem']}", f, instance=repr(f['input']))

def bounded_misc(ctx):
    "history independence, deep nesting, digit limit, random mutated strings"
    from bounded import parsing as BP
    from pytableaux.lang import Parser, Predicates
    from pytableaux.errors import ParseError
    rnd = random.Random(ctx.seed)
    n = 0; fails = []
    for notation in ('polish', 'standard'):
        # history: a parser that parsed other things first gives the same answer as a fresh one with an equal store
        for _ in range(300 if ctx.thorough else 80):
            store = {}
            asts = [BP.random_ast(rnd, notation, rnd.randint(0, 3), (), store) for _ in range(3)]
            texts = [N.render(notation, a) for a in asts]
            # mutate one
            t = list(texts[2])
            if t and rnd.random() < 0.5: t[rnd.randrange(len(t))] = rnd.choice(BP.REDUCED[notation])
            texts[2] = ''.join(t)
            p = Parser(notation, Predicates(), auto_preds=True)
            outs = []
            from pyvc.par import hard_timeout, HardTimeout
            stuck = False
            for tx in texts[:2]:
                try:
                    with hard_timeout(BP.HARD_SECONDS) as g_: p(tx)
                except ParseError: pass
                except HardTimeout: pass
                if g_.fired: stuck = True
            snapshot = {tuple(q.bicoords): q.arity for q in p.predicates if not q.is_system}
            g_ = None
            try:
                with hard_timeout(BP.HARD_SECONDS) as g_: r1 = ('ok', N.to_ast(p(texts[2])))
            except ParseError: r1 = ('error',)
            except HardTimeout: r1 = ('exception', 'does-not-return')
            except Exception as e: r1 = ('exception', type(e).__name__)
            if stuck or (g_ is not None and g_.fired):
                fails.append(dict(kind='history', notation=notation, texts=texts, after_history='does-not-return', fresh='')); n += 1
                if sum(1 for f_ in fails if f_.get('after_history') == 'does-not-return') >= 3: break
                continue
            r2 = BP.real_parse(notation, texts[2], snapshot, True)[:2]
            r2 = r2 if r2[0] == 'ok' else (r2[0],) if r2[0] == 'error' else r2
            n += 1
            if r1 != r2: fails.append(dict(kind='history', notation=notation, texts=texts, after_history=str(r1), fresh=str(r2)))
        # deep nesting and digit limit
        for depth in ((50, 300, 2000) if ctx.thorough else (50, 300)):
            neg = 'N' if notation == 'polish' else '~'
            atom = 'a' if notation == 'polish' else 'A'
            for text in (neg * depth + atom, neg * depth, ('(' * depth if notation == 'standard' else 'K' * depth)):
                n += 1
                r = BP.real_parse(notation, text)
                if r[0] == 'exception' and not (depth >= 2000 and r[1] == 'RecursionError'): fails.append(dict(kind='nesting', notation=notation, depth=depth, outcome=r[1]))
        for digits in (10, 4299, 4301, 6000):
            atom = 'a' if notation == 'polish' else 'A'
            n += 1
            r = BP.real_parse(notation, atom + '1' * digits)
            w = N.parse(notation, atom + '1' * digits)
            if r[0] == 'exception' or r[0] != w[0]: fails.append(dict(kind='digits', notation=notation, digits=digits, outcome=r[:2], grammar=w[0]))
        # random longer strings: grammar-derived and mutated
        for _ in range(3000 if ctx.thorough else 600):
            store = {}
            a = BP.random_ast(rnd, notation, rnd.randint(1, 4), (), store)
            text = BP.decorate(rnd, N.render(notation, a))
            t = list(text)
            for _m in range(rnd.randint(0, 2)):
                if t:
                    i = rnd.randrange(len(t))
                    op = rnd.random()
                    if op < 0.4: t[i] = rnd.choice(BP.REDUCED[notation])
                    elif op < 0.7: del t[i]
                    else: t.insert(i, rnd.choice(BP.REDUCED[notation]))
            text = ''.join(t)
            n += 1
            d = BP.compare(notation, text)
            if d: fails.append(dict(kind='mutated', notation=notation, input=text, problem=d))
    sh_n, sh_fails = store_histories()
    n += sh_n; fails += sh_fails
    ctx.bounded_part(evaluations=n, distinct_nontrivial=n, rule='history sequences (two earlier parses, then the probe compared with a fresh parser holding an equal predicate store), deep nesting, subscripts around the int digit limit, grammar-derived strings with random blanks and 0-2 random edits compared with the reference grammar',
                     bound='see counts', samples=[dict(kind='digits', digits=4301)] + fails[:3], label='history, nesting, mutation')
    seen = set()
    for f in fails:
        key = (f['kind'], f.get('notation'))
        if key in seen: continue
        seen.add(key)
        ctx.bounded_failure(f"C13.bounded.{f['kind']}", str(f)[:300], f, instance=str(f.get('input') or f.get('depth') or f.get('digits') or f.get('texts')))

STORE_HISTORIES = {
    'constructed':          lambda P, F1, F2, G1: P([F2, G1]),
    'replaced-in-place':    lambda P, F1, F2, G1: _do(P([F1, G1]), lambda st: st.__setitem__(0, F2)),
    'removed-then-added':   lambda P, F1, F2, G1: _do(P([F1, G1]), lambda st: (st.remove(F1), st.insert(0, F2))),
    'slice-replaced':       lambda P, F1, F2, G1: _do(P([F1, G1]), lambda st: st.__setitem__(slice(0, 1), [F2])),
    'auto-declared-then-replaced': None,     # built by parsing (see store_histories)
}
def _do(st, f): f(st); return st

def store_histories():
    """the same predicate declarations reached through different histories of the store (constructed, replaced in place, removed and
    added, slice-assigned, auto-declared by an earlier parse and then replaced) give the same results for the same strings"""
    from pytableaux.lang import Parser, Predicates, Predicate
    from pytableaux.errors import ParseError
    F1, F2, G1 = Predicate(0, 0, 1), Predicate(0, 0, 2), Predicate(1, 0, 1)
    n = 0; fails = []
    probes = {'polish': ['Fm', 'Fmn', 'Gm', 'KFmnGm', 'KFmGm', 'Hm'], 'standard': ['Fa', 'Fab', 'Ga', 'Fab & Ga', 'Fa & Ga', 'Ha']}
    for notation in ('polish', 'standard'):
        for auto in (True, False):
            outcomes = {}
            for hname, mk in STORE_HISTORIES.items():
                res = []
                for text in probes[notation]:
                    n += 1
                    try:
                        if mk is None:
                            p = Parser(notation, Predicates(), auto_preds=True)
                            p('Fm' if notation == 'polish' else 'Fa'); p('Gm' if notation == 'polish' else 'Ga')      # auto-declares F/1 and G/1
                            p.predicates[0] = F2
                            p = Parser(notation, p.predicates, auto_preds=auto)
                        else:
                            p = Parser(notation, mk(Predicates, F1, F2, G1), auto_preds=auto)
                        before = [q.spec for q in p.predicates]
                        if before[:2] != [F2.spec, G1.spec]: res.append(('store', before)); continue
                        try: r = ('ok', str(p(text)))
                        except ParseError: r = ('ParseError',)
                        except Exception as e: r = ('exception', type(e).__name__)
                        res.append((r, sorted(q.spec for q in p.predicates)))
                    except Exception as e: res.append(('setup-exception', type(e).__name__, str(e)[:80]))
                outcomes[hname] = res
            ref = outcomes['constructed']
            for hname, res in outcomes.items():
                if res != ref:
                    i = next(i for i, (a, b) in enumerate(zip(res, ref)) if a != b)
                    fails.append(dict(kind='store-history', notation=notation, auto_preds=auto, history=hname, input=probes[notation][i], got=repr(res[i])[:160], constructed_store_gives=repr(ref[i])[:160]))
    return n, fails

def replay_store_history(f):
    n, fails = store_histories()
    hit = [x for x in fails if x['history'] == f.get('history') and x['notation'] == f.get('notation')] or fails
    return dict(reproduced=bool(hit), detail=str(hit[0])[:300] if hit else 'every history of the store gives the results of a constructed store')

def replay(payload):
    if payload.get('kind') == 'bounded':
        from bounded import parsing as BP
        f = payload['input']
        if f.get('kind') == 'store-history': return replay_store_history(f)
        if 'input' in f and 'notation' in f:
            preds = {tuple(int(x) for x in k.split(',')): v for k, v in (f.get('predicates') or {}).items()}
            d = BP.compare(f['notation'], f['input'], preds, f.get('auto_preds', True))
            return dict(reproduced=bool(d), detail=d or 'agrees with the reference grammar')
    return dict(reproduced=None, detail='see counterexample / meta')
