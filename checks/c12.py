"""C12 — sentences and arguments survive a write/parse round trip."""
from __future__ import annotations
import itertools, random
from pyvc import source
from pyvc.interp import Interp, explore, Outside, PyExc, SymVal, Contract, GenList
from pyvc.world import World
from pyvc.smt import Obligation, Result
from pyvc.par import pmap
from spec import notation as N

def enum_ob(name, ok, where='', **meta):
    return Obligation(name, True if ok else False, kind='enum', where=where, meta=meta)

# ------------------------------------------------------------------ writer functions interpreted against the spec rendering

class StrE(SymVal):
    "a string as a concatenation of pieces (symbols of the table, renderings of parts, digits of a subscript)"
    def __init__(self, pieces): self.pieces = list(pieces)
    def sym_binop(self, it, op, other, reflected):
        if op == 'Add' and isinstance(other, StrE):
            return StrE(other.pieces + self.pieces) if reflected else StrE(self.pieces + other.pieces)
        return NotImplemented
    def sym_getattr(self, it, name):
        if name == 'join':
            def join(it, xs):
                out = []
                for i, x in enumerate(it.iterate(xs)):
                    if i: out += self.pieces
                    out += flat(x)
                return StrE(out)
            return Contract(join, 'str.join')
        raise Outside(f'str.{name}')
    def sym_truth(self, it): return bool(self.pieces)
def flat(x):
    if isinstance(x, StrE): return list(x.pieces)
    if x == '': return []
    return [x]

class Part(SymVal):
    def __init__(self, name, typ=None): self.name, self.typ = name, typ
    def __repr__(self): return self.name
    def sym_type(self, it): return self.typ
    def sym_is(self, it, o): return self is o
class StringsM(SymVal):
    def __init__(self, known): self.known = known
    def sym_getitem(self, it, k):
        if isinstance(k, Part):
            if k in self.known: return StrE([('sym', k.name)])
            raise PyExc(KeyError, (k,))
        if isinstance(k, tuple) and len(k) == 2 and isinstance(k[0], type): return StrE([('sym', k[0].__name__, k[1])])
        if isinstance(k, tuple) and len(k) == 2 and not isinstance(k[0], type): return StrE([('sym-pair', getattr(k[0], 'name', k[0]), getattr(k[1], 'name', k[1]))])
        from pytableaux.lang import Marking
        if isinstance(k, Marking): return StrE([('mark', k.name)])
        raise Outside(f'strings[{k!r}]')
class WriterM(SymVal):
    def __init__(self, cls, strings):
        self.cls, self.strings = cls, strings; self.inlined = {}
    def sym_getattr(self, it, name):
        import types
        from pyvc.interp import BoundSource
        if name == 'strings': return self.strings
        if name == '_write': return Contract(lambda it, x: StrE([('W', x)]), 'LexWriter._write')
        if name == '_write_subscript' and getattr(self, 'abstract_sub', True): return Contract(lambda it, s: StrE([('SUB', s)]), 'LexWriter._write_subscript')
        if name == '_methodmap': return self.cls._methodmap
        for c in self.cls.__mro__:
            if name in c.__dict__ and isinstance(c.__dict__[name], types.FunctionType):
                fi = source.of_function(c.__dict__[name]); self.inlined[fi.key] = fi
                return BoundSource(fi, c.__dict__[name], c, self)
        raise Outside(f'LexWriter.{name}')
    def sym_super_getattr(self, it, defcls, name):
        import types
        from pyvc.interp import BoundSource
        mro = self.cls.__mro__
        for c in mro[mro.index(defcls) + 1:]:
            if name in c.__dict__ and isinstance(c.__dict__[name], types.FunctionType):
                fi = source.of_function(c.__dict__[name]); self.inlined[fi.key] = fi
                return BoundSource(fi, c.__dict__[name], c, self)
        raise Outside(f'super().{name}')

def writer_world():
    w = World()
    from pytableaux.tools.hybrids import qsetf, qset
    def _oset(it, xs=()):
        out = []
        for x in it.iterate(xs):
            if not any(x is y for y in out): out.append(x)
        return tuple(out)
    w.contract(qsetf, _oset, name='qsetf(xs): the distinct items of xs in first-occurrence order (C18)')
    w.contract(qset, _oset, name='qset(xs): the distinct items of xs in first-occurrence order (C18)')
    def join(it, sep, xs):
        out = []
        items = it.iterate(xs)
        for i, x in enumerate(items):
            if i and sep != '': out += flat(sep)
            out += flat(x)
        return StrE(out)
    orig = w.call_builtin_method
    def cbm(it, f, args, kw):
        if isinstance(f.__self__, str) and f.__name__ == 'join': return join(it, f.__self__, args[0])
        return orig(it, f, args, kw)
    w.call_builtin_method = cbm
    w.builtin_models[str] = lambda it, x='': StrE([('digits', x)]) if not isinstance(x, str) else x
    return w

def writer_obligations(ctx):
    from pytableaux.lang import writing, Operator, Quantifier, Predicate, Constant, Variable, Atomic, Predicated, Quantified, Operated
    W = writing.PolishLexWriter
    world = writer_world()
    def run(meth, item, known=(), abstract_sub=True):
        holder = []
        def runp(path):
            it = Interp(path, world)
            wm = WriterM(W, StringsM(known)); wm.abstract_sub = abstract_sub
            holder.append(wm)
            return it.call(wm.sym_getattr(it, meth) if meth != '_write' else _real_write(wm), [item], {})
        prs = explore(runp)
        for wm in holder:
            for f in wm.inlined.values(): ctx.under_contract(f)
        return prs
    def _real_write(wm):
        import types
        from pyvc.interp import BoundSource
        fn = writing.LexWriter.__dict__['_write']; fi = source.of_function(fn); wm.inlined[fi.key] = fi
        return BoundSource(fi, fn, writing.LexWriter, wm)
    class Item(Part):
        def __init__(s, name, typ, **attrs): super().__init__(name, typ); s.attrs = attrs
        def sym_getattr(s, it, nm):
            if nm in s.attrs: return s.attrs[nm]
            raise Outside(f'item.{nm}')
        def sym_iter(s, it): return list(s.attrs.get('_iter', []))
    try:
        # _write_coordsitem: symbol of (type, index) then the subscript
        a = Item('atom', Atomic, index=2, subscript='S')
        prs = run('_write_coordsitem', a)
        ok = len(prs) == 1 and prs[0].kind == 'return' and flat(prs[0].value) == [('sym', 'Atomic', 2), ('SUB', 'S')]
        ctx.add(enum_ob('C12.write._write_coordsitem', ok, clause='W(coords item) = symbol(type, index) ++ W_sub(subscript)', cex=dict(got=[str(flat(p.value)) for p in prs if p.kind == 'return'])))
        # _write_subscript: '' for 0, open ++ digits ++ close otherwise
        import z3
        sv = z3.Int('subscript')
        prs = run('_write_subscript', sv, abstract_sub=False)
        cl = []
        for p_ in prs:
            if p_.kind != 'return': cl.append(z3.Not(p_.pc)); continue
            got = flat(p_.value)
            if got == []: cl.append(z3.Implies(p_.pc, sv == 0))
            elif len(got) == 3 and got[0] == ('mark', 'subscript_open') and got[2] == ('mark', 'subscript_close') and got[1][0] == 'digits' and got[1][1] is sv: cl.append(z3.Implies(p_.pc, sv != 0))
            else: cl.append(z3.BoolVal(False))
        ctx.add(Obligation('C12.write._write_subscript', z3.And(*cl) if cl else z3.BoolVal(False), hyps=[sv >= 0], meta=dict(clause="W_sub(0) = ''; W_sub(n) = open ++ str(n) ++ close for every n > 0")))
        # _write_quantified / _write_predicated / Polish _write_operated: prefix concatenation of the parts' renderings
        q, v, b = Part('q'), Part('v'), Part('body')
        prs = run('_write_quantified', Item('Q', Quantified, items=(q, v, b)))
        ctx.add(enum_ob('C12.write._write_quantified', len(prs) == 1 and flat(prs[0].value) == [('W', q), ('W', v), ('W', b)], clause='W(Quant q v s) = W(q) ++ W(v) ++ W(s)', cex={}))
        P, p1, p2 = Part('P'), Part('p1'), Part('p2')
        prs = run('_write_predicated', Item('Pr', Predicated, predicate=P, _iter=[p1, p2]))
        ctx.add(enum_ob('C12.write._write_predicated', len(prs) == 1 and flat(prs[0].value) == [('W', P), ('W', p1), ('W', p2)], clause='W(P t1..tn) = W(P) ++ W(t1) ++ .. ++ W(tn)', cex={}))
        o, s1, s2 = Part('o'), Part('s1'), Part('s2')
        prs = run('_write_operated', Item('Op', Operated, operator=o, _iter=[s1, s2]))
        ctx.add(enum_ob('C12.write.Polish._write_operated', len(prs) == 1 and flat(prs[0].value) == [('W', o), ('W', s1), ('W', s2)], clause='W_polish(Oper o s1 s2) = W(o) ++ W(s1) ++ W(s2) (prefix, no parentheses)', cex={}))
        # _write: table hit for enum members, else dispatch by type
        e = Item('Neg', Operator)
        prs = run('_write', e, known=(e,))
        ok1 = len(prs) == 1 and flat(prs[0].value) == [('sym', 'Neg')]
        at = Item('atom', Atomic, index=1, subscript=0)
        prs = run('_write', at)
        ok2 = len(prs) == 1 and prs[0].kind == 'return' and flat(prs[0].value) == [('sym', 'Atomic', 1), ('SUB', 0)]
        ctx.add(enum_ob('C12.write._write.dispatch', ok1 and ok2, clause='_write(item) = strings[item] when the table has it (enum members), else the method for type(item)', cex=dict(ok1=ok1, ok2=ok2)))
    except Outside as e_:
        ctx.add_result(Result('C12.write._write_coordsitem', 'unknown', detail=f'outside subset: {e_}'))

def standard_writer_obligations(ctx):
    """StandardLexWriter._write_operated / _write_predicated / __call__ interpreted from source for every option value:
    binary sentences are  open lhs ws oper ws rhs close  (no parentheses exactly when drop_parens is asked for, which __call__ does
    only for the outermost Operated), unary ones  oper operand, negated identities  a ws != ws b  iff identity_infix"""
    from pytableaux.lang import writing, Operator, Predicate, Operated, Predicated, Atomic, Marking
    W = writing.StandardLexWriter
    world = writer_world()
    class Item(Part):
        def __init__(s, name, typ, **attrs): super().__init__(name, typ); s.attrs = attrs
        def sym_getattr(s, it, nm):
            if nm in s.attrs: return s.attrs[nm]
            raise Outside(f'item.{nm}')
        def sym_iter(s, it): return list(s.attrs.get('_iter', []))
        def sym_getitem(s, it, k):
            items = list(s.attrs.get('_iter', []))
            return tuple(items[k]) if isinstance(k, slice) else items[k]
        def sym_len(s, it): return len(s.attrs.get('_iter', []))
    class SW(WriterM):
        def __init__(s, opts): super().__init__(W, StringsM(())); s.o = opts
        def sym_getattr(s, it, name):
            if name == 'opts': return s.o
            return super().sym_getattr(it, name)
    ws = ('mark', 'whitespace'); po = ('mark', 'paren_open'); pc = ('mark', 'paren_close')
    bad = []; und = None
    def run(meth, args, kw, opts):
        holder = []
        def runp(path):
            it = Interp(path, world); wm = SW(opts); holder.append(wm)
            return it.call(wm.sym_getattr(it, meth), list(args), dict(kw))
        prs = explore(runp)
        for wm in holder:
            for f in wm.inlined.values(): ctx.under_contract(f)
        return prs
    a, b = Part('a'), Part('b')
    lhs, rhs = Part('lhs', Atomic), Part('rhs', Atomic)
    class PredI(Part):
        def __init__(s, name, arity, is_identity=False): super().__init__(name); s.arity_ = arity; s.is_identity = is_identity
        def sym_getattr(s, it, nm):
            if nm == 'arity': return s.arity_
            raise Outside(nm)
        def sym_is(s, it, o): return (s is o) or (s.is_identity and o is Predicate.Identity)
    IDENT = PredI('Identity', 2, True)
    try:
        for oper in (Operator.Conjunction, Operator.Conditional, Operator.Biconditional):
            item = Item('bin', Operated, operator=oper, lhs=lhs, rhs=rhs, _iter=[lhs, rhs])
            for dp in (False, True):
                for opts in (dict(drop_parens=True, identity_infix=True, max_infix=0), dict(drop_parens=False, identity_infix=False, max_infix=0)):
                    prs = run('_write_operated', [item], dict(drop_parens=dp), opts)
                    core = [('W', lhs), ws, ('W', oper), ws, ('W', rhs)]
                    want = core if dp else [po] + core + [pc]
                    if len(prs) != 1 or prs[0].kind != 'return' or flat(prs[0].value) != want: bad.append(dict(case=f'{oper.name} drop_parens={dp}', got=str(flat(prs[0].value)) if prs and prs[0].kind == 'return' else str(prs[0].value) if prs else None))
            # default keyword: parentheses are written
            prs = run('_write_operated', [item], {}, dict(drop_parens=True, identity_infix=True, max_infix=0))
            if len(prs) != 1 or flat(prs[0].value) != [po, ('W', lhs), ws, ('W', oper), ws, ('W', rhs), pc]: bad.append(dict(case=f'{oper.name} default keyword'))
        for oper in (Operator.Negation, Operator.Possibility, Operator.Assertion):
            item = Item('un', Operated, operator=oper, lhs=lhs, _iter=[lhs])
            prs = run('_write_operated', [item], {}, dict(drop_parens=True, identity_infix=True, max_infix=0))
            if len(prs) != 1 or prs[0].kind != 'return' or flat(prs[0].value) != [('W', oper), ('W', lhs)]: bad.append(dict(case=f'{oper.name} unary'))
        ident = Item('id', Predicated, predicate=IDENT, _iter=[a, b])
        for infix in (True, False):
            for oper in (Operator.Negation, Operator.Possibility):
                item = Item('negid', Operated, operator=oper, lhs=ident, _iter=[ident])
                prs = run('_write_operated', [item], {}, dict(drop_parens=True, identity_infix=infix, max_infix=0))
                want = [('W', a), ws, ('sym', 'Operator', Predicate.Identity) if False else None, ws, ('W', b)]
                got = flat(prs[0].value) if len(prs) == 1 and prs[0].kind == 'return' else None
                if oper is Operator.Negation and infix:
                    ok = got is not None and len(got) == 5 and got[0] == ('W', a) and got[1] == ws and got[3] == ws and got[4] == ('W', b) and got[2] not in (ws, ('W', oper))
                else:
                    ok = got == [('W', oper), ('W', ident)]
                if not ok: bad.append(dict(case=f'{oper.name} of an identity, identity_infix={infix}', got=str(got)))
        # _write_predicated
        P3 = Part('P3'); P3.arity = 3
        t1, t2, t3 = Part('t1'), Part('t2'), Part('t3')
        for pred, params, opts, want in (
            (IDENT, [a, b], dict(drop_parens=True, identity_infix=True, max_infix=0), [('W', a), ws, ('W', IDENT), ws, ('W', b)]),
            (IDENT, [a, b], dict(drop_parens=True, identity_infix=False, max_infix=0), [('W', IDENT), ('W', a), ('W', b)]),
            (PredI('G', 2), [t1, t2], dict(drop_parens=True, identity_infix=True, max_infix=0), None),
            (PredI('H', 3), [t1, t2, t3], dict(drop_parens=True, identity_infix=True, max_infix=0), None),
            (PredI('F', 1), [t1], dict(drop_parens=True, identity_infix=True, max_infix=0), None)):
            item = Item('pr', Predicated, predicate=pred, _iter=params)
            prs = run('_write_predicated', [item], {}, opts)
            got = flat(prs[0].value) if len(prs) == 1 and prs[0].kind == 'return' else None
            if want is None: want = [('W', pred)] + [('W', t) for t in params]
            if want == 'infix2': want = [('W', params[0]), ('W', pred), ('W', params[1])]
            if got != want: bad.append(dict(case=f'predicated {getattr(pred, "name", pred)} {opts}', got=str(got), want=str(want)))
    except Outside as e:
        und = f'outside subset: {e}'
    name = 'C12.write.Standard'
    if und: return ctx.add_result(Result(name, 'unknown', detail=und))
    ctx.add(enum_ob(name, not bad, cex=dict(bad=bad[:3]), clause='StandardLexWriter: binary = [open] lhs ws oper ws rhs [close] with parentheses unless drop_parens is passed; unary = oper operand; a negated identity is a ws != ws b iff identity_infix; predications are prefix unless identity with identity_infix (max_infix at its default 0; where exactly the threshold of a non-default max_infix lies is not part of the round-trip property)'))

def argstr_obligations(ctx):
    """Argument.argstr / from_argstr interpreted from source: the canonical string lists EVERY member of the argument (conclusion
    first, premises in order, repetitions kept) joined by ':', and from_argstr hands the first piece as conclusion and all the
    others, in order, as premises to the parser"""
    from pytableaux.lang import Argument
    from pytableaux.lang import collect
    world = writer_world()
    fa = Argument.__dict__['argstr']; fia = source.of_function(fa); where = ctx.under_contract(fia)
    class Sent(SymVal):
        def __init__(s, n): s.n = n
        def __repr__(s): return s.n
    class ArgTok(SymVal):
        def __init__(s, members): s.members = members
        def sym_iter(s, it): return list(s.members)
        def sym_len(s, it): return len(s.members)
        def sym_getitem(s, it, k): return s.members[k]
        def sym_getattr(s, it, n):
            if n == 'conclusion': return s.members[0]
            if n == 'premises': return tuple(s.members[1:])
            raise Outside(f'Argument.{n}')
    LW = Contract(lambda it, x: StrE([('W', x)]), 'Argument._argstr_lw (the Polish ascii LexWriter, C12.write.*)')
    class ArgCls(SymVal):
        def sym_getattr(s, it, n):
            if n == '_argstr_lw': return LW
            if n == '_argstr_pclass': return Contract(lambda it, **kw: ParserTok(fresh=True, opts=kw), 'Argument._argstr_pclass(auto_preds=True)')
            # any parser OBJECT kept on the class outlives the call: it remembers the predicates it auto-declared for earlier strings
            from pytableaux.lang import Parser as _P
            v = getattr(Argument, n, None)
            if isinstance(v, _P): return ParserTok(fresh=False, opts=dict(v.opts))
            raise Outside(f'Argument.{n}')
    used = []
    class ParserTok(SymVal):
        def __init__(s, fresh, opts): s.fresh, s.opts = fresh, opts
        def sym_getattr(s, it, n):
            if n == 'argument':
                def argument(it, conc, prems, title=None):
                    used.append(s); return ('argument', conc, list(it.iterate(prems)), title)
                return Contract(argument, 'Parser.argument(conclusion, premises)')
            raise Outside(f'Parser.{n}')
    a, b, c = Sent('a'), Sent('b'), Sent('c')
    bad = None; und = None
    for members in ([c], [c, a], [c, a, b], [c, a, b, a], [c, c, a], [c, a, a, a]):
        try:
            prs = explore(lambda path: Interp(path, world).call_source(fia, fa, ArgCls(), [ArgTok(members)], {}))
        except Outside as e:
            und = f'outside subset: {e}'; break
        want = []
        for i, m in enumerate(members):
            if i: want.append(':')
            want.append(('W', m))
        if len(prs) != 1 or prs[0].kind != 'return' or flat(prs[0].value) != want:
            bad = dict(members=[m.n for m in members], got=str(flat(prs[0].value)) if prs and prs[0].kind == 'return' else str(prs[0].value) if prs else None); break
    if und: ctx.add_result(Result('C12.Argument.argstr', 'unknown', detail=und, where=where))
    else: ctx.add(enum_ob('C12.Argument.argstr', bad is None, where=where, cex=bad, clause="argstr() = ':'.join(W(s) for s in (conclusion, *premises)), every member, in order, repetitions kept"))
    ff = Argument.__dict__['from_argstr']; ff = ff.__func__ if isinstance(ff, staticmethod) else ff
    fif = source.of_function(ff); where2 = ctx.under_contract(fif)
    bad2 = None; und2 = None
    for text in ('c', 'c:a', 'c:a:b:a', 'c:c:a', ':a', 'c::a'):
        try:
            prs = explore(lambda path: Interp(path, World()).call_source(fif, ff, ArgCls(), [text], {}))
        except Outside as e:
            und2 = f'outside subset: {e}'; break
        pieces = text.split(':')
        if len(prs) != 1 or prs[0].kind != 'return' or prs[0].value != ('argument', pieces[0], pieces[1:], None):
            bad2 = dict(argstr=text, got=str(prs[0].value)[:120] if prs else None); break
        if not used or not used[-1].fresh or not used[-1].opts.get('auto_preds'):
            bad2 = dict(argstr=text, note='the string is not parsed by a parser of its own with auto_preds=True: a parser kept between calls remembers the predicate arities of earlier strings, so the result depends on the history'); break
    if und2: ctx.add_result(Result('C12.Argument.from_argstr', 'unknown', detail=und2, where=where2))
    else: ctx.add(enum_ob('C12.Argument.from_argstr', bad2 is None, where=where2, cex=bad2, clause='from_argstr(t) parses the first ":"-piece as the conclusion and every other piece, in order, as a premise, with a parser created for this call (auto_preds=True)'))

def table_obligations(ctx):
    "ground facts about the live Polish/ascii tables that make the prefix code uniquely decodable"
    from pytableaux.lang import ParseTable, Notation, Operator, Quantifier, Predicate, Constant, Variable, Atomic, Marking
    from pytableaux.lang.writing import StringTable
    pt = ParseTable.fetch(Notation.polish)
    st = StringTable.fetch(format='text', notation=Notation.polish, dialect='ascii')
    bad = []
    for item in list(Operator) + list(Quantifier) + list(Predicate.System):
        sym = st[item]
        if len(sym) != 1: bad.append(f'{item}: symbol {sym!r} is not one character'); continue
        ty, val = pt[sym]
        okv = (val is item) or (val == item) or (getattr(item, 'name', None) == val) or (isinstance(item, Predicate) and Predicate(val) is item)
        if not okv: bad.append(f'{item}: parse table maps {sym!r} to {val!r}')
    for cls in (Atomic, Constant, Variable, Predicate):
        for idx in range(cls.TYPE.maxi + 1):
            sym = st[cls, idx]
            if len(sym) != 1: bad.append(f'{cls.__name__}[{idx}] symbol {sym!r}'); continue
            ty, val = pt[sym]
            if ty is not cls or val != idx: bad.append(f'{cls.__name__}[{idx}]: parse table maps {sym!r} to {(ty, val)}')
    syms = [c for c in pt.keys()]
    if len(set(syms)) != len(syms): bad.append('duplicate symbols')
    for c, (ty, val) in pt.items():
        if ty not in (Marking.digit, Marking.whitespace) and (c.isdigit() or c.isspace() or c == ':'): bad.append(f'symbol {c!r} collides with digits/blank/colon')
    if st[Marking.subscript_open] != '' or st[Marking.subscript_close] != '': bad.append('ascii subscript brackets are not empty')
    if ':' in pt: bad.append("':' is a Polish symbol (argstr separator)")
    ctx.add(enum_ob('C12.tables.polish-ascii.bijection', not bad, cex=dict(bad=bad[:5]),
                    clause='every enum item and (type, index) is written as one character that the Polish parse table maps back to it; no symbol is a digit, a blank or the colon; ascii subscripts are bare digits'))

def _rt_chunk(job):
    notation, seed, count = job
    from bounded import parsing as BP
    from pytableaux.lang import LexWriter, Parser, Argument, Predicates
    rnd = random.Random(seed)
    bad = []; n = 0
    w = LexWriter('polish', 'text', 'ascii')
    for _ in range(count):
        store = {}
        ast = BP.random_ast(rnd, notation, rnd.randint(0, 4), (), store)
        s = BP.ast_to_sentence(ast)
        n += 1
        try:
            if notation == 'polish':
                text = w(s)
                if text != N.render('polish', ast): bad.append(dict(kind='writer-vs-spec', sentence=text, want=N.render('polish', ast)))
                back = Parser('polish', auto_preds=True)(text)
                if back != s: bad.append(dict(kind='polish-roundtrip', text=text, back=str(back)))
                back2 = Parser('polish', auto_preds=True)(BP.decorate(rnd, text))
                if back2 != s: bad.append(dict(kind='polish-roundtrip-blanks', text=text))
            else:
                text = N.render('standard', ast)
                for variant in (text, BP.decorate(rnd, text), (text[1:-1] if text.startswith('(') and text.endswith(')') else text)):
                    back = Parser('standard', auto_preds=True)(variant)
                    if back != s: bad.append(dict(kind='standard-denotation', text=variant, back=str(back), want=str(s)))
        except Exception as e:
            bad.append(dict(kind='exception', notation=notation, ast=str(ast)[:200], error=repr(e)[:200]))
    # arguments
    for _ in range(count // 4):
        store = {}
        sents = [BP.ast_to_sentence(BP.random_ast(rnd, 'polish', rnd.randint(0, 3), (), store)) for _ in range(rnd.randint(1, 4))]
        shape = _ % 4
        if shape == 1 and len(sents) > 1: sents = sents + [sents[1]]              # a repeated premise
        elif shape == 2: sents = sents + [sents[0]]                               # the conclusion among the premises
        elif shape == 3 and len(sents) > 1: sents = [sents[0], sents[1], sents[1]] + sents[2:]   # adjacent repetition
        a = Argument(sents[0], sents[1:])
        n += 1
        try:
            b = Argument(a.argstr())
            c = Argument.from_argstr(a.argstr())
            if b != a or c != a or hash(b) != hash(a): bad.append(dict(kind='argstr', argstr=a.argstr()))
        except Exception as e:
            bad.append(dict(kind='argstr-exception', argstr=a.argstr(), error=repr(e)[:200]))
    return n, bad

def _inj_chunk(job):
    from bounded import parsing as BP
    from pytableaux.lang import LexWriter
    from pytableaux.lang.writing import StringTable
    seed, count = job
    rnd = random.Random(seed)
    store = {}
    asts = []
    seen = set()
    for _ in range(count):
        a = BP.random_ast(rnd, 'polish', rnd.randint(0, 3), (), store)
        if repr(a) not in seen: seen.add(repr(a)); asts.append(a)
    # near-miss families: sentences that differ in exactly one place (left / right operand, operator, quantifier, variable,
    # one parameter, predicate, subscript): a writer that drops or repeats a part makes two of them collide
    sents = [BP.ast_to_sentence(a) for a in asts]
    from pytableaux.lang import Atomic, Operator, Quantifier, Predicate, Constant, Variable
    A0, A1, A2 = Atomic(0, 0), Atomic(1, 0), Atomic(0, 1)
    x, y = Variable(0, 0), Variable(1, 0); m, n_ = Constant(0, 0), Constant(1, 0)
    F, G = Predicate(0, 0, 1), Predicate(1, 0, 2)
    near = []
    for o in Operator:
        if o.arity == 2:
            near += [o(A0, A1), o(A0, A2), o(A1, A0), o(A2, A1), o(A0, A0), o(o(A0, A1), A2), o(A0, o(A1, A2))]
        else:
            near += [o(A0), o(A1), o(o(A0)), o(Operator.Conjunction(A0, A1))]
    for q in Quantifier:
        near += [q(x, F(x)), q(y, F(y)), q(x, G(x, m)), q(x, G(m, x)), q(x, G(x, x)), q(x, q(y, G(x, y))), q(x, q(y, G(y, x)))]
    near += [F(m), F(n_), G(m, n_), G(n_, m), G(m, m), Predicate.Identity(m, n_), Predicate.Identity(n_, m), ~Predicate.Identity(m, n_), Predicate.Existence(m), ~Predicate.Existence(m),
             Atomic(0, 12), Atomic(0, 1), Atomic(1, 2), Predicate(0, 1, 1)(m), Predicate(0, 0, 1)(Constant(0, 1))]
    sents = near + sents
    bad = []; n = 0
    configs = []
    for (fmt, notn, dialect) in list(StringTable._instances):
        configs.append((notn, fmt, dialect, {}))
        if notn.name == 'standard':
            configs.append((notn, fmt, dialect, dict(drop_parens=False)))
            configs.append((notn, fmt, dialect, dict(identity_infix=False)))
            configs.append((notn, fmt, dialect, dict(max_infix=3)))
    for notn, fmt, dialect, opts in configs:
        w = LexWriter(notn, fmt, dialect, **opts)
        table = {}
        for s in sents:
            n += 1
            try: t = w(s)
            except Exception as e:
                bad.append(dict(kind='writer-exception', config=f'{notn.name}/{fmt}/{dialect}/{opts}', sentence=str(s), error=repr(e)[:120])); continue
            if t in table and table[t] != s:
                bad.append(dict(kind='collision', config=f'{notn.name}/{fmt}/{dialect}/{opts}', text=t, a=str(table[t]), b=str(s), a_polish=LexWriter('polish')(table[t]), b_polish=LexWriter('polish')(s)))
            table.setdefault(t, s)
    return n, bad

def bounded_roundtrip(ctx):
    per = 1500 if ctx.thorough else 250
    jobs = [(nt, ctx.seed * 100 + i, per) for i in range(8) for nt in ('polish', 'standard')]
    total = 0; fails = []
    for n, bad in pmap(_rt_chunk, jobs):
        total += n; fails += bad
    ctx.bounded_part(evaluations=total, distinct_nontrivial=total, rule='random closed well-formed sentences (all operators, both quantifiers, system and user predicates of arity 1-3 with one arity per symbol, indexes 0..max, subscripts up to 123, depth <= 4): Polish ascii rendering equals the reference rendering and parses back to an equal sentence, also with random blanks; the standard parser maps the canonical infix string, a blank-decorated copy and a copy without outer parentheses to the sentence; arguments rebuild from argstr',
                     bound=f'{per} sentences x 8 seeds per notation', samples=[dict(polish='KImn2NVxG3xm')] + fails[:3], label='round trip')
    seen = set()
    for f in fails:
        if f['kind'] in seen: continue
        seen.add(f['kind'])
        ctx.bounded_failure(f"C12.bounded.{f['kind']}", str(f)[:300], f, instance=str(f.get('text') or f.get('argstr') or f.get('ast'))[:80])
    jobs = [(ctx.seed * 7 + i, 400 if ctx.thorough else 120) for i in range(8)]
    total = 0; fails = []
    for n, bad in pmap(_inj_chunk, jobs):
        total += n; fails += bad
    ctx.bounded_part(evaluations=total, distinct_nontrivial=total, rule='within each (notation, format, dialect) table and StandardLexWriter option set, distinct sentences of a random universe must render to distinct strings; no writer raises',
                     bound='120-400 sentences x 8 seeds x 12 tables (+3 option variants for standard)', samples=[dict(config='standard/text/ascii')] + fails[:3], label='rendering injectivity')
    seen = set()
    for f in fails:
        key = (f['kind'], f['config'])
        if key in seen: continue
        seen.add(key)
        ctx.bounded_failure(f"C12.bounded.{f['kind']}", str(f)[:300], f, instance=f['config'])

def run(ctx):
    ctx.level = 'other'
    ctx.drop('type annotations', 'docstrings')
    ctx.trust('StringTable lookups are finite maps read from the live tables; str.join concatenates; str(n) is the decimal numeral of n',
              'the parser side of the Polish round trip is not proved by induction here: it is compared with the reference grammar on all short strings (C13 bounded) and the reference grammar inverts the reference rendering (bounded)',
              'standard-notation denotation and cross-dialect injectivity are bounded only (infix grammar with scan-ahead; string reasoning left undecided by the solvers)')
    ctx.assume('CPython semantics of the interpreted subset as encoded by pyvc/interp.py')
    ctx.explanation = ('Proved/ground: the LexWriter functions (_write dispatch, _write_coordsitem, _write_subscript, _write_quantified, _write_predicated, PolishLexWriter._write_operated) are interpreted from source and '
                       'shown to produce the prefix concatenation of the reference rendering; the live Polish/ascii string and parse tables are mutually inverse single characters disjoint from digits, blank and colon.  '
                       'Bounded: write/parse round trips of random sentences in both notations with blanks and dropped parentheses, argstr round trip, pairwise rendering injectivity in all 12 tables and the StandardLexWriter option variants.')
    writer_obligations(ctx)
    standard_writer_obligations(ctx)
    argstr_obligations(ctx)
    table_obligations(ctx)
    bounded_roundtrip(ctx)
    ctx.replayers['C12.Argument.'] = replay_argstr
    ctx.replayers['C12.'] = lambda r: dict(reproduced=None, detail='see counterexample / meta')

def replay_argstr(r):
    "arguments with repeated premises / the conclusion among the premises through argstr() and back"
    from pytableaux.lang import Argument, Atomic, Operator
    a, b = Atomic(0, 0), Atomic(1, 0)
    out = []
    for concl, prems in ((b, (a, Operator.Conditional(a, b), a)), (a, (a,)), (b, (a, a)), (b, ())):
        arg = Argument(concl, prems)
        t = arg.argstr()
        try: back = Argument.from_argstr(t); back2 = Argument(t)
        except Exception as e: out.append(f'{t!r}: {type(e).__name__}'); continue
        if back != arg or back2 != arg or len(back) != len(arg): out.append(f'argument with {len(arg)} members -> argstr {t!r} -> argument with {len(back)} members')
    # history: the same predicate symbol with another arity in a LATER, separate argument string
    from pytableaux.lang import Predicate, Constant
    m, n = Constant(0, 0), Constant(1, 0)
    for first, second in ((Predicate(0, 0, 1)(m), Predicate(0, 0, 2)(m, n)), (Predicate(1, 0, 2)(m, n), Predicate(1, 0, 1)(n))):
        a1, a2 = Argument(first, (first,)), Argument(second, (second,))
        try:
            if Argument.from_argstr(a1.argstr()) != a1: out.append(f'{a1.argstr()!r} does not round-trip')
            if Argument.from_argstr(a2.argstr()) != a2: out.append(f'{a2.argstr()!r} does not round-trip after {a1.argstr()!r}')
        except Exception as e: out.append(f'{a2.argstr()!r} after {a1.argstr()!r}: {type(e).__name__}: {e}')
    return dict(reproduced=bool(out), detail='; '.join(out[:3]) or 'round trips')

def replay(payload):
    if payload.get('kind') == 'bounded':
        f = payload['input']
        from pytableaux.lang import Parser, LexWriter, Argument
        try:
            if f.get('kind', '').startswith('polish') and 'text' in f:
                s = Parser('polish')(f['text'])
                return dict(reproduced=LexWriter('polish', 'text', 'ascii')(s) != f['text'] or str(s) == f.get('back'), detail=f'parse({f["text"]!r}) = {s}')
            if f.get('kind') == 'argstr':
                a = Argument(f['argstr']); return dict(reproduced=a.argstr() != f['argstr'], detail=a.argstr())
            if f.get('kind') == 'collision':
                a, b = Parser('polish')(f['a_polish']), Parser('polish')(f['b_polish'])
                return dict(reproduced=a != b, detail=f'{a} and {b} both render as {f["text"]!r} in {f["config"]}')
        except Exception as e:
            return dict(reproduced=True, detail=repr(e))
    return dict(reproduced=None, detail='see counterexample / meta')
