"""C18 — ordered-set containers stay a set and a sequence at once."""
from __future__ import annotations
import itertools, random
import z3
from pyvc import source
from pyvc.interp import Interp, explore, Outside, PyExc, SymVal, Contract
from pyvc.smt import Obligation, Result
from contracts import containers as C
from contracts.containers import QsetM, ListVal, SetValE, inv, E

def enum_ob(name, ok, where='', **meta):
    return Obligation(name, True if ok else False, kind='enum', where=where, meta=meta)

pos = z3.Function('pos', E, z3.IntSort())

def run_op(ctx, meth, mk_args):
    """explore qset.<meth>(*args) from an arbitrary state satisfying Inv; -> (fi, [(pr, q, old, args)])"""
    world = C.container_world()
    holder = []
    fis = []
    def run(path):
        it = Interp(path, world)
        q = QsetM('q')
        path.assume(inv(q.seq.A, q.seq.n, q.set.S, pos))
        old = (q.seq.A, q.seq.n, q.set.S)
        args = mk_args()
        bs = q.method(it, meth)
        fis.append(bs.fi)
        holder.append((path, q, old, args))
        return it.call(bs, list(args), {})
    prs = explore(run)
    byp = {id(p): (q, o, a) for p, q, o, a in holder}
    out = [(pr,) + byp[id(pr.path)] for pr in prs]
    for pr, q, o, a in out:
        for f in q.inlined.values(): ctx.under_contract(f)
    return fis[0], out

def hyp():
    q = QsetM('q')
    return [inv(q.seq.A, q.seq.n, q.set.S, pos)], q

def clause(paths, post, raises):
    cl = []
    for pr, q, old, a in paths:
        if pr.kind == 'cut': continue
        cl.append(z3.Implies(pr.pc, (raises if pr.kind == 'raise' else post)(pr, q, old, a)))
    return z3.And(*cl) if cl else z3.BoolVal(False)

def unchanged(q, old):
    p = z3.Int('p!u')
    return z3.And(q.seq.n == old[1], q.set.S == old[2], z3.ForAll([p], z3.Implies(z3.And(0 <= p, p < old[1]), q.seq.A[p] == old[0][p])))

def run(ctx):
    from pytableaux.errors import DuplicateValueError, MissingValueError
    ctx.level = 'other'
    ctx.drop('type annotations', 'docstrings')
    ctx.trust('builtin axioms for list (insert with clamping, item get/set/del with negative-index normalisation and IndexError, reverse, clear, copy) and set (add, remove, clear, copy, difference_update)',
              'collections.abc mixins (MutableSequence.append/extend/pop/remove/__iadd__, MutableSet algebra) are CPython code outside /repo: covered by the bounded stand-in only',
              'hooks _hook_check/_hook_done/_hook_cast are the base qset ones here (pass / identity); Predicates\' hooks are covered by the bounded stand-in and C13')
    ctx.assume('elements are hashable values with == as identity of the abstract value (z3 Int)', 'slices, sort, bulk operations, linked.py and Predicates are bounded, not proved',
               'CPython semantics of the interpreted subset as encoded by pyvc/interp.py')
    ctx.explanation = ('Proved for qset (array + length + set, Skolemised invariant with a ghost position function): insert, __delitem__(index), __setitem__(index) via __setitem_index__, clear, '
                       'copy, reverse, discard/remove of an index, __contains__/__len__/__getitem__(index) preserve the representation invariant, produce exactly the list-without-duplicates result, '
                       'and leave the container unchanged on every raising path.  Bounded: every operation sequence of length <= 3 (quick) / 4 (thorough) over 4 values on qset, linqset, linkseq and '
                       'Predicates against a plain list-without-duplicates model, including slices, sort, bulk and set-algebra operations.')
    H, q0 = hyp()
    v, i = z3.Int('v'), z3.Int('i')
    p_ = z3.Int('p!c')
    # ---------------- insert
    try:
        fi, paths = run_op(ctx, 'insert', lambda: (i, v))
        where = fi.where
        def post_insert(pr, q, old, a):
            A0, n0, S0 = old
            k = z3.If(i < 0, z3.If(i + n0 < 0, 0, i + n0), z3.If(i > n0, n0, i))
            pos1 = lambda e: z3.If(e == v, k, z3.If(pos(e) >= k, pos(e) + 1, pos(e)))
            view = z3.ForAll([p_], z3.Implies(z3.And(0 <= p_, p_ < n0 + 1), q.seq.A[p_] == z3.If(p_ < k, A0[p_], z3.If(p_ == k, v, A0[p_ - 1]))))
            return z3.And(z3.Not(z3.IsMember(v, S0)), q.seq.n == n0 + 1, q.set.S == z3.SetAdd(S0, v), view, inv(q.seq.A, q.seq.n, q.set.S, pos1))
        def raise_insert(pr, q, old, a):
            return z3.And(z3.BoolVal(issubclass(pr.value.cls, DuplicateValueError)), z3.IsMember(v, old[2]), unchanged(q, old))
        ctx.add(Obligation('C18.qset.insert', clause(paths, post_insert, raise_insert), hyps=H, where=where,
                           meta=dict(clause='insert(i, v): v not a member -> list insert at the clamped index, set gains v, invariant holds; v a member -> DuplicateValueError and nothing changes')))
    except Outside as e:
        ctx.add_result(Result('C18.qset.insert', 'unknown', detail=f'outside subset: {e}'))
    # ---------------- __delitem__ (index)
    try:
        fi, paths = run_op(ctx, '__delitem__', lambda: (i,))
        def post_del(pr, q, old, a):
            A0, n0, S0 = old
            j = z3.If(i < 0, i + n0, i)
            pos3 = lambda e: z3.If(pos(e) > j, pos(e) - 1, pos(e))
            view = z3.ForAll([p_], z3.Implies(z3.And(0 <= p_, p_ < n0 - 1), q.seq.A[p_] == z3.If(p_ < j, A0[p_], A0[p_ + 1])))
            return z3.And(j >= 0, j < n0, q.seq.n == n0 - 1, q.set.S == z3.SetDel(S0, A0[j]), view, inv(q.seq.A, q.seq.n, q.set.S, pos3))
        def raise_del(pr, q, old, a):
            j = z3.If(i < 0, i + old[1], i)
            return z3.And(z3.BoolVal(issubclass(pr.value.cls, IndexError)), z3.Or(j < 0, j >= old[1]), unchanged(q, old))
        ctx.add(Obligation('C18.qset.__delitem__.index', clause(paths, post_del, raise_del), hyps=H, where=fi.where,
                           meta=dict(clause='del q[i]: removes exactly the element at i from list and set; IndexError leaves the container unchanged')))
    except Outside as e:
        ctx.add_result(Result('C18.qset.__delitem__.index', 'unknown', detail=f'outside subset: {e}'))
    # ---------------- __setitem__ (index)
    try:
        fi, paths = run_op(ctx, '__setitem__', lambda: (i, v))
        def post_set(pr, q, old, a):
            A0, n0, S0 = old
            j = z3.If(i < 0, i + n0, i)
            oldv = A0[j]
            pos4 = lambda e: z3.If(e == v, j, pos(e))
            view = z3.ForAll([p_], z3.Implies(z3.And(0 <= p_, p_ < n0), q.seq.A[p_] == z3.If(p_ == j, v, A0[p_])))
            return z3.And(j >= 0, j < n0, z3.Not(z3.And(z3.IsMember(v, S0), v != oldv)), q.seq.n == n0, q.set.S == z3.SetAdd(z3.SetDel(S0, oldv), v), view, inv(q.seq.A, q.seq.n, q.set.S, pos4))
        def raise_set(pr, q, old, a):
            A0, n0, S0 = old
            j = z3.If(i < 0, i + n0, i)
            dup = z3.And(j >= 0, j < n0, z3.IsMember(v, S0), v != A0[j])
            return z3.And(z3.If(z3.BoolVal(issubclass(pr.value.cls, IndexError)), z3.Or(j < 0, j >= n0), z3.And(z3.BoolVal(issubclass(pr.value.cls, DuplicateValueError)), dup)), unchanged(q, old))
        ctx.add(Obligation('C18.qset.__setitem__.index', clause(paths, post_set, raise_set), hyps=H, where=fi.where,
                           meta=dict(clause='q[i] = v: replaces the element at i unless v is another member (DuplicateValueError) or i is out of range (IndexError); raising paths leave the container unchanged')))
    except Outside as e:
        ctx.add_result(Result('C18.qset.__setitem__.index', 'unknown', detail=f'outside subset: {e}'))
    # ---------------- clear / reverse / copy / discard
    try:
        fi, paths = run_op(ctx, 'clear', lambda: ())
        ctx.add(Obligation('C18.qset.clear', clause(paths, lambda pr, q, old, a: z3.And(q.seq.n == 0, q.set.S == z3.EmptySet(E), inv(q.seq.A, q.seq.n, q.set.S, pos)), lambda *a: z3.BoolVal(False)), hyps=H, where=fi.where,
                           meta=dict(clause='clear empties list and set')))
        fi, paths = run_op(ctx, 'reverse', lambda: ())
        def post_rev(pr, q, old, a):
            A0, n0, S0 = old
            posr = lambda e: n0 - 1 - pos(e)
            view = z3.ForAll([p_], z3.Implies(z3.And(0 <= p_, p_ < n0), q.seq.A[p_] == A0[n0 - 1 - p_]))
            return z3.And(q.seq.n == n0, q.set.S == S0, view, inv(q.seq.A, q.seq.n, q.set.S, posr))
        ctx.add(Obligation('C18.qset.reverse', clause(paths, post_rev, lambda *a: z3.BoolVal(False)), hyps=H, where=fi.where, meta=dict(clause='reverse reverses the list, keeps the set, invariant holds')))
        fi, paths = run_op(ctx, 'copy', lambda: ())
        def post_copy(pr, q, old, a):
            c = pr.value
            if not isinstance(c, QsetM) or c.seq is q.seq or c.set is q.set or q.written: return z3.BoolVal(False)
            return z3.And(c.seq.n == old[1], c.set.S == old[2], z3.ForAll([p_], z3.Implies(z3.And(0 <= p_, p_ < old[1]), c.seq.A[p_] == old[0][p_])), inv(c.seq.A, c.seq.n, c.set.S, pos), unchanged(q, old))
        ctx.add(Obligation('C18.qset.copy', clause(paths, post_copy, lambda *a: z3.BoolVal(False)), hyps=H, where=fi.where, meta=dict(clause='copy has equal content in fresh list and set objects; the original is untouched')))
    except Outside as e:
        ctx.add_result(Result('C18.qset.clear', 'unknown', detail=f'outside subset: {e}'))
    # ---------------- read operations
    try:
        fi, paths = run_op(ctx, '__contains__', lambda: (v,))
        def post_in(pr, q, old, a):
            r = pr.value if isinstance(pr.value, z3.BoolRef) else z3.BoolVal(bool(pr.value))
            kx = z3.Int('k!in')
            return z3.And(r == z3.IsMember(v, old[2]), unchanged(q, old))
        ctx.add(Obligation('C18.qset.__contains__', clause(paths, post_in, lambda *a: z3.BoolVal(False)), hyps=H, where=fi.where, meta=dict(clause='membership is set membership (which the invariant ties to list membership)')))
        ctx.add(Obligation('C18.qset.membership-agrees', z3.And(z3.Implies(z3.IsMember(v, q0.set.S), z3.And(0 <= pos(v), pos(v) < q0.seq.n, q0.seq.A[pos(v)] == v)),
                                                                 z3.Implies(z3.And(0 <= i, i < q0.seq.n), z3.IsMember(q0.seq.A[i], q0.set.S)),
                                                                 z3.Implies(z3.And(0 <= i, i < v, v < q0.seq.n), q0.seq.A[i] != q0.seq.A[v])), hyps=H,
                           meta=dict(clause='under the invariant: x in set iff x occurs in the list; list elements are pairwise distinct')))
        fi, paths = run_op(ctx, '__len__', lambda: ())
        ctx.add(Obligation('C18.qset.__len__', clause(paths, lambda pr, q, old, a: z3.And(pr.value == old[1], unchanged(q, old)), lambda *a: z3.BoolVal(False)), hyps=H, where=fi.where, meta=dict(clause='len is the list length')))
        fi, paths = run_op(ctx, '__getitem__', lambda: (i,))
        def post_get(pr, q, old, a):
            j = z3.If(i < 0, i + old[1], i)
            return z3.And(j >= 0, j < old[1], pr.value == old[0][j], unchanged(q, old))
        ctx.add(Obligation('C18.qset.__getitem__.index', clause(paths, post_get, lambda pr, q, old, a: z3.And(z3.BoolVal(issubclass(pr.value.cls, IndexError)), unchanged(q, old))), hyps=H, where=fi.where,
                           meta=dict(clause='q[i] is the list element at i')))
    except Outside as e:
        ctx.add_result(Result('C18.qset.__contains__', 'unknown', detail=f'outside subset: {e}'))
    slice_count_obligation(ctx)
    bounded_sequences(ctx)
    bounded_hook_check(ctx)
    bounded_slices(ctx)
    ctx.replayers['C18.linked.'] = replay_slices
    ctx.replayers['C18.'] = lambda r: dict(reproduced=None, detail='invariant-based obligation; see solver model')

def slice_count_obligation(ctx):
    """linked.iter_links_sliced interpreted from source: for every concrete step in {-3..3}\\{0} and symbolic start/stop within the
    range slice.indices() yields, the number of links requested equals len(range(start, stop, step)) and the walk starts at
    seq._link_at(start) (float division, `% 1`, int() and divmod follow Python's semantics for a concrete divisor)"""
    from pytableaux.tools import linked as LK
    from pyvc.world import World
    fn = LK.iter_links_sliced; fi = source.of_function(fn); where = ctx.under_contract(fi)
    n, a, b = z3.Int('len'), z3.Int('start'), z3.Int('stop')
    cls_ = []; und = None
    for step in (-3, -2, -1, 1, 2, 3):
        calls = []
        class SeqM(SymVal):
            def sym_len(s, it): return n
            def sym_getattr(s, it, name):
                if name == '_link_at':
                    def la(it, i):
                        if not it.fork(z3.And(i >= 0, i < n)): raise PyExc(IndexError, ('link index',))
                        return ('link', i)
                    return Contract(la, 'LinkSequence._link_at')
                raise Outside(f'seq.{name}')
        class SliceM(SymVal):
            def sym_getattr(s, it, name):
                if name == 'indices': return Contract(lambda it, ln: (a, b, step), 'slice.indices(len)')
                raise Outside(f'slice.{name}')
        world = World()
        world.contract(LK.iter_links, lambda it, origin, st=1, count=-1: ('walk', origin, st, count), name='linked.iter_links(origin, step, count)')
        try:
            prs = explore(lambda path: Interp(path, world).call_source(fi, fn, None, [SeqM(), SliceM()], {}))
        except Outside as e:
            und = f'outside subset: {e}'; break
        # what slice.indices guarantees
        if step > 0: dom = z3.And(n >= 0, a >= 0, a <= n, b >= 0, b <= n)
        else: dom = z3.And(n >= 0, a >= -1, a <= n - 1, b >= -1, b <= n - 1)
        span = (b - a) if step > 0 else (a - b)
        k = abs(step)
        want = z3.If(span <= 0, 0, (span + k - 1) / k)          # len(range(start, stop, step)); z3 Int division by a positive constant is floor
        for pr in prs:
            if pr.kind != 'return': cls_.append(z3.Implies(z3.And(dom, pr.pc), z3.BoolVal(False))); continue
            tag, origin, st, count = pr.value
            cnt = count if isinstance(count, z3.ExprRef) else z3.IntVal(int(count))
            if isinstance(cnt, z3.ArithRef) and cnt.is_real(): cnt_ok = (cnt == z3.ToReal(want))
            else: cnt_ok = (cnt == want)
            eff = z3.If(want >= 1, z3.BoolVal(origin is not None and origin[1] is a) if True else True, z3.BoolVal(True))
            none_ok = z3.BoolVal(origin is None) == (want < 1)
            cls_.append(z3.Implies(z3.And(dom, pr.pc), z3.And(z3.BoolVal(st == step), none_ok, z3.Implies(want >= 1, z3.And(cnt_ok, eff)))))
    if und: return ctx.add_result(Result('C18.linked.iter_links_sliced.count', 'unknown', detail=und, where=where))
    ctx.add(Obligation('C18.linked.iter_links_sliced.count', z3.And(*cls_), where=where,
                       meta=dict(clause='for steps -3..3: the walk over a slice starts at the link at `start` and visits exactly len(range(start, stop, step)) links; an empty slice visits none')))

def replay_slices(r):
    "slices of a real linqset / linkseq of 7 items against a list"
    from pytableaux.tools.linked import linqset, linkseq
    out = []
    base = list(range(7))
    for cls in (linkseq, linqset):
        for st in (1, 2, 3, -1, -2, -3):
            for lo in (None, 0, 1, 4, 5, 6):
                for hi in (None, 0, 1, 2, 6):
                    sl = slice(lo, hi, st)
                    try: got = list(cls(base)[sl])
                    except Exception as e: got = repr(e)
                    if got != base[sl]: out.append(f'{cls.__name__}(range(7))[{lo}:{hi}:{st}] = {got}, a list gives {base[sl]}')
                    if len(out) >= 3: break
    return dict(reproduced=bool(out), detail='; '.join(out[:3]) or 'slices agree with a list')

def bounded_slices(ctx):
    "every slice with bounds in -9..9 and step in {None,+-1,+-2,+-3} on containers holding 0..7 items: get / delete / assign agree with a list"
    from pytableaux.tools.hybrids import qset
    from pytableaux.tools.linked import linqset, linkseq
    bounds = [None, -9, -7, -4, -2, -1, 0, 1, 2, 3, 4, 5, 6, 7, 9]
    steps = [None, 1, 2, 3, -1, -2, -3]
    total = 0; fails = {}
    for kind, cls in (('linkseq', linkseq), ('linqset', linqset), ('qset', qset)):
        for size in range(0, 8):
            base = list(range(size))
            for st in steps:
                for lo in bounds:
                    for hi in bounds:
                        sl = slice(lo, hi, st)
                        want = base[sl]
                        for op in ('get', 'del', 'set'):
                            total += 1
                            c = cls(base); L = list(base)
                            try:
                                if op == 'get':
                                    got = list(c[sl]); ok = got == want and list(c) == base
                                elif op == 'del':
                                    del c[sl]; del L[sl]; ok = list(c) == L and len(c) == len(L)
                                else:
                                    vals = [100 + i for i in range(len(want))]
                                    c[sl] = vals; L[sl] = vals; ok = list(c) == L and len(c) == len(L) and all(v in c for v in L)
                            except Exception as e:
                                ok = False; got = repr(e)
                            if not ok:
                                key = (kind, op)
                                if key not in fails: fails[key] = dict(kind=kind, op=op, size=size, slice=[lo, hi, st], container=list(c) if op != 'get' else None, model=(L if op != 'get' else want))
    ctx.bounded_part(evaluations=total, distinct_nontrivial=total, rule='slice reads, deletions and equal-size assignments on linkseq / linqset / qset holding range(n), n = 0..7, for every slice with bounds in {None, -9..9 (15 values)} and step in {None, 1, 2, 3, -1, -2, -3}, compared with the same operation on a plain list',
                     bound='sizes 0..7, 15 x 15 bounds, 7 steps, 3 operations, 3 container kinds', samples=[dict(kind='linqset', slice=[5, 0, -2], size=7)] + list(fails.values())[:3], label='slices')
    for (kind, op), f in sorted(fails.items()):
        ctx.bounded_failure(f'C18.bounded.{kind}.slice-{op}', f'{kind} of size {f["size"]}: {op} with slice {f["slice"]} disagrees with a list: {f}', f, instance=f'{op}{f["slice"]}')

# ------------------------------------------------------------------ bounded: operation sequences vs a list-without-duplicates model

class Ref:
    "plain list-without-duplicates reference model; raises ValueError('dup'|'missing'|'index'|'size') and leaves state unchanged"
    def __init__(self, items=()): self.L = list(items)
    def apply(self, op, args):
        L = self.L
        if op == 'append':
            if args[0] in L: raise ValueError('dup')
            L.append(args[0])
        elif op == 'add':
            if args[0] not in L: L.append(args[0])
        elif op == 'insert':
            if args[1] in L: raise ValueError('dup')
            L.insert(args[0], args[1])
        elif op == 'remove':
            if args[0] not in L: raise ValueError('missing')
            L.remove(args[0])
        elif op == 'discard':
            if args[0] in L: L.remove(args[0])
        elif op == 'pop':
            if not L: raise ValueError('index')
            L.pop()
        elif op == 'delitem':
            try: del L[args[0]]
            except IndexError: raise ValueError('index')
        elif op == 'setitem':
            i, v = args
            try: old = L[i]
            except IndexError: raise ValueError('index')
            if v in L and v != old: raise ValueError('dup')
            L[i] = v
        elif op == 'setslice':
            sl, vals = args
            idx = list(range(*sl.indices(len(L))))
            leaving = [L[k] for k in idx]
            if (sl.step or 1) != 1 and len(idx) != len(vals): raise ValueError('size')
            rest = [x for x in L if x not in leaving]
            if len(set(vals)) != len(vals) or any(v in rest for v in vals): raise ValueError('dup')
            if len(idx) != len(vals): raise ValueError('size')     # the package requires equal sizes also for plain slices
            M = list(L); M[sl] = vals; self.L = M
        elif op == 'delslice':
            M = list(L); del M[args[0]]; self.L = M
        elif op == 'reverse': L.reverse()
        elif op == 'sort': L.sort()
        elif op == 'clear': L.clear()
        elif op == 'extend':
            for v in args[0]:
                if v in L: raise ValueError('dup')       # prefix applied
                L.append(v)
        elif op == 'update':
            for v in args[0]:
                if v not in L: L.append(v)
        elif op == 'ior':
            for v in args[0]:
                if v not in L: L.append(v)
        elif op == 'isub':
            for v in args[0]:
                if v in L: L.remove(v)
        elif op == 'iand':
            self.L = [x for x in L if x in args[0]]
        else: raise KeyError(op)

def apply_real(c, op, args):
    if op == 'append': c.append(args[0])
    elif op == 'add': c.add(args[0])
    elif op == 'insert': c.insert(*args)
    elif op == 'remove': c.remove(args[0])
    elif op == 'discard': c.discard(args[0])
    elif op == 'pop': c.pop()
    elif op == 'delitem': del c[args[0]]
    elif op == 'setitem': c[args[0]] = args[1]
    elif op == 'setslice': c[args[0]] = args[1]
    elif op == 'delslice': del c[args[0]]
    elif op == 'reverse': c.reverse()
    elif op == 'sort': c.sort()
    elif op == 'clear': c.clear()
    elif op == 'extend': c.extend(args[0])
    elif op == 'update': c.update(args[0])
    elif op == 'ior': c |= set(args[0]) if False else type(c)(args[0]) if False else c.__ior__(OrderedArg(args[0]))
    elif op == 'isub': c.__isub__(OrderedArg(args[0]))
    elif op == 'iand': c.__iand__(OrderedArg(args[0]))
    else: raise KeyError(op)

class OrderedArg(list):
    "an ordered collection usable as a Set operand (iteration order fixed)"
    def __contains__(self, x): return list.__contains__(self, x)

def observe(c):
    "what a user sees"
    items = list(c)
    return dict(items=items, length=len(c), members=[x in c for x in range(4)],
                index=[(c.index(x) if x in items else None) for x in items], getitem=[c[k] for k in range(len(items))], rev=list(reversed(c)) if hasattr(c, '__reversed__') else None)

def ref_observe(r):
    L = r.L
    return dict(items=list(L), length=len(L), members=[x in L for x in range(4)], index=[L.index(x) for x in L], getitem=list(L), rev=list(reversed(L)))

def ops_for(kind):
    vals = [0, 1, 2, 3]
    ops = [('append', (v,)) for v in vals[:3]] + [('add', (v,)) for v in vals[:2]] + [('insert', (0, 3)), ('insert', (1, 0)), ('insert', (-1, 2))]
    ops += [('remove', (0,)), ('remove', (2,)), ('discard', (1,)), ('pop', ()), ('delitem', (0,)), ('delitem', (-1,)), ('delitem', (5,))]
    ops += [('setitem', (0, 2)), ('setitem', (1, 1)), ('setitem', (-1, 0)), ('setitem', (0, 0))]
    ops += [('reverse', ()), ('clear', ()), ('extend', ([3, 0],)), ('update', ([1, 3],)), ('continue-on-copy', ())]      # the last: c = c.copy(), the history goes on with the copy
    if kind in ('qset',):
        ops += [('sort', ()), ('setslice', (slice(0, 2), [3, 3])), ('setslice', (slice(0, 2), [2, 3])), ('setslice', (slice(0, 1), [1])), ('delslice', (slice(0, 2),)), ('delslice', (slice(1, None),))]
        ops += [('ior', ([2, 0],)), ('isub', ([0, 3],)), ('iand', ([0, 1],))]
    if kind in ('linqset',):
        ops += [('ior', ([2, 0],)), ('isub', ([0, 3],)), ('delslice', (slice(0, 2),)), ('setslice', (slice(0, 2), [2, 3]))]
    return ops

def bounded_sequences(ctx):
    from pytableaux.tools.hybrids import qset
    from pytableaux.tools.linked import linqset, linkseq
    depth = 4 if ctx.thorough else 3
    rnd = random.Random(ctx.seed)
    total = 0; distinct = set(); fails = {}
    for kind, cls in (('qset', qset), ('linqset', linqset)):
        ops = ops_for(kind)
        seqs = itertools.product(range(len(ops)), repeat=depth)
        if kind == 'qset' and not ctx.thorough: pass
        seqs = list(seqs)
        if len(seqs) > 40000: seqs = rnd.sample(seqs, 40000)
        copy_i = next(i for i, o in enumerate(ops) if o[0] == 'continue-on-copy')
        # every sequence as it is, and once more with the container replaced by its copy() right before the last operation
        seqs = seqs + [sq[:-1] + (copy_i, sq[-1]) for sq in seqs if copy_i not in sq]
        for seq in seqs:
            c = cls(); r = Ref()
            hist = []
            for oi in seq:
                op, args = ops[oi]
                hist.append((op, args))
                before = list(c)
                exc_real = exc_ref = None
                if op == 'continue-on-copy':
                    try: c = c.copy()
                    except Exception as e: exc_real = type(e).__name__
                else:
                    try: apply_real(c, op, args)
                    except Exception as e: exc_real = type(e).__name__
                    try: r.apply(op, args)
                    except ValueError as e: exc_ref = str(e)
                total += 1
                try: got = observe(c)
                except Exception as e: got = dict(error=repr(e))
                want = ref_observe(r)
                bulk = op in ('extend', 'update', 'ior', 'isub', 'iand', 'setslice', 'delslice')
                problem = None
                if (exc_real is None) != (exc_ref is None): problem = f'raises {exc_real} vs model {exc_ref}'
                elif got != want and not (bulk and exc_real): problem = f'observes {got} vs model {want}'
                elif exc_real and not bulk and list(c) != before: problem = 'a raising single-element operation changed the container'
                if problem:
                    key = (kind, op, repr(args))
                    if key not in fails or len(hist) < len(fails[key][0]): fails[key] = (list(hist), problem)
                    break
            distinct.add((kind, tuple(r.L)))
    # Predicates store
    pf = predicates_sequences(ctx, depth, rnd)
    total += pf[0]; distinct |= pf[1]
    for k, v in pf[2].items(): fails[k] = v
    ctx.bounded_part(evaluations=total, distinct_nontrivial=len(distinct), rule='operation sequences over values {0,1,2,3} on qset and linqset (and Predicates over 5 predicates, two symbols in two arities, including slice assignment and deletion) from the empty container; after every step iteration order, length, membership, index(), item access and reversed() are compared with a plain list-without-duplicates model, and a raising single-element operation must leave the container unchanged; distinct = distinct (container kind, end state)',
                     bound=f'all sequences of length {depth} over ~30 operations per kind (sampled to 40000 per kind when more)', samples=[dict(kind='qset', ops=['append 0', 'insert 0 3', 'setitem 0 2'])] + [dict(kind=k[0], history=[f'{o} {a}' for o, a in v[0]], problem=v[1]) for k, v in list(fails.items())[:3]], label='operation sequences')
    for (kind, op, args), (hist, problem) in sorted(fails.items()):
        ctx.bounded_failure(f'C18.bounded.{kind}.{op}', f'{kind}: after {[(o, a) for o, a in hist]}: {problem}', dict(kind=kind, history=[[o, repr(a)] for o, a in hist], problem=problem), instance=f'{op}{args}')

PRED_SPECS = [(0, 0, 1), (0, 0, 2), (1, 0, 1), (1, 0, 2), (1, 1, 3)]
PRED_OPS = ([('append', (k,)) for k in range(5)] + [('add', (k,)) for k in range(5)] + [('remove', (0,)), ('remove', (1,)), ('discard', (2,)), ('delitem', (0,)), ('setitem', (0, 1)), ('setitem', (0, 2)),
             ('setitem', (1, 3)), ('clear', ()), ('insert', (0, 4)), ('reverse', ()), ('sort', ()), ('setslice', (0, 2, (1, 3))), ('setslice', (0, 2, (0, 1))), ('setslice', (1, 3, (3, 1))), ('setslice', (0, 2, (3, 0))),
             ('setslice', (0, 1, (1,))), ('setslice', (1, 2, (3,))), ('delslice', (0, 2))])

def _preds():
    from pytableaux.lang import Predicate
    return [Predicate(*s) for s in PRED_SPECS]

def pred_conflict(p, others):
    """the property's clause: p shares a symbol (index, subscript) with a different predicate among `others`"""
    return any(q.bicoords == p.bicoords and q != p for q in others)

def pred_step(c, L, op, args, P):
    """one operation on the real store `c` and on the model list `L`; returns (new model, problem or None)."""
    before = list(c)
    exc_ref = None
    M = list(L)
    try:
        if op in ('append', 'add', 'insert'):
            p = P[args[-1]]
            if p in M:
                if op != 'add': raise ValueError('dup')
            elif pred_conflict(p, M): raise ValueError('conflict')
            else:
                if op == 'insert': M.insert(args[0], p)
                else: M.append(p)
        elif op == 'remove':
            if P[args[0]] not in M: raise ValueError('missing')
            M.remove(P[args[0]])
        elif op == 'discard':
            if P[args[0]] in M: M.remove(P[args[0]])
        elif op == 'delitem':
            if not M: raise ValueError('index')
            del M[args[0]]
        elif op == 'delslice': del M[args[0]:args[1]]
        elif op == 'setitem':
            if len(M) <= args[0]: raise ValueError('index')
            p = P[args[1]]; old = M[args[0]]
            if p in M and p != old: raise ValueError('dup')
            if pred_conflict(p, [q for q in M if q != old]): raise ValueError('conflict')
            M[args[0]] = p
        elif op == 'setslice':
            vals = [P[k] for k in args[2]]; leaving = M[args[0]:args[1]]; staying = [q for q in M if q not in leaving]
            if len(leaving) != len(vals): raise ValueError('size')      # the containers take same-size slice assignment only
            if len(set(vals)) != len(vals) or any(v in staying for v in vals): raise ValueError('dup')
            if any(pred_conflict(v, staying + vals) for v in vals): raise ValueError('conflict')
            M[args[0]:args[1]] = vals
        elif op == 'clear': M = []
        elif op == 'reverse': M.reverse()
        elif op == 'sort': M.sort()
    except ValueError as e: exc_ref = str(e)
    exc_real = None
    try:
        if op in ('append', 'add'): getattr(c, op)(P[args[0]])
        elif op == 'insert': c.insert(args[0], P[args[1]])
        elif op == 'remove': c.remove(P[args[0]])
        elif op == 'discard': c.discard(P[args[0]])
        elif op == 'delitem': del c[args[0]]
        elif op == 'delslice': del c[args[0]:args[1]]
        elif op == 'setitem': c[args[0]] = P[args[1]]
        elif op == 'setslice': c[args[0]:args[1]] = [P[k] for k in args[2]]
        else: getattr(c, op)()
    except Exception as e: exc_real = type(e).__name__
    if exc_ref is None: L = M
    problem = None
    if (exc_real is None) != (exc_ref is None): problem = f'raises {exc_real} vs model {exc_ref}'
    elif list(c) != L: problem = f'items {[q.spec for q in c]} vs model {[q.spec for q in L]}'
    elif exc_real and list(c) != before: problem = 'a raising operation changed the store'
    else:
        # lookup by every reference; no two members share a symbol with different arity
        for p in L:
            for ref in (p, p.spec, p.ident, p.bicoords):
                try:
                    if c.get(ref) != p: problem = f'get({ref}) != {p.spec}'
                except KeyError: problem = f'get({ref}) raises KeyError'
        for p in P:
            if p not in L:
                for ref in (p.spec, p.ident):
                    try:
                        c.get(ref); problem = f'get({ref}) finds a non-member'
                    except KeyError: pass
        if len({q.bicoords for q in L}) != len(L): problem = 'two members share a symbol'
    return L, problem

def predicates_sequences(ctx, depth, rnd):
    from pytableaux.lang import Predicates
    P = _preds(); ops = PRED_OPS
    total = 0; distinct = set(); fails = {}
    seqs = list(itertools.product(range(len(ops)), repeat=depth))
    if len(seqs) > 30000: seqs = rnd.sample(seqs, 30000)
    for seq in seqs:
        c = Predicates(); L = []
        hist = []
        for oi in seq:
            op, args = ops[oi]; hist.append((op, args))
            total += 1
            try: L, problem = pred_step(c, L, op, args, P)
            except Exception as e: problem = f'observation raises {type(e).__name__}: {e}'
            if problem:
                key = ('Predicates', op, repr(args))
                if key not in fails or len(hist) < len(fails[key][0]): fails[key] = (list(hist), problem)
                break
        distinct.add(('Predicates', tuple(q.spec for q in L)))
    return total, distinct, fails

def hook_check_expected(store, arriving, leaving):
    staying = [q for q in store if q not in leaving]
    return any(pred_conflict(a, staying + list(arriving)) for a in arriving)

def hook_check_real(store, arriving, leaving):
    from pytableaux.lang import Predicates
    c = Predicates(store)
    try: c._hook_check(tuple(arriving), tuple(leaving))
    except ValueError: raised = True
    else: raised = False
    return raised, list(c) == list(store)

def bounded_hook_check(ctx):
    """Predicates._hook_check called directly (its callers hand it the arriving and the leaving members before anything is written):
    it must raise exactly when an arriving predicate shares a symbol with a different predicate that stays or arrives with it."""
    P = _preds()
    total = 0; distinct = set(); fails = []
    stores = [st for n in range(0, 4) for st in itertools.permutations(P, n) if len({q.bicoords for q in st}) == len(st)]
    for st in stores:
        for k in range(0, 3):
            for lv in itertools.combinations(st, k):
                for n in range(1, 3):
                    for arr in itertools.permutations(P, n):
                        if any(a in st and a not in lv for a in arr): continue      # callers reject duplicates before the hook
                        total += 1
                        want = hook_check_expected(st, arr, lv)
                        try: got, same = hook_check_real(st, arr, lv)
                        except Exception as e: got, same = f'{type(e).__name__}: {e}', True
                        distinct.add((len(st), k, n, want))
                        if got != want or not same:
                            if len(fails) < 50: fails.append(dict(store=[q.spec for q in st], arriving=[q.spec for q in arr], leaving=[q.spec for q in lv], raises=got, expected=want, unchanged=same))
    ctx.bounded_part(evaluations=total, distinct_nontrivial=len(distinct), rule='Predicates._hook_check(arriving, leaving) on every conflict-free store of <= 3 of 5 predicates (two symbols with two arities each, one more), every <= 2 leaving members and every <= 2 arriving predicates: raises (and writes nothing) exactly when an arriving predicate shares its symbol with a different predicate that stays in the store or arrives with it',
                     bound='stores <= 3, leaving <= 2, arriving <= 2 over 5 predicates', samples=fails[:3] or [dict(store=[(0, 0, 1), (1, 0, 1)], arriving=[(0, 0, 2), (1, 0, 2)], leaving=[(0, 0, 1)], expected=True)], label='predicate store conflict check')
    fails.sort(key=lambda f: (len(f['store']) + len(f['arriving']) + len(f['leaving']), repr(f)))
    seen = set()
    for f in fails:
        shape = ('mixed' if f['leaving'] else 'arriving-only') if f['expected'] is True else 'spurious'
        if shape in seen: continue
        seen.add(shape)
        ctx.bounded_failure(f'C18.bounded.Predicates.hook_check.{shape}', f"Predicates {f['store']}._hook_check(arriving={f['arriving']}, leaving={f['leaving']}) raises={f['raises']}, expected {f['expected']}",
                            dict(kind='Predicates.hook', **f), instance=repr((f['store'], f['arriving'], f['leaving'])))

def replay(payload):
    if payload.get('kind') == 'bounded':
        f = payload['input']
        from pytableaux.tools.hybrids import qset
        from pytableaux.tools.linked import linqset
        if f['kind'] == 'Predicates.hook':
            from pytableaux.lang import Predicate
            mk = lambda xs: [Predicate(*x) for x in xs]
            st, arr, lv = mk(f['store']), mk(f['arriving']), mk(f['leaving'])
            got, same = hook_check_real(st, arr, lv); want = hook_check_expected(st, arr, lv)
            return dict(reproduced=bool(got != want or not same), detail=f'_hook_check raises={got}, expected {want}; store unchanged={same}')
        if f['kind'] == 'Predicates':
            from pytableaux.lang import Predicates
            P = _preds(); c = Predicates(); L = []; problem = None
            for op, a in f['history']:
                try: L, problem = pred_step(c, L, op, eval(a), P)
                except Exception as e: problem = f'observation raises {type(e).__name__}: {e}'
                if problem: break
            return dict(reproduced=bool(problem), detail=f'{problem}; store {[q.spec for q in c]}')
        if f['kind'] not in ('qset', 'linqset'): return dict(reproduced=None, detail=f['problem'])
        c = {'qset': qset, 'linqset': linqset}[f['kind']](); r = Ref()
        last = None
        for op, a in f['history']:
            args = eval(a, {'slice': slice})
            if op == 'continue-on-copy':
                c = c.copy(); last = (op, None, None); continue
            try: apply_real(c, op, args); er = None
            except Exception as e: er = type(e).__name__
            try: r.apply(op, args); ef = None
            except ValueError as e: ef = str(e)
            last = (op, er, ef)
        bad = list(c) != r.L or ((last[1] is None) != (last[2] is None)) or any((x in c) != (x in r.L) for x in range(4))
        return dict(reproduced=bool(bad), detail=f'real {list(c)} members {[x in c for x in range(4)]} vs model {r.L}; last op {last}')
    return dict(reproduced=None, detail='invariant-based obligation; see solver model')
