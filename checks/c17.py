"""C17 — limits and lifecycle: three-valued verdicts, bounded work, locked state."""
from __future__ import annotations
import itertools
import z3
from pyvc import source
from pyvc.interp import Interp, explore, Outside, PyExc, SymVal, Contract
from pyvc.smt import Obligation, Result
from contracts import tableau as T
from contracts.tableau import FlagVal, TableauObj, FLAGS

FILE = 'pytableaux/proof/tableaux.py'

def enum_ob(name, ok, where='', **meta):
    return Obligation(name, True if ok else False, kind='enum', where=where, meta=meta)

def run_method(ctx, name, pre=None, mk=None, args=()):
    """explore Tableau.<name> on a fresh symbolic tableau; pre(t) -> list of assumptions.
    -> (fi, [(PathResult, t, old)])"""
    from pytableaux.proof import Tableau
    v = Tableau.__dict__[name]
    func = v.fget if isinstance(v, property) else v
    fi = source.of_function(func)
    world = T.tableau_world()
    holder = []
    def run(path):
        it = Interp(path, world)
        t = mk() if mk else TableauObj('t')
        for c in t.wf(): path.assume(c)
        for c in (pre(t) if pre else []): path.assume(c)
        old = t.snapshot()
        holder.append((path, t, old))
        return it.call_source(fi, func, Tableau, [t] + list(args), {}, recv=t)
    prs = explore(run)
    byp = {id(p): (t, o) for p, t, o in holder}
    out = [(pr,) + byp[id(pr.path)] for pr in prs]
    for pr, t, old in out:
        for k, f in t.inlined.items(): ctx.under_contract(f)
    ctx.under_contract(fi)
    return fi, out

def inv_limits(t):
    "data invariant established by __init__: a limit flag is set iff the option is a positive number"
    return [t.flag.has('HAS_STEP_LIMIT') == z3.And(z3.Not(t.max_steps.is_none), t.max_steps.val > 0),
            t.flag.has('HAS_TIME_LIMIT') == z3.And(z3.Not(t.build_timeout.is_none), t.build_timeout.val > 0),
            z3.Implies(t.flag.has('TIMED_OUT'), t.flag.has('FINISHED')),
            z3.Implies(z3.Not(t.flag.has('FINISHED')), t.flag.has('PREMATURE'))]

def clause(paths, post, raises=None):
    cl = []
    for pr, t, old in paths:
        if pr.kind == 'cut': continue
        if pr.kind == 'raise':
            cl.append(z3.Implies(pr.pc, raises(pr, t, old) if raises else z3.BoolVal(False)))
        else:
            cl.append(z3.Implies(pr.pc, post(pr, t, old)))
    return z3.And(*cl) if cl else z3.BoolVal(False)

def hyps_for(t0):
    return t0.wf() + inv_limits(t0)

def unchanged(t, old):
    return z3.And(t.flag.same(old['flag']), t.hist == old['hist'], z3.BoolVal(t.applied == old['applied']),
                  z3.BoolVal(t.tree_built == old['tree_built'] and t.stats_built == old['stats_built'] and t.finish_events == old['finish_events']))

def verdict_obligations(ctx):
    "valid / invalid / completed / premature / finished interpreted from source over the symbolic flag word (also a premise of C01)"
    t0 = TableauObj('t')
    # ---------------- verdict properties
    try:
        res = {}
        for p in ('valid', 'invalid', 'completed', 'premature', 'finished'):
            fi, paths = run_method(ctx, p)
            res[p] = (fi, paths)
        def verdict_terms(paths):
            "-> (is_none: Bool, value: Bool) merged over paths"
            none_c, val_c = [], []
            for pr, t, old in paths:
                if pr.kind != 'return': return None
                if pr.value is None: none_c.append(pr.pc)
                else:
                    v = pr.value if isinstance(pr.value, z3.BoolRef) else z3.BoolVal(bool(pr.value))
                    val_c.append(z3.And(pr.pc, v))
            return z3.Or(*none_c) if none_c else z3.BoolVal(False), z3.Or(*val_c) if val_c else z3.BoolVal(False)
        vn, vv = verdict_terms(res['valid'][1]); inn, iv = verdict_terms(res['invalid'][1])
        fl = t0.flag
        where = res['valid'][0].where
        ctx.add(Obligation('C17.verdict.only-when-completed-with-argument', z3.And(
            vn == z3.Not(z3.And(fl.has('FINISHED'), z3.Not(fl.has('PREMATURE')), t0.has_argument)),
            inn == z3.Not(z3.And(fl.has('FINISHED'), z3.Not(fl.has('PREMATURE')), t0.has_argument))), hyps=t0.wf(), where=where,
            meta=dict(clause='valid/invalid are non-None exactly when FINISHED and not PREMATURE and the tableau has an argument')))
        ctx.add(Obligation('C17.verdict.complementary', z3.Implies(z3.Not(vn), z3.And(z3.Not(inn), vv == z3.Not(iv), vv == (t0.n_open == 0))), hyps=t0.wf(), where=where,
                           meta=dict(clause='when defined, valid == not invalid == (no open branch)')))
        pn, pv = verdict_terms(res['premature'][1])
        ctx.add(Obligation('C17.verdict.premature-has-no-verdict', z3.Implies(pv, z3.And(vn, inn)), hyps=t0.wf(), where=res['premature'][0].where,
                           meta=dict(clause='premature implies valid is None and invalid is None')))
        cn, cv = verdict_terms(res['completed'][1]); fn_, fv = verdict_terms(res['finished'][1])
        ctx.add(Obligation('C17.verdict.completed-premature-partition', z3.And(z3.Not(cn), z3.Not(pn), fv == z3.Or(cv, pv), z3.Not(z3.And(cv, pv)), fv == fl.has('FINISHED')),
                           hyps=t0.wf(), where=res['completed'][0].where, meta=dict(clause='finished = completed xor premature; finished is the FINISHED bit')))
    except Outside as e:
        ctx.add_result(Result('C17.verdict.only-when-completed-with-argument', 'unknown', detail=f'outside subset: {e}'))

def run(ctx):
    from pytableaux.errors import ProofTimeoutError, IllegalStateError
    ctx.level = 'proof'
    ctx.drop('type annotations', 'docstrings', '`with self.timers.<x>:` / `with StopWatch() as timer:` blocks are replaced by their bodies')
    ctx.trust('Tableau.next() is an arbitrary choice (an entry or None) that does not change the lifecycle state (its contract is a C02/C09 obligation)',
              'Rule.apply(target) together with the AFTER_RULE_APPLY listener appends exactly one history entry and sets STARTED (listener body interpreted in C16)',
              'Tree.make / _compute_stats / _gen_models / emit: opaque, do not write flag or history; _gen_models may raise ProofTimeoutError',
              'StopWatch.elapsed_ms() returns an arbitrary non-negative number (wall-clock time is not modelled)',
              'Emsg.<Name>(...) builds the exception class listed in errors.py (read from the live enum)')
    ctx.assume('enum.Flag algebra (|, &, ~, in) is bitwise on the 10 named bits',
               'CPython semantics of the interpreted subset as encoded by pyvc/interp.py')
    ctx.explanation = ('Tableau.step/finish/_check_timeout/_is_max_steps_exceeded/build_trunk, the verdict properties and the guarded setters are symbolically '
                       'executed from source over a 10-bit symbolic flag word, symbolic |history|, optional-integer limits and an uninterpreted clock; z3 proves '
                       'each lifecycle clause for every pre-state satisfying the constructor invariant.  Rule-collection locking is checked on the real objects '
                       'for every mutator (finite enumeration) and the locking wrapper is interpreted.')
    t0 = TableauObj('t')
    H = hyps_for(t0)
    verdict_obligations(ctx)
    # ---------------- step
    try:
        fi, paths = run_method(ctx, 'step', pre=lambda t: inv_limits(t))
        where = fi.where
        def exceeded(t, old):
            return z3.And(old['flag'].has('HAS_STEP_LIMIT'), old['hist'] >= t.max_steps.val)
        def timeout_ok(pr, t, old):
            return z3.And(z3.BoolVal(issubclass(pr.value.cls, ProofTimeoutError)), old['flag'].has('HAS_TIME_LIMIT'), t.flag.has('TIMED_OUT'), t.flag.has('FINISHED'),
                          t.hist == old['hist'], z3.BoolVal(t.applied == old['applied']), z3.Not(old['flag'].has('FINISHED')))
        ctx.add(Obligation('C17.step.finished-is-noop', clause(paths, lambda pr, t, old: z3.Implies(old['flag'].has('FINISHED'), z3.And(unchanged(t, old), z3.BoolVal(pr.value is None), z3.BoolVal(t.next_calls == 0))),
                                                                 lambda pr, t, old: z3.Not(old['flag'].has('FINISHED'))), hyps=H, where=where,
                           meta=dict(clause='stepping a finished tableau returns None and changes nothing (and never raises)')))
        ctx.add(Obligation('C17.step.timeout-raises-and-finishes', clause(paths, lambda pr, t, old: z3.BoolVal(True), timeout_ok), hyps=H, where=where,
                           meta=dict(clause='the only exception of step() is ProofTimeoutError, raised only with a time limit, leaving TIMED_OUT and FINISHED set and the history untouched')))
        def limit_inv(pr, t, old):
            return z3.Implies(z3.And(old['flag'].has('HAS_STEP_LIMIT'), old['hist'] <= t.max_steps.val), z3.And(t.hist <= t.max_steps.val, t.flag.has('HAS_STEP_LIMIT')))
        ctx.add(Obligation('C17.step.history-never-exceeds-limit', clause(paths, limit_inv, lambda pr, t, old: t.hist == old['hist']), hyps=H, where=where,
                           meta=dict(clause='invariant: HAS_STEP_LIMIT => |history| <= max_steps is preserved by step()')))
        def at_limit(pr, t, old):
            return z3.Implies(z3.And(z3.Not(old['flag'].has('FINISHED')), exceeded(t, old)),
                              z3.And(t.flag.has('FINISHED'), t.flag.has('PREMATURE') == old['flag'].has('PREMATURE'), t.hist == old['hist'], z3.BoolVal(pr.value is None), z3.BoolVal(t.applied == old['applied'])))
        ctx.add(Obligation('C17.step.limit-reached-finishes-premature', clause(paths, at_limit, lambda pr, t, old: z3.BoolVal(True)), hyps=H, where=where,
                           meta=dict(clause='when |history| >= max_steps the step applies nothing, finishes, and keeps PREMATURE')))
        def cleared(pr, t, old):
            return z3.Implies(z3.And(old['flag'].has('PREMATURE'), z3.Not(t.flag.has('PREMATURE'))),
                              z3.And(z3.Not(exceeded(t, old)), z3.Not(t.next_some), z3.BoolVal(pr.kind == 'raise' or pr.value is None), t.flag.has('FINISHED'), z3.Not(old['flag'].has('FINISHED'))))
        ctx.add(Obligation('C17.step.premature-cleared-only-at-natural-end', clause(paths, cleared, cleared), hyps=H, where=where,
                           meta=dict(clause='PREMATURE is cleared only when next() returned None with the step limit not reached')))
        def one_entry(pr, t, old):
            is_entry = pr.value is not None
            if is_entry:
                return z3.And(t.hist == old['hist'] + 1, z3.Not(t.flag.has('FINISHED')), z3.BoolVal(t.applied == old['applied'] + 1), z3.Not(old['flag'].has('FINISHED')))
            return z3.And(t.hist == old['hist'], t.flag.has('FINISHED'), z3.BoolVal(t.applied == old['applied']))
        ctx.add(Obligation('C17.step.one-history-entry-per-applied-step', clause(paths, one_entry, lambda pr, t, old: z3.BoolVal(True)), hyps=H, where=where,
                           meta=dict(clause='step() returns an entry iff it applied exactly one rule and recorded exactly one history entry; otherwise the tableau is finished')))
        def inv_post(pr, t, old): return z3.And(*inv_limits(t))
        ctx.add(Obligation('C17.step.invariant-preserved', clause(paths, inv_post, inv_post), hyps=H, where=where,
                           meta=dict(clause='the lifecycle invariant (limit flags match the options; TIMED_OUT => FINISHED; not FINISHED => PREMATURE) is preserved by step() on every path')))
        ctx.add(enum_ob('C17.step.cover', len([1 for pr, t, o in paths if pr.kind == 'return' and pr.value is not None]) >= 1 and
                        len([1 for pr, t, o in paths if pr.kind == 'raise']) >= 1 and len([1 for pr, t, o in paths if pr.kind == 'return' and pr.value is None]) >= 3,
                        where=where, paths=len(paths), cex=dict(paths=len(paths)), clause='vacuity guard: entry, None and raising paths are all reachable'))
        # non-interference of a limit above the natural length (self-composition)
        def mkB():
            t = TableauObj('t')
            t.max_steps = T.OptInt('t.max_steps_B')
            t.flag = FlagVal({**t.flag.bits, 'HAS_STEP_LIMIT': z3.Bool('t.flag.HAS_STEP_LIMIT_B')})
            return t
        fiB, pathsB = run_method(ctx, 'step', pre=lambda t: inv_limits(t), mk=mkB)
        tB = mkB()
        notex = lambda t: z3.Not(z3.And(t.flag.has('HAS_STEP_LIMIT'), t.hist >= t.max_steps.val))
        cl = []
        for prA, tA, oA in paths:
            for prB, tB_, oB in pathsB:
                if prA.kind == 'cut' or prB.kind == 'cut': continue
                same_ret = (prA.kind == prB.kind) and ((prA.value is None) == (prB.value is None) if prA.kind == 'return' else True)
                eq = z3.And(z3.BoolVal(bool(same_ret)), tA.hist == tB_.hist, *[tA.flag.bits[n] == tB_.flag.bits[n] for n in FLAGS if n != 'HAS_STEP_LIMIT'],
                            z3.BoolVal(tA.applied == tB_.applied))
                # align the nondeterministic clock of the two runs: same fresh names by construction (same statement order)
                cl.append(z3.Implies(z3.And(prA.pc, prB.pc), eq))
        ctx.add(Obligation('C17.step.limit-above-length-changes-nothing', z3.And(*cl), hyps=H + hyps_for(tB) + [notex(t0), notex(tB)], where=where,
                           meta=dict(clause='two executions of step() from states that differ only in max_steps (both not reached, or unlimited) end in equal states (self-composition; next() and the clock are the same uninterpreted choices)')))
    except Outside as e:
        ctx.add_result(Result('C17.step.finished-is-noop', 'unknown', detail=f'outside subset: {e}'))
    # ---------------- finish
    try:
        fi, paths = run_method(ctx, 'finish', pre=lambda t: inv_limits(t))
        where = fi.where
        ctx.add(Obligation('C17.finish.idempotent', clause(paths, lambda pr, t, old: z3.Implies(old['flag'].has('FINISHED'), unchanged(t, old)), lambda pr, t, old: z3.Not(old['flag'].has('FINISHED'))),
                           hyps=H, where=where, meta=dict(clause='finishing a finished tableau changes nothing and does not raise')))
        def fin(pr, t, old):
            return z3.Implies(z3.Not(old['flag'].has('FINISHED')),
                              z3.And(t.flag.has('FINISHED'), t.hist == old['hist'], z3.BoolVal(t.stats_built), z3.BoolVal(t.finish_events == old['finish_events'] + 1),
                                     z3.BoolVal(t.tree_built) == z3.Not(old['flag'].has('TIMED_OUT')),
                                     *[t.flag.bits[n] == old['flag'].bits[n] for n in FLAGS if n != 'FINISHED']))
        def fin_raise(pr, t, old):
            return z3.And(z3.BoolVal(issubclass(pr.value.cls, ProofTimeoutError)), fin(pr, t, old), z3.Not(old['flag'].has('FINISHED')))
        ctx.add(Obligation('C17.finish.invariant-preserved', clause(paths, lambda pr, t, old: z3.And(*inv_limits(t)), lambda pr, t, old: z3.And(*inv_limits(t))), hyps=H, where=where,
                           meta=dict(clause='the lifecycle invariant is preserved by finish() on every path')))
        ctx.add(Obligation('C17.finish.completes', clause(paths, fin, fin_raise), hyps=H, where=where,
                           meta=dict(clause='finish() sets FINISHED only, builds stats, emits AFTER_FINISH once, builds the tree unless TIMED_OUT; a timeout from model generation is re-raised after all of that')))
    except Outside as e:
        ctx.add_result(Result('C17.finish.idempotent', 'unknown', detail=f'outside subset: {e}'))
    # ---------------- _check_timeout / _is_max_steps_exceeded straight-line
    try:
        fi, paths = run_method(ctx, '_is_max_steps_exceeded', pre=lambda t: inv_limits(t))
        def ex(pr, t, old):
            v = pr.value if isinstance(pr.value, z3.BoolRef) else z3.BoolVal(bool(pr.value))
            return v == z3.And(old['flag'].has('HAS_STEP_LIMIT'), old['hist'] >= t.max_steps.val)
        ctx.add(Obligation('C17._is_max_steps_exceeded.exact', clause(paths, ex), hyps=H, where=fi.where,
                           meta=dict(clause='exceeded iff a positive step limit exists and |history| >= max_steps; never raises (None is never compared)')))
    except Outside as e:
        ctx.add_result(Result('C17._is_max_steps_exceeded.exact', 'unknown', detail=f'outside subset: {e}'))
    # ---------------- guarded setters and build_trunk
    from pytableaux.proof import Tableau
    for nm, getter in (('argument', lambda: Tableau.__dict__['argument'].fset), ('logic', lambda: Tableau.__dict__['logic'].fset)):
        try:
            func = getter()
            fi = source.of_function(func)
            # the setter functions share the property's name; locate the setter by line
            fi = _setter_info(nm)
            where = ctx.under_contract(fi)
            world = T.tableau_world()
            from pytableaux.lang import Argument as _Arg
            from checks.structs import Tok as _Tok
            world.contract(_Arg, lambda it, v: _Tok('argument'), name='Argument(value) (constructor: returns an argument or raises)')
            holder = []
            def runp(path):
                it = Interp(path, world)
                t = TableauObj('t')
                path.assume(t.flag.has('STARTED'))
                holder.append(t)
                try:
                    return it.call_source(fi, func, Tableau, [t, 'value'], {}, recv=t)
                except Outside:
                    if t.written: return 'WROTE-A-FIELD'        # the guard was passed: a field was assigned with STARTED set
                    raise
            prs = explore(runp)
            ok = all(pr.kind == 'raise' and issubclass(pr.value.cls, IllegalStateError) for pr in prs) and all(not t.written for t in holder) and len(prs) >= 1
            ctx.add(enum_ob(f'C17.setter.{nm}.refuses-after-start', ok, where=where, cex=dict(paths=[pr.kind for pr in prs], written=sorted({w_ for t in holder for w_ in t.written})), setter=nm,
                            clause=f'with STARTED set, assigning .{nm} raises IllegalStateError before any write'))
        except Outside as e:
            ctx.add_result(Result(f'C17.setter.{nm}.refuses-after-start', 'unknown', detail=f'outside subset: {e}'))
    try:
        func = Tableau.__dict__['build_trunk']
        fi = source.of_function(func); where = ctx.under_contract(fi)
        world = T.tableau_world()
        holder = []
        def runp(path):
            it = Interp(path, world)
            t = TableauObj('t')
            path.assume(z3.Or(t.flag.has('STARTED'), t.flag.has('TRUNK_BUILT'), z3.Not(t.has_argument), z3.Not(t.has_logic)))
            holder.append(t)
            return it.call_source(fi, func, Tableau, [t], {}, recv=t)
        prs = explore(runp)
        ok = all(pr.kind == 'raise' and issubclass(pr.value.cls, IllegalStateError) for pr in prs) and all(not t.written for t in holder) and len(prs) >= 4
        ctx.add(enum_ob('C17.build_trunk.guards', ok, where=where, cex=dict(paths=[pr.kind for pr in prs]),
                        clause='build_trunk raises IllegalStateError (before any write) if the trunk is built, the tableau started, or argument/logic is missing'))
    except Outside as e:
        ctx.add_result(Result('C17.build_trunk.guards', 'unknown', detail=f'outside subset: {e}'))
    init_obligations(ctx)
    locking_obligations(ctx)
    bounded_cutpoints(ctx)
    ctx.replayers['C17.setter.'] = replay_setter
    ctx.replayers['C17.step.'] = replay_step
    ctx.replayers['C17.finish.'] = replay_step
    ctx.replayers['C17._is_max_steps_exceeded'] = replay_step
    ctx.replayers['C17.'] = lambda r: dict(reproduced=None, detail='invariant-based obligation; see solver model')

def _setter_info(name):
    "FuncInfo of the @<name>.setter function (the last definition of that name in class Tableau)"
    return source.get(FILE, f'Tableau.{name}')

def init_obligations(ctx):
    """constructor invariant on the real class for a grid of option values (finite enumeration; __init__ wires
    listeners and containers that are outside the subset)"""
    from pytableaux.proof import Tableau
    F = Tableau.Flag
    bad = []
    vals = [None, -3, -1, 0, 1, 2, 7, 10 ** 6]
    for ms, bt in itertools.product(vals, vals):
        t = Tableau(max_steps=ms, build_timeout=bt)
        w1 = (ms is not None and ms > 0); w2 = (bt is not None and bt > 0)
        if ((F.HAS_STEP_LIMIT in t.flag) != w1) or ((F.HAS_TIME_LIMIT in t.flag) != w2) or F.PREMATURE not in t.flag or F.FINISHED in t.flag or F.STARTED in t.flag or F.TIMED_OUT in t.flag:
            bad.append(dict(max_steps=ms, build_timeout=bt, flag=str(t.flag)))
    fi = source.get(FILE, 'Tableau.__init__'); where = ctx.under_contract(fi)
    ctx.add(enum_ob('C17.init.limit-flags', not bad, where=where, cex=dict(bad=bad[:3]), grid=len(vals) ** 2,
                    clause='after __init__: HAS_STEP_LIMIT iff max_steps is a positive number, HAS_TIME_LIMIT iff build_timeout is; PREMATURE set; FINISHED/STARTED/TIMED_OUT clear'))

def locking_obligations(ctx):
    from pytableaux.proof import Tableau, tableaux as TX
    from pytableaux.logics import registry
    from pytableaux.errors import IllegalStateError
    # the decorator body
    fi = source.get(FILE, 'locking.wrapper'); where = ctx.under_contract(fi)
    from contracts.tableau import tableau_world
    from checks.structs import Holder
    called = []
    world = tableau_world()
    ok = True; why = []
    for locked in (True, False):
        def runp(path, locked=locked):
            it = Interp(path, world)
            selfm = Holder(root=Holder(locked=locked))
            from pyvc.interp import Closure, Frame
            import ast
            # interpret `wrapper` with its closure variable `method` bound to a recording contract
            outer = source.get(FILE, 'locking')
            fr = Frame(outer, TX.locking, None, dict(method=Contract(lambda it, s, *a, **k: called.append(1) or 'ret', 'method')))
            c = Closure(fi.node, fr, 'wrapper')
            return it.call_closure(c, [selfm], {})
        called.clear()
        try:
            prs = explore(runp)
        except Outside as e:
            ctx.add_result(Result('C17.locking.wrapper', 'unknown', detail=f'outside subset: {e}', where=where)); return
        if locked:
            if not (len(prs) == 1 and prs[0].kind == 'raise' and issubclass(prs[0].value.cls, IllegalStateError) and not called): ok = False; why.append('locked: does not raise before the call')
        else:
            if not (len(prs) == 1 and prs[0].kind == 'return' and prs[0].value == 'ret' and len(called) == 1): ok = False; why.append('unlocked: does not delegate')
    ctx.add(enum_ob('C17.locking.wrapper', ok, where=where, cex=dict(why=why), clause='a @locking method raises IllegalStateError when root.locked, else delegates once'))
    # every mutator of the real collections after the first branch (finite list)
    bad = []
    for L in ('CPL', 'K3', 'S4'):
        tab = Tableau(registry(L))
        tab.branch()
        R = registry(L).Rules
        rc = R.closure[0]
        muts = [('rules.append', lambda: tab.rules.append(rc)), ('rules.extend', lambda: tab.rules.extend([rc])), ('rules.clear', lambda: tab.rules.clear()),
                ('groups.create', lambda: tab.rules.groups.create('x')), ('groups.append', lambda: tab.rules.groups.append([rc])), ('groups.extend', lambda: tab.rules.groups.extend([[rc]])),
                ('groups.clear', lambda: tab.rules.groups.clear()), ('group.append', lambda: tab.rules.groups[0].append(rc)), ('group.extend', lambda: tab.rules.groups[0].extend([rc])),
                ('group.clear', lambda: tab.rules.groups[0].clear()), ('rules.lock', lambda: tab.rules.lock()), ('rule.lock', lambda: tab.rules[0].lock()),
                ('rules.setattr', lambda: setattr(tab.rules, 'locked', False)), ('group.setattr', lambda: setattr(tab.rules.groups[0], 'name', 'y')),
                ('rule.setattr.tableau', lambda: setattr(tab.rules[0], 'tableau', None)), ('rule.setattr.helpers', lambda: setattr(tab.rules[0], 'helpers', {}))]
        n0 = len(tab.rules)
        for nm, f in muts:
            try:
                f(); bad.append(f'{L}: {nm} did not raise')
            except IllegalStateError: pass
            except (AttributeError, TypeError) as e:
                if 'ReadOnly' in type(e).__name__ or 'read' in str(e).lower() or 'locked' in str(e).lower(): pass
                else: bad.append(f'{L}: {nm} raised {type(e).__name__}: {e}')
            except Exception as e:
                bad.append(f'{L}: {nm} raised {type(e).__name__}')
        if len(tab.rules) != n0: bad.append(f'{L}: rule count changed')
        # logic / argument setters on a started tableau
        from pytableaux.lang import Argument
        t2 = Tableau(registry(L), Argument('a'))
        for nm, f in (('logic=', lambda: setattr(t2, 'logic', 'FDE')), ('argument=', lambda: setattr(t2, 'argument', Argument('b'))), ('build_trunk', lambda: t2.build_trunk())):
            try: f(); bad.append(f'{L}: {nm} on a started tableau did not raise')
            except IllegalStateError: pass
    ctx.add(enum_ob('C17.locking.real-mutators', not bad, cex=dict(bad=bad[:5]), mutators=16,
                    clause='after the first branch every mutator of RulesRoot/RuleGroups/RuleGroup/Rule raises; setters and build_trunk raise once started'))

def bounded_cutpoints(ctx):
    """B: every cut point max_steps = 1..n+1 of seeded proofs on the real prover"""
    import random
    from pytableaux.proof import Tableau
    from pytableaux.logics import registry
    from bounded import args as A
    rnd = random.Random(ctx.seed)
    n_eval = 0; distinct = set(); samples = []
    n_args = 60 if ctx.thorough else 12
    logics = ['CPL', 'FDE', 'K3', 'K', 'S4', 'CFOL', 'D', 'L3', 'GO', 'S5']
    for i in range(n_args):
        L = logics[i % len(logics)]
        kind = 'modal' if registry(L).Meta.modal and i % 2 else 'prop'
        arg = A.random_argument(rnd, kind, depth=3)
        base = Tableau(L, arg, max_steps=300).build()
        if base.premature: continue
        n = len(base.history)
        for ms in list(range(1, min(n, 25) + 2)) + [None, 0, -1]:
            t = Tableau(L, arg, max_steps=ms).build()
            n_eval += 1
            distinct.add((L, arg.argstr(), ms))
            cut = ms is not None and 0 < ms <= n
            problems = []
            if ms is not None and ms > 0 and len(t.history) > ms: problems.append('history exceeds limit')
            if cut and ms < n + 0 and not (t.finished and t.premature and t.valid is None and t.invalid is None) and len(t.history) == ms and ms < n: problems.append('cut run is not premature/None')
            if not cut or ms > n:
                if (t.valid, t.invalid, len(t.history)) != (base.valid, base.invalid, n): problems.append('limit above the natural length changed the result')
            before = (t.flag, len(t.history), t.valid, t.invalid)
            t.step(); t.finish(); t.build()
            if (t.flag, len(t.history), t.valid, t.invalid) != before: problems.append('step/finish/build on a finished tableau changed it')
            if problems:
                ctx.bounded_failure('C17.cutpoints', '; '.join(problems), dict(logic=L, argument=arg.argstr(), max_steps=ms, natural_length=n), instance=f'{L}/{arg.argstr()}/{ms}')
        if len(samples) < 3: samples.append(dict(logic=L, argument=arg.argstr(), natural_length=n))
    ctx.bounded_part(evaluations=n_eval, distinct_nontrivial=len(distinct), rule='seeded random arguments x every positive step limit 1..n+1 (n = unlimited proof length, capped at 26) plus None/0/-1; distinct = (logic, argument, limit)',
                     bound=f'{n_args} arguments, proofs up to 300 steps', samples=samples or [dict(note='none')], label='cut points')


def replay_setter(r):
    "every way a real tableau becomes STARTED (trunk built from an argument; rule applied on a hand-made branch), then the assignment"
    from pytableaux.proof import Tableau, swnode
    from pytableaux.lang import Argument, Atomic, Operator
    from pytableaux.errors import IllegalStateError
    nm = r.meta.get('setter') or ('argument' if '.argument.' in r.name else 'logic')
    a = Atomic(0, 0)
    def via_trunk():
        t = Tableau('CPL', Argument(a, (a,))); return t
    def via_rule():
        t = Tableau('CPL'); b = t.branch(); b.append(swnode(Operator.Conjunction(a, a))); t.step(); return t
    def via_rule_manual_trunk():
        t = Tableau('CPL', auto_build_trunk=False); b = t.branch(); b.append(swnode(~~a)); t.step(); return t
    out = []
    for label, mk in (('trunk built from an argument', via_trunk), ('rule applied on a hand-made branch (no argument)', via_rule), ('same, auto_build_trunk=False', via_rule_manual_trunk)):
        try: t = mk()
        except Exception as e: out.append(f'{label}: setup raised {type(e).__name__}'); continue
        if t.flag.STARTED not in t.flag: continue
        before = (t.argument, t.logic)
        try:
            if nm == 'argument': t.argument = Argument(Atomic(1, 0))
            else: t.logic = 'K3'
            raised = None
        except IllegalStateError: raised = 'IllegalStateError'
        except Exception as e: raised = type(e).__name__
        after = (t.argument, t.logic)
        if raised != 'IllegalStateError' or after != before:
            out.append(f'{label}: assigning .{nm} on a STARTED tableau raised {raised}; (argument, logic) {before} -> {after}')
    return dict(reproduced=bool(out), detail='; '.join(out) or 'every started tableau refused the assignment and kept its argument and logic')


def replay_step(r):
    "a real tableau finished by hand part-way (premature), then stepped / built / finished again: nothing may move"
    from pytableaux.proof import Tableau
    from pytableaux.lang import Argument
    out = []
    for L, a in (('CPL', 'NAab:KNaNb'), ('K3', 'Kab:Aab:Cab'), ('K', 'Lb:LAab:LNa')):
        t = Tableau(L, Argument(a)); t.step(); t.finish()
        snap = (len(t.history), len(t), len(t.open), t.valid, t.invalid, t.premature, t.finished, t.stats.get('result'))
        try:
            e = t.step(); t.build(); t.finish()
        except Exception as ex:
            out.append(f'{L} {a}: step()/build() after finish() raised {type(ex).__name__}'); continue
        now = (len(t.history), len(t), len(t.open), t.valid, t.invalid, t.premature, t.finished, t.stats.get('result'))
        if e is not None or now != snap: out.append(f'{L} {a}: after finish() (history, branches, open, valid, invalid, premature, finished, result) was {snap}; after step()/build() it is {now}')
    for L, a in (('CPL', 'NAab:KNaNb'),):
        t = Tableau(L, Argument(a), max_steps=1).build()
        snap = (len(t.history), t.valid, t.premature)
        t.step(); t.build()
        if (len(t.history), t.valid, t.premature) != snap or len(t.history) > 1: out.append(f'{L} {a} max_steps=1: {snap} -> {(len(t.history), t.valid, t.premature)}')
    # the step limit on tableaux populated by hand (no argument, or a trunk that was not built from it): recorded steps <= max_steps
    from pytableaux.proof import snode
    from pytableaux.lang import Atomic, Operator
    A, B, C = Atomic(0, 0), Atomic(1, 0), Atomic(2, 0)
    for L in ('CPL', 'FDE', 'K'):
        for k in (1, 2, 3):
            for how in ('build', 'step'):
                try:
                    t = Tableau(L, max_steps=k)
                    b = t.branch()
                    from pytableaux.proof import sdwnode
                    s = Operator.Conjunction(Operator.Conjunction(A, B), Operator.Conjunction(C, Operator.Negation(Operator.Negation(A))))
                    b.append(sdwnode(s, True if L == 'FDE' else None, 0 if L == 'K' else None))
                    if how == 'build': t.build()
                    else:
                        for _ in range(k + 3): t.step()
                    if len(t.history) > k: out.append(f'{L} hand-made trunk, max_steps={k}, {how}: {len(t.history)} steps recorded')
                except Exception as ex: out.append(f'{L} hand-made trunk max_steps={k}: {type(ex).__name__}: {ex}')
    return dict(reproduced=bool(out), detail='; '.join(out[:3]) or 'finished tableaux stay as they are')
