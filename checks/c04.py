"""C04 — every single expansion step preserves satisfiability exactly."""
from __future__ import annotations
import itertools, re
from pyvc import source
from pyvc.interp import Outside
from pyvc.smt import Obligation, Result, discharge
from pyvc.par import pmap
from checks import rulesem as RS
from spec import semantics as S

TRUSTED = [
    'metaclass code executed at import (RuleMeta.__new__, RuleNameAttrInducer, LogicMetaMeta.__new__): its results (rule attributes, branching, rule tables) are checked by the .attrs/.branching/.shape obligations; the code itself is not verified',
    'sentence constructors (~s, s|t, s&t, +s, Operator(...), Quantifier(...), c >> s, .lhs/.rhs/.operands/.variable/.sentence) are the free datatype constructors/projections (their contracts are the C15 obligations)',
    'Node subclasses store the mapping given to the constructor (Node.__init__); Node.get/__getitem__ with PropMap defaults designated=None, world=None',
    'BaseSentenceRule.sentence(node) returns the un-negated sentence when the rule is negated (contract of filters.CompareSentence.sentence; its agreement with the rule attributes is the .attrs obligation)',
    'rule helpers WorldIndex / NodesWorlds / NodeCount / Branch.has / Branch.find are abstract in the schema extraction (their contracts belong to the saturation obligations of C02)',
    'spec/semantics.py (the oracle)',
    'builtin axioms: itertools.starmap/map apply pointwise, dict(adds=groups, **kw)',
]
ASSUME = [
    'quantifier / modal exactness is decided over the *set of values* that the instances (resp. accessible worlds) take, which covers every domain size at once; this relies on the spec generalisers being functions of that set (ground-checked for families up to size 4 in C04.generaliser.* )',
    'forward direction for witness rules: the variant interpretation lets the fresh constant (world) copy an existing element (accessible world); freshness itself is C06',
    'CPython semantics of the interpreted subset as encoded by pyvc/interp.py',
]
DROPS = ['type annotations', 'docstrings', 'decorators on rule methods (none on the interpreted ones)']

NAME_RE = None
def parse_rule_name(name):
    """independent reading of a rule class name: <Operator|Quantifier|DoubleNegation>[Negated][Designated|Undesignated]"""
    ops = sorted(S.ARITY, key=len, reverse=True)
    qs = ['Existential', 'Universal']
    out = dict(operator=None, quantifier=None, negated=None, designation=None)
    rest = name
    if rest.startswith('DoubleNegation'):
        out['operator'], out['negated'] = 'Negation', True
        rest = rest[len('DoubleNegation'):]
    else:
        for o in ops + qs:
            if rest.startswith(o):
                out['operator' if o in ops else 'quantifier'] = o
                rest = rest[len(o):]
                break
        else:
            return None
        if rest.startswith('Negated'):
            out['negated'] = True; rest = rest[len('Negated'):]
    if rest.startswith('Undesignated'): out['designation'] = False; rest = rest[len('Undesignated'):]
    elif rest.startswith('Designated'): out['designation'] = True; rest = rest[len('Designated'):]
    if rest: return None
    return out

def enum_ob(name, ok, where='', **meta):
    return Obligation(name, True if ok else False, kind='enum', where=where, meta=meta)

def work_inherited(lname):
    "the rule obligations of the rules a logic did not define itself (its module inherits them from another logic's module)"
    return work_logic(lname, inherited_only=True)

def work_logic(lname, inherited_only=False):
    """all C04 obligations of one logic; runs in a worker process. -> (results, functions)"""
    reg = RS.registry()
    logic = reg(lname)
    L = logic.Meta.name
    results, funcs = [], {}
    def add(ob):
        r = discharge(ob)
        results.append(r)
        return r
    from pytableaux.proof import Tableau, helpers as H, filters as F
    tab = Tableau(logic)
    shapes = {}
    for rc in RS.rule_classes(logic):
        kind = RS.classify(rc)
        base = f'C04.{L}.{rc.__name__}'
        if kind in ('closure', 'access', 'predicate', 'other'):
            continue
        if inherited_only and rc.__module__ == logic.Rules.__module__: continue
        # --- attrs
        want = parse_rule_name(rc.__name__)
        got = dict(operator=getattr(rc.operator, 'name', None), quantifier=getattr(rc.quantifier, 'name', None),
                   negated=(True if rc.negated else None), designation=rc.designation)
        ok = want is not None and want == got
        rule = tab.rules.get(rc.__name__)
        fcfg = rule[H.FilterHelper].config
        ns = fcfg.filters.get(F.NodeSentence)
        nd = fcfg.filters.get(F.NodeDesignation)
        fok = ns is not None and ns.compitem is not None and ns.compitem.item is (rc.operator or rc.quantifier) and bool(ns.compitem.negated) == bool(rc.negated) \
            and ns.compitem.name == ('operator' if rc.operator else 'quantifier')
        if rc.designation is not None:
            fok = fok and nd is not None and dict(nd.compitem) == {'designated': rc.designation}
        else:
            fok = fok and (nd is None or not nd.compitem)
        fok = fok and fcfg.ignore_ticked is True and type(rule) is rc
        add(enum_ob(base + '.attrs', ok and fok, want=want, got=got, filter_ok=fok, cex=dict(want=want, got=got, filter_ok=fok)))
        shapes.setdefault((got['operator'] or got['quantifier'], bool(rc.negated), rc.designation), []).append(rc.__name__)
        # --- schema
        sc = RS.schema(logic, rc)
        for fi in sc.funcs:
            funcs[fi.key] = dict(file=fi.relfile, qualname=fi.qualname, lines=f'{fi.lineno}-{fi.end_lineno}', sha1=fi.sha1)
        where = sc.funcs[-1].where if sc.funcs else ''
        if sc.error:
            for sfx in ('forward', 'backward'):
                results.append(Result(f'{base}.{sfx}', 'unknown', detail=sc.error, where=where))
            continue
        try:
            obs = RS.exactness(sc, base, where)
            groups, notes = RS._groups_of(sc)
        except Outside as e:
            for sfx in ('forward', 'backward'):
                results.append(Result(f'{base}.{sfx}', 'unknown', detail=f'outside subset: {e}', where=where))
            continue
        for ob in obs: add(ob)
        # --- world discipline
        nodew = sc.node.props.get('world')
        bad = []
        modal_rule = kind == 'modal'
        for g in groups:
            has_access_new = any(n.props.get('world1') == nodew and repr(n.props.get('world2')) == 'NEW' for n in g if 'world1' in n.props)
            for n in g:
                if 'sentence' in n.props:
                    w = n.props.get('world')
                    if w == nodew: continue
                    if not modal_rule: bad.append(('sentence node leaves the world', repr(n)))
                    elif repr(w) == 'NEW' and not has_access_new: bad.append(('new-world node without access node', repr(n)))
                    elif repr(w) not in ('NEW', 'w2'): bad.append(('unexpected world', repr(n)))
                elif 'world1' in n.props:
                    if not modal_rule: bad.append(('access node from a non-modal rule', repr(n)))
                    elif n.props.get('world1') != nodew: bad.append(('access node not from the node world', repr(n)))
                else:
                    bad.append(('unexpected node kind', repr(n)))
        add(enum_ob(base + '.world', not bad, where=where, schema=RS.fmt_groups(groups), cex=dict(bad=bad)))
        # --- branching attribute vs schema
        if kind != 'quant-fat':
            add(enum_ob(base + '.branching', rc.branching == len(groups) - 1, where=where, branching=rc.branching, groups=len(groups),
                        cex=dict(branching=rc.branching, groups=len(groups))))
    if inherited_only: return results, funcs
    # --- shape coverage: exactly one rule per compound shape the logic interprets
    sem = S.spec_of(L)
    des = (None,) if len(sem.values) == 2 else (True, False)
    ops = list(S.OPERATORS) + (['Possibility', 'Necessity'] if logic.Meta.modal else [])
    qs = ['Existential', 'Universal'] if logic.Meta.quantified else []
    for item in ops + qs:
        for neg in (False, True):
            if item == 'Negation' and not neg: continue        # a negated literal is not a compound shape
            for d in des:
                rs = shapes.get((item, neg, d), [])
                add(enum_ob(f'C04.{L}.shape.{item}.{"neg" if neg else "pos"}.{ {None: "nodes", True: "des", False: "undes"}[d]}',
                            len(rs) == 1, rules=rs, cex=dict(rules=rs)))
    return results, funcs

def run(ctx):
    ctx.level = 'proof'
    ctx.exhaustive = True
    ctx.trust(*TRUSTED); ctx.assume(*ASSUME); ctx.drop(*DROPS)
    ctx.explanation = ('Every rule body of every logic (operator, quantifier, modal) is interpreted from the real source over a free '
                       'sentence algebra with opaque operands; z3 proves, against the independent spec tables, that a node is satisfied iff some '
                       'extension is (forward and backward obligations), for all values of the immediate components and, for quantifier/modal rules, '
                       'for every set of instance values (all domain / accessible-world-set sizes).  Ground obligations: induced attributes, '
                       'filters, world discipline, branching count, one rule per shape, frame rules over all relations on <= 3 worlds.')
    names = [RS.registry()(n).Meta.name for n in RS.registry()]
    for res, funcs in pmap(work_logic, names):
        for r in res: ctx.add_result(r)
        ctx.functions.update(funcs)
    generaliser_obligations(ctx)
    frame_obligations(ctx)
    # premise: instantiation (Quantified.unquantify / substitute) replaces exactly the occurrences of the bound variable (C15)
    from checks import c15 as _c15
    ctx.restate(_c15.run, 'C15.', 'C04.subst.', keep=lambda n: 'substitute' in n or 'unquantify' in n or 'rshift' in n)
    # premise: the helper caches the rule bodies read (WorldIndex, NodeConsts, NodesWorlds, FilterNodeCache ...) describe THIS branch: listeners interpreted from source, forks copy and never alias
    from checks import helpers_ob as _hob
    _hob.helper_obligations(ctx, 'C04')
    # premise of "newly introduced": the witness a rule takes from branch.new_constant() / new_world() occurs nowhere on the branch
    # (C06's append obligations and the real-branch history search, under C04 names)
    from checks import c06 as _c06
    _c06.append_obligations(ctx, 'C04.fresh', only=('fresh-constant', 'fresh-world'))
    ctx.replayers['C04.fresh.'] = _c06.replay_history
    _c06.bounded_histories(ctx, 'C04.fresh', depth=3)
    ctx.samples = [dict(obligation=r.name, where=r.where, status=r.status, meta={k: v for k, v in r.meta.items() if k in ('node', 'designation', 'schema', 'direction', 'kind')})
                   for r in ctx.results if r.name.endswith('.forward')][:5]
    ctx.replayers['C04.'] = lambda r: replay(dict(obligation=r.name, counterexample=r.cex, meta=r.meta))

def generaliser_obligations(ctx):
    "the spec generalisers depend only on the set of values (so the set abstraction is exact)"
    for base in ('FDE', 'K3', 'LP', 'CPL', 'K3WQ', 'MH', 'NH', 'GO', 'L3', 'RM3', 'K3W', 'B3E', 'G3'):
        sem = S.spec_of(base)
        for which in ('exists', 'forall'):
            f = getattr(sem, which)
            bad = []
            for n in range(1, 5):
                for fam in itertools.product(sem.values, repeat=n):
                    if f(list(fam)) != f(sorted(set(fam))): bad.append([S.NAME[v] for v in fam])
            ctx.add(Obligation(f'C04.generaliser.{base}.{which}.set-function', not bad, kind='enum', meta=dict(cex=bad[:3], families='all families of size <= 4')))

# ------------------------------------------------------------------ frame rules (F: all relations over <= 3 worlds)

def frame_obligations(ctx):
    res = pmap(_frame_work, ['K', 'D', 'T', 'S4', 'S5'])
    for results, funcs in res:
        for r in results: ctx.add_result(r)
        ctx.functions.update(funcs)

def _frame_work(lname):
    """drive the real access rules of the logic on a real branch carrying exactly the given access nodes (plus a
    sentence node at each world) until no access rule has a target; compare with the closure computed by spec."""
    from pytableaux.logics import registry
    from pytableaux.proof import Tableau, rules as PR, anode, swnode
    from pytableaux.lang import Atomic
    logic = registry(lname)
    sem = S.spec_of(lname)
    results, funcs = [], {}
    arules = [rc for rc in RS.rule_classes(logic) if RS.classify(rc) == 'access']
    for rc in arules:
        for nm in ('_get_node_targets', '_get_targets', '_should_apply'):
            for c in rc.__mro__:
                if nm in c.__dict__ and c.__module__.startswith('pytableaux'):
                    try:
                        fi = source.of_function(c.__dict__[nm])
                        funcs[fi.key] = dict(file=fi.relfile, qualname=fi.qualname, lines=f'{fi.lineno}-{fi.end_lineno}', sha1=fi.sha1)
                    except Exception: pass
                    break
    worlds = [0, 1, 2]
    pairs = [(a, b) for a in worlds for b in worlds]
    bad = []
    n = 0
    for k in range(0, len(pairs) + 1):
        for rel in itertools.combinations(pairs, k):
            n += 1
            tab = Tableau(logic)
            b = tab.branch()
            present = sorted({w for p in rel for w in p} | {0})
            for w in present: b.append(swnode(Atomic(0, 0), w))
            for (x, y) in rel: b.append(anode(x, y))
            steps = 0
            while steps < 200:
                applied = False
                for rc in arules:
                    rule = tab.rules.get(rc.__name__)
                    t = rule.target(b)
                    if t:
                        rule.apply(t); applied = True; steps += 1
                        break
                if not applied: break
            got = {(nd['world1'], nd['world2']) for nd in b if nd.get('world1') is not None}
            if sem.frame == 'serial':
                # a successor for every world that carries a sentence; only fresh successors are added
                ws = {w for nd in b for w in nd.worlds()}
                ok = all(any((w, v) in got for v in ws) for w in present) and set(rel) <= got
                # the serial rule may legitimately stop after serving the last fresh world once (termination heuristic):
                # the property asks a successor for every world that carries a sentence
                want = 'every sentence-carrying world has a successor'
            elif sem.frame == 'any':
                ok = got == set(rel); want = sorted(rel)
            else:
                cl = S.closure(sem.frame, present, rel)
                ok = got == cl; want = sorted(cl)
            if not ok: bad.append(dict(relation=[list(p) for p in sorted(rel)], got=[list(p) for p in sorted(got)]))
    results.append(discharge(Obligation(f'C04.{lname}.frame-closure', not bad, kind='enum',
                                        meta=dict(logic=lname, relations=n, frame=sem.frame, cex=(bad[0] if bad else None), cex_all=bad or None))))
    return results, funcs

def replay_rule_world(L, rn):
    "apply the real rule to its own kind of node at world 0 of a modal logic: every sentence node it adds carries a world"
    from pytableaux.logics import registry
    from pytableaux.proof import Tableau, sdwnode
    from pytableaux.lang import Atomic, Predicate, Constant, Variable
    logic = registry(L)
    if not logic.Meta.modal: return dict(reproduced=None, detail='not a modal logic')
    tab = Tableau(logic); rule = tab.rules.get(rn); rc = type(rule)
    A, B = Atomic(0, 0), Atomic(1, 0)
    if getattr(rc, 'operator', None) is not None:
        op = rc.operator; s = op(A) if op.arity == 1 else op(A, B)
    elif getattr(rc, 'quantifier', None) is not None:
        x = Variable(0, 0); s = rc.quantifier(x, Predicate(0, 0, 1)(x))
    else: return dict(reproduced=None, detail='not an operator or quantifier rule')
    if rc.negated: s = ~s
    b = tab.branch(); b.append(sdwnode(s, rc.designation, 0))
    t = rule.target(b)
    if not t: return dict(reproduced=None, detail='the rule has no target on its own node')
    rule.apply(t)
    bad = [dict(nd) for br in tab for nd in br if nd.get('sentence') is not None and nd.get('world') is None]
    return dict(reproduced=bool(bad), detail=f'{L}.{rn} applied to {s} at world 0 adds world-less nodes {[str(d.get("sentence")) for d in bad]}' if bad else f'{L}.{rn}: every added node carries a world')

def replay_frame_closure(L, rel):
    "the real access rules of the logic driven to saturation on a real branch with exactly these access nodes"
    from pytableaux.logics import registry
    from pytableaux.proof import Tableau, anode, swnode
    from pytableaux.lang import Atomic
    logic = registry(L); sem = S.spec_of(L)
    arules = [rc for rc in RS.rule_classes(logic) if RS.classify(rc) == 'access']
    tab = Tableau(logic); b = tab.branch()
    present = sorted({w for p in rel for w in p} | {0})
    for w in present: b.append(swnode(Atomic(0, 0), w))
    for (x, y) in rel: b.append(anode(x, y))
    for _ in range(200):
        for rc in arules:
            rule = tab.rules.get(rc.__name__); t = rule.target(b)
            if t: rule.apply(t); break
        else: break
    got = {(nd['world1'], nd['world2']) for nd in b if nd.get('world1') is not None}
    if sem.frame == 'serial':
        ws = {w for nd in b for w in nd.worlds()}
        ok = all(any((w, v) in got for v in ws) for w in present) and set(rel) <= got; want = 'a successor for every sentence-carrying world'
    elif sem.frame == 'any': ok = got == set(rel); want = sorted(rel)
    else:
        cl = S.closure(sem.frame, present, rel); ok = got == cl; want = sorted(cl)
    return dict(reproduced=not ok, detail=f'{L}: access nodes {sorted(rel)} (a sentence at each world) saturate to {sorted(got)}; the {sem.frame} frame condition needs {want}')

def replay(payload):
    """run the real rule on a real one-node branch and compare what it adds with the schema; evaluate the
    counterexample with the spec semantics"""
    meta = payload.get('meta') or {}
    cex = payload.get('counterexample')
    L, rn = meta.get('logic'), meta.get('rule')
    if L and 'frame' in meta and isinstance(cex, dict) and 'relation' in cex:
        return replay_frame_closure(L, [tuple(p) for p in cex['relation']])
    if str(payload.get('obligation', '')).endswith('.world'):
        parts = payload['obligation'].split('.')
        return replay_rule_world(parts[-3], parts[-2])
    if L and rn and (meta.get('kind') != 'operator' or not isinstance(cex, dict)):
        return replay_by_search(L, rn)
    if not (L and rn):
        return dict(reproduced=None, detail='no concrete replay for this obligation kind; see counterexample/meta')
    from pytableaux.logics import registry
    from pytableaux.proof import Tableau, sdwnode
    from pytableaux.lang import Atomic, Operator
    logic = registry(L)
    sem = S.spec_of(L)
    tab = Tableau(logic)
    rule = tab.rules.get(rn)
    rc = type(rule)
    A, B = Atomic(0, 0), Atomic(1, 0)
    op = rc.operator
    s = op(A) if op.arity == 1 else op(A, B)
    if rc.negated: s = ~s
    w = 0 if logic.Meta.modal else None
    b = tab.branch(); b.append(sdwnode(s, rc.designation, w))
    t = rule.target(b)
    env = {A: S.VAL[cex.get('A', 'F')], B: S.VAL[cex.get('B', 'F')]}
    def val(x):
        if x in env: return env[x]
        return sem.op(x.operator.name, *[val(y) for y in x])
    def sat(nd):
        v = val(nd['sentence']); d = nd.get('designated')
        return (v == S.T) if d is None else ((v in sem.designated) == d)
    node_sat = sat(b[0])
    ext = [[(str(n['sentence']), n.get('designated'), sat(n)) for n in g] for g in t['adds']]
    some = any(all(x[2] for x in g) for g in ext)
    fails = (node_sat and not some) if meta.get('direction') == 'forward' else (some and not node_sat)
    return dict(reproduced=bool(fails), detail=f'{L} {rn}: node {b[0]["sentence"]} des={rc.designation} at A={cex.get("A")},B={cex.get("B")} satisfied={node_sat}; extensions (sentence, des, satisfied)={ext}',
                call=f'Tableau("{L}").rules.get("{rn}").target(<one-node branch>)')


def replay_by_search(L, rule_name, limit=400):
    """a failing input for a quantifier / modal (or any) rule obligation, by search: small arguments built around the node shape
    of the rule are run on the real prover; a `valid` verdict with an independently found small countermodel, or an `invalid`
    verdict whose limit-free open branch yields a model that fails a node of the branch, reproduces the defect"""
    from pytableaux.logics import registry
    from pytableaux.proof import Tableau
    from pytableaux.lang import Atomic, Operator, Quantifier, Predicate, Constant, Variable, Argument
    from bounded import prover as P
    from spec import evaluate as E
    import itertools as _it
    logic = registry(L); sem = S.spec_of(L)
    rule = Tableau(logic).rules.get(rule_name); rc = type(rule)
    A, B = Atomic(0, 0), Atomic(1, 0)
    F = Predicate(0, 0, 1); G = Predicate(1, 0, 2); x = Variable(0, 0); m, n = Constant(0, 0), Constant(1, 0)
    op = getattr(rc, 'operator', None); q = getattr(rc, 'quantifier', None)
    pool = []
    if q is not None:
        shapes = [q(x, F(x)), q(x, Operator.Disjunction(F(x), G(x, m))), q(x, Operator.Conjunction(F(x), ~G(x, x)))]
        base = [F(m), F(n), G(m, m), G(n, m)]
    elif op is not None and op.name in ('Possibility', 'Necessity'):
        shapes = [op(A), op(op(A)), op(Operator.Disjunction(A, B)), Operator.Necessity(Operator.Possibility(A)), Operator.Possibility(Operator.Necessity(A))]
        base = [A, B, Operator.Possibility(A), Operator.Necessity(A), Operator.Possibility(B)]
    elif op is not None:
        shapes = [op(A) if op.arity == 1 else op(A, B)]
        base = [A, B]
    else:
        return dict(reproduced=None, detail='the rule has neither operator nor quantifier')
    for sh in shapes: pool += [sh, ~sh]
    for b_ in base: pool += [b_, ~b_]
    seen = 0
    for k in (1, 2):
        for prem in _it.combinations(pool, k):
            for concl in pool:
                if concl in prem: continue
                seen += 1
                if seen > limit: return dict(reproduced=False, detail=f'no failing input among {limit} arguments built around the node shape of {rule_name}')
                arg = Argument(concl, prem)
                o, tab = P.outcome(logic, arg, is_build_models=True, max_steps=600)
                if o == 'valid':
                    d = E.small_countermodel(sem, arg.premises, arg.conclusion, budget=60_000)
                    if d is not None:
                        return dict(reproduced=True, argument=arg.argstr(),
                                    detail=f'{L}: the real prover reports {arg.argstr()} ({", ".join(map(str, prem))} |- {concl}) valid; independent countermodel: worlds {d.worlds}, R {sorted(d.R)}, domain {[str(c) for c in d.domain]}, '
                                           f'atoms {({f"{a}@{w}": S.NAME[v] for (w, a), v in d.atom.items()})}, predications {({f"{p_.name}{tuple(map(str, t))}@{w}": S.NAME[v] for (w, p_, t), v in d.pred.items()})}')
                elif o == 'invalid':
                    try: fails = [f for f in P.branch_model_failures(logic, tab, sem) if f[0] != 'evaluator']
                    except Exception as e: fails = [('exception', type(e).__name__)]
                    if fails:
                        return dict(reproduced=True, argument=arg.argstr(), detail=f'{L}: the real prover refutes {arg.argstr()} with a limit-free open branch whose own model fails {list(fails[0])}')
    return dict(reproduced=False, detail=f'no failing input among {seen} arguments built around the node shape of {rule_name}')
