"""C09 — the verdict does not depend on how the proof is searched."""
from __future__ import annotations
import itertools, json, os, random, subprocess, sys
import z3
from pyvc import source, REPO, VERIF
from pyvc.interp import Interp, explore, Outside, PyExc, SymVal, Contract, GenList, BoundSource
from pyvc.world import World
from pyvc.smt import Obligation, Result, discharge
from pyvc.par import pmap
from checks import selection, rulesem as RS
from checks.structs import Holder, Tok

def enum_ob(name, ok, where='', **meta):
    return Obligation(name, True if ok else False, kind='enum', where=where, meta=meta)

class OptNum(SymVal):
    "None or a real number"
    def __init__(self, name): self.is_none = z3.Bool(f'{name}.is_none'); self.val = z3.Real(f'{name}.val')
    def sym_compare(self, it, op, other, reflected):
        if other is None:
            if op == 'Eq': return self.is_none
            if op == 'NotEq': return z3.Not(self.is_none)
        if isinstance(other, (int, float, z3.ArithRef)) and not isinstance(other, bool):
            if it.fork(self.is_none): raise PyExc(TypeError, ("'>' not supported between instances of 'NoneType' and 'int'",))
            a, b = (other, self.val) if reflected else (self.val, other)
            return dict(Eq=a == b, NotEq=a != b, Lt=a < b, LtE=a <= b, Gt=a > b, GtE=a >= b)[op]
        raise Outside('OptNum compare')
    def sym_is(self, it, other): return self.is_none if other is None else False
    def sym_binop(self, it, op, other, reflected):
        if it.fork(self.is_none): raise PyExc(TypeError, ('unsupported operand type(s) for NoneType',))
        import ast
        return it.binop(getattr(ast, op), other, self.val) if reflected else it.binop(getattr(ast, op), self.val, other)

class TargetS(SymVal):
    def __init__(self, rank):
        self.score = OptNum('candidate_score')
        self.rank = rank
        self.flag = z3.Bool('target.flag')
    def sym_getitem(self, it, k):
        if k == 'candidate_score': return self.score
        if k == 'adds': return (('n1',), ('n2',))
        raise PyExc(KeyError, (k,))
    def sym_getattr(self, it, name):
        if name == 'get':
            def get(it, k, d=None):
                kk = getattr(k, 'value', k)
                if kk == 'flag': return self.flag
                return d
            return Contract(get, 'Target.get')
        if name in ('branch', 'node'): return Tok(name)
        if name == 'world2': return z3.Int('target.world2')
        raise Outside(f'target.{name}')

class NumHelper(SymVal):
    "a helper whose lookups return symbolic non-negative integers / 0-1 scores"
    def __init__(self, name): self.name = name
    def sym_getitem(self, it, k): return self
    def sym_getattr(self, it, name):
        if name == 'closure_score':
            def cs(it, t):
                r = it.fresh(z3.RealSort(), 'closure_score'); it.assume(z3.And(r >= 0, r <= 1)); return r
            return Contract(cs, 'AdzHelper.closure_score')
        if name == 'modals': return self
        raise Outside(f'{self.name}.{name}')
    def sym_truth(self, it): return True
    def _num(self, it):
        r = it.fresh_int(self.name); it.assume(r >= 0); return r
    def sym_compare(self, it, op, other, reflected): return it.compare(getattr(__import__('ast'), op), self._num(it), other)
    def sym_binop(self, it, op, other, reflected):
        import ast
        v = self._num(it)
        return it.binop(getattr(ast, op), other, v) if reflected else it.binop(getattr(ast, op), v, other)

class ScoreRule(RS.R.RuleModel):
    INLINE = RS.R.RuleModel.INLINE + ('score_candidate', 'group_score')
    def sym_getattr(self, it, name):
        if name == 'tableau': return Holder(branching_complexity=Contract(lambda it, n: (lambda r: (it.assume(r >= 0), r)[1])(it.fresh_int('complexity')), 'Tableau.branching_complexity'))
        if name == 'branching': return int(self.rulecls.branching) if isinstance(self.rulecls.branching, int) else 0
        if name == 'sentence':
            return Contract(lambda it, node: RS.R.STerm.Op(self.rulecls.operator, RS.R.Atom('A')) if getattr(self.rulecls, 'operator', None) is not None and self.rulecls.operator.arity == 1 else RS.R.Atom('S'), 'sentence')
        return super().sym_getattr(it, name)
    def sym_getitem(self, it, helpercls): return NumHelper(getattr(helpercls, '__name__', 'helper'))

def score_obligations(ctx):
    """every score_candidate / group_score body, for symbolic is_rank_optim (candidate_score is None iff rank
    optimisation is off, by the contract of Rule._extend_targets proved in selection.rule_target_obligations)"""
    world = RS.R.make_world()
    seen = {}
    for logic in RS.all_logics():
        for rc in RS.rule_classes(logic):
            for meth in ('score_candidate', 'group_score'):
                dc = None
                for c in rc.__mro__:
                    if meth in c.__dict__: dc = c; break
                key = (dc.__qualname__, meth, getattr(rc, 'operator', None) is not None and rc.operator.arity == 1, isinstance(rc.branching, int) and rc.branching)
                if key in seen: continue
                seen[key] = (logic, rc, dc)
    bad = {}
    n = 0
    for (qn, meth, _u, _b), (logic, rc, dc) in sorted(seen.items(), key=lambda kv: str(kv[0])):
        fn = dc.__dict__[meth]; fi = source.of_function(fn); where = ctx.under_contract(fi)
        name = f'C09.score.{qn}.{meth}'
        rank = z3.Bool('is_rank_optim')
        def run(path):
            it = Interp(path, world)
            t = TargetS(rank)
            path.assume(t.score.is_none == z3.Not(rank))
            rm = ScoreRule(rc, logic)
            return it.call_source(fi, fn, dc, [rm, t], {}, recv=rm)
        try:
            prs = explore(run)
        except Outside as e:
            if name not in bad: ctx.add_result(Result(name, 'unknown', detail=f'outside subset: {e}', where=where)); bad[name] = True
            continue
        n += 1
        cl = []; excs = []
        for pr in prs:
            if pr.kind == 'raise': cl.append(z3.Not(pr.pc)); excs.append(pr.value.cls.__name__)
        if name in bad: continue
        bad[name] = True
        def decode(m): return dict(is_rank_optim=bool(z3.is_true(m.eval(rank, model_completion=True))), raises=sorted(set(excs)))
        ctx.add(Obligation(name, z3.And(*cl) if cl else z3.BoolVal(True), where=where, decode=decode,
                           meta=dict(clause='the score function raises no exception for any value of is_rank_optim (candidate_score is None exactly when rank optimisation is off)', rule_class=rc.__name__, logic=logic.Meta.name)))

# ------------------------------------------------------------------ order-insensitivity of rules that iterate unordered collections

def _order_work(lname):
    """universal modal rules (they iterate the set of accessible worlds) and fat quantifier rules (they iterate the set of
    unapplied constants): the SET of instances offered must not depend on the iteration order, for every decided content of the
    branch (which instances are already there / already applied)."""
    from pytableaux.proof import rules as PR, helpers as H
    from contracts import rules as R
    from contracts.rules import WorldTok, Param, NodeVal
    logic = RS.registry()(lname); L = logic.Meta.name
    out = []; funcs = {}
    w2, w3 = WorldTok('w2'), WorldTok('w3')
    class WIdx(SymVal):
        def __init__(s, order): s.order = order
        def sym_getitem(s, it, branch):
            o = s.order
            class M(SymVal):
                def sym_getattr(s2, it, name):
                    if name == 'get': return Contract(lambda it, w1, default=None: GenList(o), 'WorldIndex[branch].get')
                    raise Outside(f'WorldIndex[branch].{name}')
            return M()
        def sym_getattr(s, it, name): raise Outside(f'WorldIndex.{name}')
    class Applied(SymVal):
        def __init__(s, names): s.names = names
        def sym_getitem(s, it, branch): return s
        def sym_contains(s, it, x):
            try: return repr(x[1]) in s.names
            except Exception: raise Outside('NodesWorlds key')
    class BranchFixed(R.BranchTok):
        def __init__(s, present): super().__init__(); s.present = present
        def sym_getattr(s, it, name):
            if name == 'has': return Contract(lambda it, node: repr(node.props.get('world')) in s.present, 'Branch.has')
            return super().sym_getattr(it, name)
    class Least(SymVal):
        def sym_getattr(s, it, name):
            if name == 'isleast': return Contract(lambda it, n, b: True, 'NodeCount.isleast')
            raise Outside(f'NodeCount.{name}')
    subsets = [(), ('w2',), ('w3',), ('w2', 'w3')]
    for rc in RS.rule_classes(logic):
        kind = RS.classify(rc)
        if kind == 'modal':
            fn = None
            for c in rc.__mro__:
                if '_get_node_targets' in c.__dict__: fn, defc = c.__dict__['_get_node_targets'], c; break
            fi = source.of_function(fn)
            if 'WorldIndex' not in fi.src: continue          # witness-creating modal rules do not iterate
            funcs[fi.key] = dict(file=fi.relfile, qualname=fi.qualname, lines=f'{fi.lineno}-{fi.end_lineno}', sha1=fi.sha1)
            inner = RS.inner_sentence(rc, 'modal')
            world = R.make_world()
            bad = None; und = None; offered = 0
            for applied in subsets:
                for present in subsets:
                    got = {}
                    for order in ([w2, w3], [w3, w2]):
                        def run(path, order=order):
                            it = Interp(path, world)
                            rm = R.RuleModel(rc, logic, helpers={H.WorldIndex: WIdx(order), H.NodesWorlds: Applied(applied), H.NodeCount: Least()})
                            node, ns = RS._node_for(logic, rc, inner)
                            return it.iterate(it.call(rm.bound('_get_node_targets'), [node, BranchFixed(present)], {}))
                        try: prs = explore(run)
                        except Outside as e: und = f'outside subset: {e}'; break
                        if len(prs) != 1 or prs[0].kind != 'return': und = f'forks or raises on a decided branch content: {[p.kind for p in prs]}'; break
                        inst = set()
                        for t in prs[0].value:
                            for g in t['adds']:
                                for nd in g: inst.add((repr(nd.props.get('sentence')), nd.props.get('designated'), repr(nd.props.get('world'))))
                        got[tuple(map(repr, order))] = inst
                    if und: break
                    a, b = got.values()
                    offered += len(a)
                    if a != b and bad is None:
                        bad = dict(applied_to=list(applied), present_at=list(present), offered={str(k): sorted(map(list, v)) for k, v in got.items()})
                if und: break
            name = f'C09.order.{L}.{rc.__name__}'
            if und: out.append(Result(name, 'unknown', detail=und, where=fi.where)); continue
            out.append(discharge(Obligation(name, bad is None and offered > 0, kind='enum', where=fi.where,
                                            meta=dict(logic=L, rule=rc.__name__, clause='the set of instances offered is the same for both iteration orders of the accessible worlds, for all 16 decided branch contents', cex=bad))))
        elif kind == 'quant-fat' and source.defining_class(rc, '_get_node_targets') is PR.ExtendedQuantifierRule:
            fn = PR.ExtendedQuantifierRule.__dict__['_get_node_targets']; fi = source.of_function(fn)
            funcs[fi.key] = dict(file=fi.relfile, qualname=fi.qualname, lines=f'{fi.lineno}-{fi.end_lineno}', sha1=fi.sha1)
            from checks.c02 import NodeConstsModel, BranchK
            inner = RS.inner_sentence(rc, 'quant-fat')
            world = R.make_world()
            c_, d_ = Param('const', 'c'), Param('const', 'd')
            got = {}; und = None
            for order in ([c_, d_], [d_, c_]):
                def run(path, order=order):
                    it = Interp(path, world)
                    rm = R.RuleModel(rc, logic, helpers={H.NodeConsts: NodeConstsModel(GenList(order)), H.AdzHelper: None, H.NodeCount: None})
                    node, ns = RS._node_for(logic, rc, inner)
                    return it.iterate(it.call_source(fi, fn, PR.ExtendedQuantifierRule, [rm, node, BranchK(True)], {}, recv=rm))
                try: prs = explore(run)
                except Outside as e: und = f'outside subset: {e}'; break
                sets = set()
                for pr in prs:
                    if pr.kind != 'return': sets.add('exception'); continue
                    sets.add(frozenset(repr(t['constant']) for t in pr.value))
                got[tuple(map(repr, order))] = sets
            name = f'C09.order.{L}.{rc.__name__}'
            if und: out.append(Result(name, 'unknown', detail=und, where=fi.where)); continue
            a, b = got.values()
            out.append(discharge(Obligation(name, a == b and a == {frozenset(['c', 'd'])}, kind='enum', where=fi.where,
                                            meta=dict(logic=L, rule=rc.__name__, clause='both unapplied constants are served, in either iteration order of the NodeConsts set', cex=dict(offered={str(k): [sorted(x) if not isinstance(x, str) else x for x in v] for k, v in got.items()})))))
    return out, funcs

def order_obligations(ctx):
    from pyvc.smt import discharge
    names = [l.Meta.name for l in RS.all_logics()]
    for res, funcs in pmap(_order_work, names):
        for r in res: ctx.add_result(r)
        ctx.functions.update(funcs)

def stepiter_obligation(ctx):
    from pytableaux.proof import Tableau
    fn = Tableau.__dict__['stepiter']; fi = source.of_function(fn); where = ctx.under_contract(fi)
    fb = Tableau.__dict__['build']; fib = source.of_function(fb); ctx.under_contract(fib)
    ok = True
    for k in (0, 1, 3):
        seq = [Tok(f'e{i}') for i in range(k)] + [None]
        class T(SymVal):
            def __init__(s): s.i = 0
            def sym_getattr(s, it, name):
                if name == 'step':
                    def step(it):
                        v = seq[s.i]; s.i += 1; return v
                    return Contract(step, 'Tableau.step')
                if name == 'stepiter': return BoundSource(fi, fn, Tableau, s)
                raise Outside(name)
        t = T()
        prs = explore(lambda path: Interp(path, World()).call_source(fi, fn, Tableau, [t], {}))
        if not (len(prs) == 1 and list(prs[0].value) == seq[:-1] and t.i == k + 1): ok = False
        t2 = T()
        prs = explore(lambda path: Interp(path, World()).call_source(fib, fb, Tableau, [t2], {}))
        if not (len(prs) == 1 and prs[0].value is t2 and t2.i == k + 1): ok = False
    ctx.add(enum_ob('C09.build-is-repeated-step', ok, where=where, clause='stepiter() yields exactly the entries step() returns until it returns None; build() drains it: building in one call and stepping by hand perform the same calls', cex={}))

ORDER_SCRIPT = r'''
import sys, json, random
from pytableaux.lang import Argument
from pytableaux.proof import Tableau
from pytableaux.logics import registry
jobs = json.loads(sys.stdin.read())
out = []
for L, astr, opts, mode in jobs:
    arg = Argument(astr)
    try:
        t = Tableau(L, arg, max_steps=400, build_timeout=1500, **opts)
        if mode == 'build': t.build()
        else:
            while t.step() is not None: pass
        if t.premature: cls = 'limit'
        elif t.valid: cls = 'valid'
        else:
            free = [b for b in t.open if not any(n.get('is_flag') and n.get('flag') == 'quit' for n in b)]
            cls = 'invalid' if free else 'limit'
    except Exception as e:
        cls = 'limit' if type(e).__name__ == 'ProofTimeoutError' else 'exception:' + type(e).__name__
    out.append(cls)
print(json.dumps(out))
'''

def bounded_search_independence(ctx):
    """B: same (logic, argument) under option combinations x build/step x hook-seeded set orders x premise
    permutations/duplications must give the same outcome class (limits excluded) and never raise"""
    from bounded import args as A
    rnd = random.Random(ctx.seed + 9)
    names = [l.Meta.name for l in RS.all_logics()]
    n_args = 8 if ctx.thorough else 2
    orders = [0, 1, 2, 3, 4, 5] if ctx.thorough else [0, 3]
    base_jobs = []
    for L in names:
        lg = RS.registry()(L)
        kinds = ['prop'] + (['modal'] if lg.Meta.modal else []) + (['fo'] if lg.Meta.quantified else [])
        for i in range(n_args):
            arg = A.random_argument(rnd, kinds[i % len(kinds)], depth=3, max_premises=2)
            variants = [arg.argstr()]
            prem = list(arg.premises)
            if len(prem) >= 2:
                from pytableaux.lang import Argument
                variants.append(Argument(arg.conclusion, prem[::-1]).argstr())
            if prem:
                from pytableaux.lang import Argument
                variants.append(Argument(arg.conclusion, prem + [prem[0]]).argstr())
            base_jobs.append((L, variants))
    opts_list = [dict(is_group_optim=g, is_rank_optim=r) for g in (True, False) for r in (True, False)]
    # one subprocess per hash order (the hook reads PYTABLEAUX_VERIF_ORDER at import)
    def jobs_for():
        js = []
        for L, variants in base_jobs:
            for v in variants:
                for o in opts_list:
                    js.append((L, v, o, 'build'))
                js.append((L, v, opts_list[0], 'step'))
        return js
    js = jobs_for()
    results = {}
    procs = []
    for od in orders:
        env = dict(os.environ, PYTABLEAUX_VERIF='1', PYTABLEAUX_VERIF_ORDER=str(od), PYTHONPATH=REPO)
        # split over 5 processes per order
        chunks = [js[i::8] for i in range(8)]
        for ci, ch in enumerate(chunks):
            p = subprocess.Popen([sys.executable, '-c', ORDER_SCRIPT], stdin=subprocess.PIPE, stdout=subprocess.PIPE, stderr=subprocess.PIPE, text=True, env=env)
            p.stdin.write(json.dumps(ch)); p.stdin.close()
            procs.append((od, ci, ch, p))
    total = 0
    for od, ci, ch, p in procs:
        out = p.stdout.read(); p.wait()
        if p.returncode != 0:
            ctx.fault(f'order subprocess failed: {p.stderr.read()[-300:]}'); continue
        res = json.loads(out.strip().splitlines()[-1])
        for (L, v, o, mode), cls in zip(ch, res):
            results[(L, v, json.dumps(o, sort_keys=True), mode, od)] = cls
            total += 1
    fails = []
    groups = {}
    variant_of = {}
    for L, variants in base_jobs:
        for v in variants: variant_of[(L, v)] = (L, variants[0])
    for (L, v, o, mode, od), cls in results.items():
        groups.setdefault(variant_of[(L, v)], []).append((v, o, mode, od, cls))
    distinct = 0
    for key, runs in groups.items():
        verdicts = {c for *_x, c in runs if c in ('valid', 'invalid')}
        excs = [r for r in runs if r[-1].startswith('exception')]
        if len(verdicts) > 1: distinct += 1
        for r in excs[:1]: fails.append(dict(logic=key[0], argument=r[0], options=json.loads(r[1]), mode=r[2], order=r[3], kind=r[4]))
        if len(verdicts) > 1:
            va = next(r for r in runs if r[-1] == 'valid'); ia = next(r for r in runs if r[-1] == 'invalid')
            fails.append(dict(logic=key[0], argument=key[1], kind='verdict-differs', valid_run=dict(argument=va[0], options=json.loads(va[1]), mode=va[2], order=va[3]), invalid_run=dict(argument=ia[0], options=json.loads(ia[1]), mode=ia[2], order=ia[3])))
    ctx.bounded_part(evaluations=total, distinct_nontrivial=len(groups), rule='seeded random arguments x 57 logics x {group optimisation} x {rank optimisation} x {build, step loop} x hook-seeded hash orders (PYTABLEAUX_VERIF_ORDER, one fresh interpreter per order) x premise reversal / duplication: no run raises, and all runs of one argument that end in a verdict agree (limit outcomes excluded); distinct = (logic, argument) groups',
                     bound=f'{n_args} arguments per logic, orders {orders}, <= 400 steps / 1.5 s', samples=[dict(logic='K', argument='b:Ma', options=dict(is_group_optim=True, is_rank_optim=False))] + fails[:3], label='search independence')
    seen = set()
    for f in fails:
        key = (f['kind'], f['logic'])
        if key in seen: continue
        seen.add(key)
        ctx.bounded_failure(f"C09.bounded.{f['kind'].split(':')[0]}.{f['logic']}", str(f)[:400], f, instance=f['argument'])

def run(ctx):
    from checks import c01, c02
    ctx.level = 'other'
    ctx.drop('type annotations', 'docstrings', 'with self.timers[...] blocks replaced by their bodies')
    ctx.trust('paper lemma L-INDEP (DESIGN.md §4): if every valid verdict is sound for all option values and iteration orders (C01) and every limit-free refutation yields a countermodel (C02), the outcome class is a fact about the argument and the logic, not about the search',
              'helper lookups inside score functions return numbers (NodeCount, AplSentCount, MaxWorlds.modals, branching_complexity are int-valued maps; AdzHelper.closure_score returns a number in [0,1])')
    ctx.assume('CPython semantics of the interpreted subset as encoded by pyvc/interp.py', 'set iteration order is arbitrary in the selection obligations (targets are offered by abstract choices)')
    ctx.explanation = ('Own obligations (proved): every score_candidate / group_score body of every rule class is interpreted from source for symbolic is_rank_optim with candidate_score None exactly when rank optimisation is off: no '
                       'exception path is feasible; Rule.target / _extend_targets / _select_best_target and Tableau.next / _get_group_application / _select_optim_group_application are choice-only for all option values; build() is '
                       'repeated step().  Derived: L-INDEP over the C01/C02 obligation sets.  Bounded: outcome classes across options, build/step, hook-seeded hash orders in fresh interpreters and premise permutations.')
    score_obligations(ctx)
    selection.rule_target_obligations(ctx, 'C09')
    selection.next_obligations(ctx, 'C09')
    stepiter_obligation(ctx)
    # rules that iterate hash-ordered sets with early exits: the offered target set must not depend on the order
    for n in RS.registry():
        lg = RS.registry()(n); funcs = {}
        for r in c01.identity_order_obligations(lg, funcs, 'C09'):
            if r.name.endswith('.order-insensitive') or r.status == 'unknown': ctx.add_result(r)
        ctx.functions.update(funcs)
    ctx.replayers['C09.identity.'] = replay_identity_order
    order_obligations(ctx)
    # targets drawn from hash-ordered node sets: the node_targets wrapper visits every cached node and forwards every target
    from checks import helpers_ob
    helpers_ob.helper_obligations(ctx, 'C09')
    # premise: whether a witness is fresh must not depend on the order in which the trunk's nodes arrived (C06's append obligations
    # and history search, under C09 names): a stale next-constant makes verdicts depend on premise order and multiplicity
    from checks import c06 as _c06
    _c06.append_obligations(ctx, 'C09.fresh', only=('fresh-constant', 'fresh-world'))
    ctx.replayers['C09.fresh.'] = _c06.replay_history
    _c06.bounded_histories(ctx, 'C09.fresh', depth=3)
    bounded_search_independence(ctx)
    ctx.replayers['C09.'] = lambda r: dict(reproduced=None, detail='see counterexample / meta')

def replay_identity_order(r):
    "the two premise presentations of  Fm, m=n, n=m |- Fn  under hook-seeded hash orders on the real prover"
    import subprocess, sys, os, json as _json
    L = r.meta.get('logic')
    code = ("import sys, json\nfrom pytableaux.lang import Argument\nfrom pytableaux.proof import Tableau\n"
            "out = {}\n"
            "for a in ('Fn:Fm:Imn:Inm', 'Fn:Imn:Inm:Fm', 'Fn:Imn:Imn:Fm', 'Fn:Inm:Fm:Imn'):\n"
            "    t = Tableau(sys.argv[1], Argument(a)).build(); out[a] = bool(t.valid)\n"
            "print(json.dumps(out))\n")
    seen = {}
    for order in range(6):
        env = dict(os.environ, PYTABLEAUX_VERIF='1', PYTABLEAUX_VERIF_ORDER=str(order))
        p = subprocess.run([sys.executable, '-c', code, L], capture_output=True, text=True, env=env)
        if p.returncode != 0: return dict(reproduced=None, detail='replay run failed: ' + p.stderr[-200:])
        for a, v in _json.loads(p.stdout).items(): seen.setdefault(a, set()).add(v)
    bad = {a: sorted(v) for a, v in seen.items() if v != {True}}
    return dict(reproduced=bool(bad), detail=f'{L}: Fm, m=n, n=m |- Fn (valid) in four premise presentations under 6 hook-seeded hash orders: verdicts other than valid: {bad}')

def replay(payload):
    if payload.get('kind') == 'bounded':
        f = payload['input']
        run_ = f.get('valid_run') or f
        env = dict(os.environ, PYTABLEAUX_VERIF='1', PYTABLEAUX_VERIF_ORDER=str(run_.get('order', 0)), PYTHONPATH=REPO)
        js = [(f['logic'], run_.get('argument', f.get('argument')), run_.get('options', {}), run_.get('mode', 'build'))]
        if 'invalid_run' in f:
            r2 = f['invalid_run']; js.append((f['logic'], r2['argument'], r2['options'], r2['mode']))
        p = subprocess.run([sys.executable, '-c', ORDER_SCRIPT], input=json.dumps(js), capture_output=True, text=True, env=env)
        res = json.loads(p.stdout.strip().splitlines()[-1]) if p.returncode == 0 else [p.stderr[-200:]]
        bad = any(str(r).startswith('exception') for r in res) or (len(res) == 2 and {res[0], res[1]} == {'valid', 'invalid'})
        return dict(reproduced=bool(bad), detail=str(res))
    return dict(reproduced=None, detail='see counterexample / meta')
