"""C11 — declared logic extensions preserve validity."""
from __future__ import annotations
import itertools, random
from pyvc import source
from pyvc.smt import Obligation, Result, discharge
from pyvc.par import pmap
from checks import rulesem as RS
from spec import semantics as S, evaluate as E

def enum_ob(name, ok, where='', **meta):
    return Obligation(name, True if ok else False, kind='enum', where=where, meta=meta)

FRAME_INCLUDES = {                      # frame class of the extension (stronger) -> frame classes that contain it
    'none': {'none'}, 'any': {'any'}, 'serial': {'any', 'serial'}, 'reflexive': {'any', 'serial', 'reflexive'},
    'preorder': {'any', 'serial', 'reflexive', 'preorder'}, 'equivalence': {'any', 'serial', 'reflexive', 'preorder', 'equivalence'}}

def declared_pairs():
    "(stronger L, weaker L') for every declared extension_of entry"
    out = []
    for logic in RS.all_logics():
        for w in logic.Meta.extension_of:
            out.append((logic.Meta.name, RS.registry()(w).Meta.name))
    return sorted(set(out))

def closure_pairs():
    ext = {}
    for a, b in declared_pairs(): ext.setdefault(a, set()).add(b)
    ch = True
    while ch:
        ch = False
        for a in list(ext):
            for b in list(ext[a]):
                for c in ext.get(b, ()):
                    if c not in ext[a]: ext[a].add(c); ch = True
    return ext

def inclusion(strong, weak):
    """every interpretation of the stronger logic L is an interpretation of the weaker logic L' with the same
    designation of every sentence: finite semantic-inclusion clauses.  -> list of failed clauses"""
    a, b = S.spec_of(strong), S.spec_of(weak)
    bad = []
    if not set(a.values) <= set(b.values): bad.append(dict(clause='values', missing=[S.NAME[v] for v in a.values if v not in b.values])); return bad
    for v in a.values:
        if (v in a.designated) != (v in b.designated): bad.append(dict(clause='designated', value=S.NAME[v]))
    for op in S.OPERATORS:
        for tup in itertools.product(a.values, repeat=S.ARITY[op]):
            if a.op(op, *tup) != b.op(op, *tup): bad.append(dict(clause=f'table.{op}', args=[S.NAME[v] for v in tup], strong=S.NAME[a.op(op, *tup)], weak=S.NAME[b.op(op, *tup)]))
    if a.quantified and b.quantified:
        for k in (1, 2, 3):
            for fam in itertools.product(a.values, repeat=k):
                for nm in ('exists', 'forall'):
                    if getattr(a, nm)(list(fam)) != getattr(b, nm)(list(fam)): bad.append(dict(clause=f'quantifier.{nm}', family=[S.NAME[v] for v in fam], strong=S.NAME[getattr(a, nm)(list(fam))], weak=S.NAME[getattr(b, nm)(list(fam))]))
    if a.modal and b.modal:
        for k in (0, 1, 2, 3):
            for fam in itertools.product(a.values, repeat=k):
                for nm in ('poss', 'nec'):
                    if getattr(a, nm)(list(fam)) != getattr(b, nm)(list(fam)): bad.append(dict(clause=f'modal.{nm}', family=[S.NAME[v] for v in fam]))
        if b.frame not in FRAME_INCLUDES[a.frame]: bad.append(dict(clause='frame', strong=a.frame, weak=b.frame))
    if b.modal and not a.modal: bad.append(dict(clause='modal-vocabulary', note='the weaker logic interprets modal operators the stronger one treats as opaque'))
    return bad

def registry_closure_obligation(ctx):
    from pytableaux.logics import Registry
    reg = RS.registry()
    for nm in ('get_extends', 'get_extensions'):
        ctx.under_contract(source.of_function(Registry.__dict__[nm]))
    ext = closure_pairs()
    bad = []
    inv = {}
    for a, bs in ext.items():
        for b in bs: inv.setdefault(b, set()).add(a)
    for logic in RS.all_logics():
        L = logic.Meta.name
        got = {x.Meta.name for x in reg.get_extends(L)}
        if got != ext.get(L, set()): bad.append(dict(logic=L, fn='get_extends', got=sorted(got), want=sorted(ext.get(L, set()))))
        got2 = {x.Meta.name for x in reg.get_extensions(logic)}
        try: reg.get_extensions(L)
        except Exception as e: bad.append(dict(logic=L, fn="get_extensions", note=f"called with the logic name raises {type(e).__name__}"))
        if got2 != inv.get(L, set()): bad.append(dict(logic=L, fn='get_extensions', got=sorted(got2), want=sorted(inv.get(L, set()))))
        if list(reg.get_extends(L)) != sorted(reg.get_extends(L), key=lambda m: m.Meta): bad.append(dict(logic=L, fn='get_extends', note='not sorted'))
    ctx.add(enum_ob('C11.registry.closure', not bad, clause='get_extends / get_extensions return exactly the transitive closure of Meta.extension_of (computed independently), sorted, for all 57 logics (run on the real registry)', cex=dict(bad=bad[:3])))

def _ext_chunk(job):
    strong, weak, seed, count = job
    from bounded import args as A, prover as P
    ls, lw = RS.registry()(strong), RS.registry()(weak)
    rnd = random.Random(seed)
    n = 0; bad = []
    kinds = ['prop', 'prop']
    if lw.Meta.modal: kinds.append('modal')
    if lw.Meta.quantified: kinds.append('fo')
    sem_s = S.spec_of(strong)
    tries = 0
    while n < count and tries < count * 12:
        tries += 1
        kind = kinds[tries % len(kinds)]
        arg = A.random_argument(rnd, kind, depth=rnd.randint(1, 3), max_premises=2)
        ow, _ = P.outcome(lw, arg)
        if ow != 'valid': continue
        n += 1
        os_, _ = P.outcome(ls, arg)
        if os_ == 'invalid':
            bad.append(dict(strong=strong, weak=weak, argument=arg.argstr(), kind='refuted-in-extension', fragment=kind))
        elif kind == 'prop' and os_ not in ('valid', 'harness-limit'):
            bad.append(dict(strong=strong, weak=weak, argument=arg.argstr(), kind=f'propositional-not-valid:{os_}', fragment=kind))
    return n, bad

def bounded_monotone(ctx):
    pairs = declared_pairs()
    per = 25 if ctx.thorough else 4
    jobs = [(a, b, ctx.seed * 5 + i, per) for i, (a, b) in enumerate(pairs)]
    total = 0; fails = []
    for n, bad in pmap(_ext_chunk, jobs):
        total += n; fails += bad
    ctx.bounded_part(evaluations=total, distinct_nontrivial=total, rule='for every declared (extension L, base L\') pair: seeded random arguments that the real prover reports valid in L\' are re-run in L; a limit-free refutation in L is a failure, and on the propositional fragment anything but valid is; distinct = valid-in-L\' arguments re-run',
                     bound=f'{per} valid arguments per pair, {len(pairs)} declared pairs', samples=[dict(strong='S4', weak='T')] + fails[:3], label='monotonicity along declared pairs')
    seen = set()
    for f in fails:
        key = (f['strong'], f['weak'])
        if key in seen: continue
        seen.add(key)
        ctx.bounded_failure(f"C11.bounded.{f['strong']}.extends.{f['weak']}", str(f)[:300], f, instance=f['argument'])

def run(ctx):
    ctx.level = 'other'
    ctx.trust('paper lemma L-EXT (DESIGN.md §4): when every interpretation of the extension L is an interpretation of the base L\' (the finite inclusion clauses below) then validity in L\' (sound by C01) excludes a limit-free refutation in L (which would yield a countermodel by C02); on the propositional fragment both verdicts equal truth-table validity (C03)',
              'the code\'s Meta.values / designated_values / tables of both logics are the spec\'s (C07 obligations)', 'spec/semantics.py (the oracle)')
    ctx.assume('generaliser clauses are checked on families of size <= 3 (the spec generalisers are set functions, C04.generaliser.*)')
    ctx.explanation = ('Own obligations: Registry.get_extends/get_extensions compute the transitive closure of Meta.extension_of (compared with an independent closure on the real registry); for each of the declared pairs and their closure, '
                       'the finite semantic-inclusion clauses (values embed, designation agrees, every operator table restricts, quantifier and modal generalisers agree on families from the image, frame classes include). '
                       'Derived: L-EXT over C01(L\') and C02(L).  Bounded: arguments valid in the base re-run in the extension.')
    registry_closure_obligation(ctx)
    ext = closure_pairs()
    npairs = 0
    for a in sorted(ext):
        for b in sorted(ext[a]):
            npairs += 1
            bad = inclusion(a, b)
            declared = (a, b) in set(declared_pairs())
            ctx.add(enum_ob(f'C11.pair.{a}.extends.{b}', not bad, logic=a, base=b, declared=declared,
                            clause='every interpretation of the extension is an interpretation of the base with the same designations', cex=(bad[0] if bad else None), cex_all=bad[:12] or None))
    # premise of L-EXT restated per extension: the access rules of a modal extension L keep saturating the frame condition
    # (they decline a missing access pair only on a limit-affected branch), or a T-valid argument is refuted in S4 by an
    # under-saturated open branch that carries no limit marker
    from checks import c02
    seen_l = set()
    for a in sorted(ext):
        lg = RS.registry()(a)
        if not lg.Meta.modal or a in seen_l: continue
        seen_l.add(a); funcs = {}
        for r in list(c02.access_saturation(lg, funcs)) + list(c02.serial_saturation(lg, funcs)):
            r.name = r.name.replace('C02.saturation.', 'C11.extension-saturates.')
            ctx.add_result(r)
        ctx.functions.update(funcs)
    ctx.replayers['C11.extension-saturates.'] = replay_extension_saturates
    # premise of L-EXT restated per extension: rule sets are built by inheritance between logic modules -- a rule class a logic takes
    # over from another logic's module must still fit THE INHERITING LOGIC: a modal extension hands it a world, which every node it adds has to carry (C04's world /
    # attribute / branching obligations of the inherited rules, per logic; a world-less node never meets its complement at a world)
    from checks import c04
    from pyvc.par import pmap
    names = sorted({x for a in ext for x in [a, *ext[a]]})
    for results, funcs in pmap(c04.work_inherited, names):
        for r in results:
            # what inheriting adds to a rule: the world it is handed and the attributes its filter is built from; the exactness of the
            # rule against the inheriting logic's tables stays C04's own claim (and its known findings)
            if not r.name.endswith(('.world', '.attrs', '.branching')): continue
            r.name = r.name.replace('C04.', 'C11.inherited.', 1)
            ctx.add_result(r)
        ctx.functions.update(funcs)
    ctx.replayers['C11.inherited.'] = lambda r: c04.replay(dict(obligation=r.name.replace('C11.inherited.', 'C04.', 1), counterexample=r.cex, meta=r.meta))
    bounded_monotone(ctx)
    ctx.replayers['C11.pair.'] = replay_pair
    ctx.replayers['C11.'] = lambda r: dict(reproduced=None, detail='see counterexample / meta')

def replay_pair(r):
    """a refuted inclusion clause is a lead, not a failing input: search a separating argument (valid in the base,
    refuted limit-free in the extension) among small arguments"""
    from bounded import args as A, prover as P
    from pytableaux.lang import Argument, Predicate, Constant, Variable, Quantifier, Atomic, Operator
    a, b = r.meta.get('logic'), r.meta.get('base')
    ls, lw = RS.registry()(a), RS.registry()(b)
    cands = []
    F = Predicate(0, 0, 1); m, n = Constant(0, 0), Constant(1, 0); x = Variable(0, 0)
    if lw.Meta.quantified:
        cands += [Argument(Quantifier.Existential(x, F(x)), (F(m),)), Argument(F(m), (Quantifier.Universal(x, F(x)),)),
                  Argument(Quantifier.Existential(x, F(x)), (F(m), ~F(n))), Argument(Operator.Disjunction(Quantifier.Existential(x, F(x)), Atomic(0, 0)), (F(m),))]
    rnd = random.Random(0)
    for _ in range(300):
        cands.append(A.random_argument(rnd, 'fo' if lw.Meta.quantified and rnd.random() < 0.6 else 'prop', depth=2, max_premises=2))
    for arg in cands:
        if P.outcome(lw, arg)[0] == 'valid' and P.outcome(ls, arg)[0] == 'invalid':
            return dict(reproduced=True, detail=f'{arg.argstr()} is valid in {b} but refuted by a limit-free open branch in {a}', argument=arg.argstr())
    return dict(reproduced=False, detail='no separating argument among the small candidates')

def replay_extension_saturates(r):
    "a structured modal argument valid in a declared base of L and refuted limit-free in L"
    from checks import c02
    from bounded import prover as P
    from pytableaux.lang import Argument
    L = r.meta.get('logic')
    bases = sorted(closure_pairs().get(L, ()))
    ls = RS.registry()(L)
    for astr in c02.modal_family():
        arg = Argument(astr)
        if P.outcome(ls, arg)[0] != 'invalid': continue
        for b in bases:
            lb = RS.registry()(b)
            if lb.Meta.modal and P.outcome(lb, arg)[0] == 'valid':
                return dict(reproduced=True, detail=f'{astr} is valid in {b} but refuted by a limit-free open branch in its declared extension {L}', argument=astr)
    return dict(reproduced=False, detail='no separating argument in the structured modal family')

def replay(payload):
    if payload.get('kind') == 'bounded':
        from bounded import prover as P
        from pytableaux.lang import Argument
        f = payload['input']
        ow = P.outcome(RS.registry()(f['weak']), Argument(f['argument']))[0]; os_ = P.outcome(RS.registry()(f['strong']), Argument(f['argument']))[0]
        return dict(reproduced=(ow == 'valid' and os_ == 'invalid'), detail=f"{f['weak']}: {ow}; {f['strong']}: {os_}")
    class R_: pass
    r = R_(); r.name = payload['obligation']; r.meta = payload.get('meta') or {}
    return replay_pair(r) if r.name.startswith('C11.pair.') else dict(reproduced=None, detail='')
