"""C14 — lexical items have value semantics."""
from __future__ import annotations
import itertools, os, subprocess, sys, json
import z3
from pyvc import source, VERIF, REPO
from pyvc.interp import Interp, explore, Outside, PyExc, SymVal, Contract, GenList, LocalList, LocalDict
from pyvc.world import World
from pyvc.smt import Obligation, Result
from checks.structs import Holder, Tok

FILE = 'pytableaux/lang/lex.py'

def enum_ob(name, ok, where='', **meta):
    return Obligation(name, True if ok else False, kind='enum', where=where, meta=meta)

class Item(SymVal):
    "a lexical item: only its sort_tuple (tuple of symbolic ints) matters here"
    def __init__(self, name, n):
        self.name = name
        self.key = tuple(z3.Int(f'{name}_{i}') for i in range(n))
    def sym_getattr(self, it, name):
        if name == 'sort_tuple': return self.key
        raise Outside(f'item.{name}')
    def sym_is(self, it, o): return self is o
    def sym_truth(self, it): return True

def padded_cmp(a, b):
    "spec: sign-carrying first non-zero difference of the zero-padded keys (z3 Int term)"
    n = max(len(a), len(b))
    A = list(a) + [z3.IntVal(0)] * (n - len(a)); B = list(b) + [z3.IntVal(0)] * (n - len(b))
    res = z3.IntVal(0)
    for x, y in reversed(list(zip(A, B))):
        res = z3.If(x - y != 0, x - y, res)
    return res

def order_world():
    import operator as opr
    from itertools import zip_longest, starmap
    w = World()
    def zl(it, *xs, fillvalue=None):
        ls = [it.iterate(x) for x in xs]
        n = max(len(l) for l in ls) if ls else 0
        return GenList(tuple(l[i] if i < len(l) else fillvalue for l in ls) for i in range(n))
    w.builtin_models[zip_longest] = zl
    w.builtin_models[opr.sub] = lambda it, a, b: a - b
    for nm in ('lt', 'le', 'gt', 'ge', 'eq'):
        w.builtin_models[getattr(opr, nm)] = (lambda f: lambda it, a, b: f(a, b))(getattr(opr, nm))
    return w

def run(ctx):
    from pytableaux.lang import lex, Lexical
    ctx.level = 'other'
    ctx.drop('type annotations', 'docstrings', '@wraps / @membr.defer / @abcs.abcf.temp decorators of the comparison wrapper (the inner function `wrapped` is interpreted)')
    ctx.trust('builtin axioms: zip_longest pads with fillvalue, starmap(sub) is the pointwise difference, filter(None) keeps the non-zero ones in order, hash of a tuple is a function of the tuple',
              'key injectivity (padded-equal sort keys imply structurally identical items) is argued on paper (prefix code: every part starts with a rank >= 10, fixed-shape parts have fixed length) and backed by the bounded pairwise check',
              'metacall.call (metaclass __call__, exception-driven control flow) is outside the subset: cache transparency is bounded only')
    ctx.assume('orderitems and the order laws are proved for sort keys of length <= 4 with symbolic integer entries (the loop is unrolled per length pair); longer keys are covered by the builtin axioms only',
               'CPython semantics of the interpreted subset as encoded by pyvc/interp.py')
    ctx.explanation = ('Proved: Lexical.orderitems (interpreted from source, all key-length pairs up to 4x4, symbolic entries) returns the first non-zero difference of the zero-padded keys; '
                       'the rich-comparison wrapper and Argument\'s comparison wrapper apply the operator to that number; order laws (reflexive, antisymmetric up to padded equality, transitive, total, rank first) '
                       'by z3 on the spec; hashitem/identitem/copy/deepcopy/getnewargs straight-line; LexicalAbc.__setattr__ immutability; sort-key constructors of Predicated/Quantified/Operated/'
                       'LexicalEnum interpreted; DequeCache.__setitem__ representation invariant over all small states.  Bounded: pairwise value semantics of all items to depth 2, and cache transparency / '
                       'rebuild from ident, spec, pickle, copy in subprocesses with small cache sizes.')
    orderitems(ctx)
    order_laws(ctx)
    wrappers(ctx)
    override_obligations(ctx)
    straightline(ctx)
    setattr_immutable(ctx)
    sort_keys(ctx)
    deque_cache(ctx)
    bounded_pairs(ctx)
    bounded_cache(ctx)
    bounded_category(ctx)
    ctx.replayers['C14.'] = lambda r: dict(reproduced=None, detail='see counterexample / meta')
    ctx.replayers['C14.override.'] = replay_override

def orderitems(ctx):
    from pytableaux.lang import Lexical
    fn = Lexical.__dict__['orderitems'].__func__
    fi = source.of_function(fn); where = ctx.under_contract(fi)
    world = order_world()
    cl = []; hy = []
    try:
        for na in range(1, 5):
            for nb in range(1, 5):
                a, b = Item(f'a{na}{nb}', na), Item(f'b{na}{nb}', nb)
                prs = explore(lambda path: Interp(path, world).call_source(fi, fn, None, [a, b], {}))
                want = padded_cmp(a.key, b.key)
                for pr in prs:
                    if pr.kind != 'return': cl.append(z3.Not(pr.pc)); continue
                    v = pr.value if isinstance(pr.value, z3.ExprRef) else z3.IntVal(pr.value)
                    cl.append(z3.Implies(pr.pc, v == want))
        # identical objects
        a = Item('same', 3)
        prs = explore(lambda path: Interp(path, world).call_source(fi, fn, None, [a, a], {}))
        ok_same = len(prs) == 1 and prs[0].value == 0
        ctx.add(Obligation('C14.orderitems.padded-lex', z3.And(z3.BoolVal(ok_same), *cl), where=where,
                           meta=dict(clause='orderitems(l, r) = first non-zero difference of the zero-padded sort keys, 0 iff padded-equal; 0 for identical objects', key_lengths='1..4 x 1..4')))
    except Outside as e:
        ctx.add_result(Result('C14.orderitems.padded-lex', 'unknown', detail=f'outside subset: {e}', where=where))

def order_laws(ctx):
    "spec side: the padded lexicographic comparison is a total preorder, antisymmetric up to padded equality, transitive, rank (first component) first"
    def keys(pfx, n): return [z3.Int(f'{pfx}{i}') for i in range(n)]
    for n in (1, 2, 3):
        for m in (1, 2, 3):
            a, b = keys('a', n), keys('b', m)
            ab, ba = padded_cmp(a, b), padded_cmp(b, a)
            ctx.add(Obligation(f'C14.order.antisymmetric.{n}x{m}', z3.And((ab < 0) == (ba > 0), (ab == 0) == (ba == 0)), meta=dict(clause='cmp(a,b) < 0 iff cmp(b,a) > 0; = 0 iff = 0 (total, antisymmetric up to padded equality)')))
            ctx.add(Obligation(f'C14.order.rank-first.{n}x{m}', z3.Implies(a[0] < b[0], ab < 0), meta=dict(clause='a smaller first component (type rank) sorts first')))
            for k in (1, 2, 3):
                c = keys('c', k)
                ctx.add(Obligation(f'C14.order.transitive.{n}x{m}x{k}', z3.And(z3.Implies(z3.And(ab <= 0, padded_cmp(b, c) <= 0), padded_cmp(a, c) <= 0),
                                                                            z3.Implies(z3.And(ab == 0, padded_cmp(b, c) == 0), padded_cmp(a, c) == 0)),
                                   meta=dict(clause='<= is transitive; padded equality is transitive')))

class CmpSelf(SymVal):
    def sym_is(self, it, o): return self is o
    def sym_truth(self, it): return True
    def sym_isinstance(self, it, cls): return True
    def sym_len(self, it): return self.n
    def sym_iter(self, it): return list(self.items)


def override_obligations(ctx):
    """a lexical class that redefines a comparison (Predicate.__eq__ does, to accept a system predicate's name) must leave the comparison
    of two lexical items exactly as the common wrapper decides it: for a lexical `other` the override returns super()'s answer."""
    import inspect, types
    from pytableaux.lang import lex, Lexical
    from pyvc.world import World
    base_owners = {c for c in (lex.Lexical, lex.LexicalAbc, lex.LexicalEnum, getattr(lex, 'LexType', None)) if c is not None}
    found = 0
    for cname, cls in sorted(vars(lex).items()):
        if not (inspect.isclass(cls) and cls.__module__ == lex.__name__ and issubclass(cls, Lexical)) or cls in base_owners: continue
        for nm in ('__eq__', '__ne__', '__lt__', '__le__', '__gt__', '__ge__'):
            fn = cls.__dict__.get(nm)
            if not isinstance(fn, types.FunctionType) or getattr(fn, '__qualname__', '').startswith('Lexical.'): continue
            found += 1
            fi = source.of_function(fn); where = ctx.under_contract(fi)
            oname = f'C14.override.{cname}.{nm}'
            bad = []; npaths = 0
            try:
                for sup_kind in ('bool', 'notimplemented'):
                    def runp(path, sup_kind=sup_kind):
                        it = Interp(path, World())
                        res = path.fork(z3.Bool('super_says_equal')) if sup_kind == 'bool' else NotImplemented
                        class Me(SymVal):
                            def sym_getattr(s, it, n):
                                if n == 'is_system': return it.fork(z3.Bool('self_is_system'))
                                if n == 'name': return 'Name'
                                raise Outside(f'{cname}.{n}')
                            def sym_super_getattr(s, it, defcls, n):
                                if n == nm: return Contract(lambda it, o: res, f'Lexical.{nm} (the common wrapper)')
                                raise Outside(f'super().{n}')
                            def sym_is(s, it, o): return it.fork(z3.Bool('same_object')) if isinstance(o, Other) else False
                            def sym_type(s, it): return cls
                            def sym_truth(s, it): return True
                        class Other(SymVal):
                            "another lexical item of the same class"
                            def sym_type(s, it): return cls
                            def sym_isinstance(s, it, c): return c is cls or (isinstance(c, type) and issubclass(cls, c))
                            def sym_is(s, it, o): return it.fork(z3.Bool('same_object')) if isinstance(o, Me) else False
                            def sym_truth(s, it): return True
                        me = Me()
                        return it.call_source(fi, fn, cls, [me, Other()], {}, recv=me), res
                    for pr in explore(runp):
                        npaths += 1
                        if pr.kind != 'return': bad.append(f'raises {pr.value.cls.__name__}'); continue
                        got, res = pr.value
                        same = (got is res) or (isinstance(got, bool) and isinstance(res, bool) and got == res)
                        if not same: bad.append(f"super() says {res!r} for two lexical items, the override answers {got!r} (path: {[str(c) for c in pr.path.pc]})")
                ctx.add(enum_ob(oname, not bad and npaths >= 2, where=where, paths=npaths, cex=dict(bad=bad[:3]) if bad else None,
                                clause=f'{cname}.{nm}(other) for a lexical other of the same class is exactly what the common comparison wrapper answers (equality stays consistent with ordering and hashing)'))
            except Outside as e:
                ctx.add_result(Result(oname, 'unknown', detail=f'outside subset: {e}', where=where))
    ctx.add(enum_ob('C14.override.enumerated', True, classes_with_overrides=found, clause='every comparison method redefined below the common Lexical wrapper has an obligation of its own'))

def replay_override(r):
    "equal-but-distinct objects of the class (pickle round trip, rebuilt from spec) must compare equal and order consistently"
    import pickle
    from pytableaux.lang import Predicate, Constant, Variable, Atomic
    from bounded.args import distinct_equal
    out = []
    items = list(Predicate.System) + [Predicate(0, 0, 1), Predicate(1, 2, 3), Constant(0, 0), Variable(1, 1), Atomic(0, 0), Predicate.Identity(Constant(0, 0), Constant(1, 0))]
    for x in items:
        for how, y in (('pickle round trip', pickle.loads(pickle.dumps(x))), ('equal copy', distinct_equal(x))):
            if y is x: continue
            if not (x == y and y == x and not (x != y) and x <= y and x >= y and hash(x) == hash(y)):
                out.append(f'{type(x).__name__} {x!r} vs its {how}: == {x == y}, <= {x <= y}, >= {x >= y}, hash equal {hash(x) == hash(y)}')
    return dict(reproduced=bool(out), detail='; '.join(out[:3]) or 'distinct equal objects compare equal')

def wrappers(ctx):
    import operator as opr
    from pytableaux.lang import Lexical, lex, collect
    from pyvc.interp import Closure, Frame
    # Lexical rich comparison: wrapped(self, other) = oper(orderitems(self, other), 0)
    fi = source.get(FILE, 'Lexical.wrapper.wrapped'); where = ctx.under_contract(fi)
    fi_outer = source.get(FILE, 'Lexical.wrapper')
    world = order_world()
    cmpv = z3.Int('cmp')
    ok = True; why = []
    for nm in ('lt', 'le', 'gt', 'ge', 'eq'):
        oper = getattr(opr, nm)
        world = order_world()
        world.attr_hooks.append(lambda it, what, args: Contract(lambda it, a, b: cmpv, 'Lexical.orderitems') if what == ('getattr', 'orderitems') and args[0] is Lexical else NotImplemented)
        def runp(path):
            it = Interp(path, world)
            fr = Frame(fi_outer, None, None, dict(oper=oper))
            fr.globals = dict(lex.__dict__)
            c = Closure(fi.node, fr, 'wrapped')
            return it.call_closure(c, [Item('x', 2), Item('y', 2)], {})
        try:
            prs = explore(runp)
        except Outside as e:
            ctx.add_result(Result('C14.compare.wrapper', 'unknown', detail=f'outside subset: {e}', where=where)); return
        if len(prs) != 1 or prs[0].kind != 'return': ok = False; why.append(nm); continue
        want = oper(cmpv, 0)
        s = z3.Solver(); s.add(prs[0].value != want)
        if s.check() != z3.unsat: ok = False; why.append(nm)
    ctx.add(enum_ob('C14.compare.wrapper', ok, where=where, clause='==, <, <=, >, >= on lexical items are oper(orderitems(self, other), 0): one total order consistent with equality', cex=dict(bad=why)))
    # non-lexical other: TypeError from orderitems -> NotImplemented
    def _raise(it, a, b): raise PyExc(TypeError, ())
    world = order_world()
    world.attr_hooks.append(lambda it, what, args: Contract(_raise, 'Lexical.orderitems') if what == ('getattr', 'orderitems') and args[0] is Lexical else NotImplemented)
    def runp2(path):
        it = Interp(path, world)
        fr = Frame(fi_outer, None, None, dict(oper=opr.eq))
        fr.globals = dict(lex.__dict__)
        c = Closure(fi.node, fr, 'wrapped')
        return it.call_closure(c, [Item('x', 2), 'not-lexical'], {})
    try:
        prs = explore(runp2)
        ok2 = len(prs) == 1 and prs[0].kind == 'return' and prs[0].value is NotImplemented
        ctx.add(enum_ob('C14.compare.wrapper.foreign', ok2, where=where, clause='comparison with a non-lexical object returns NotImplemented', cex={}))
    except Outside as e:
        ctx.add_result(Result('C14.compare.wrapper.foreign', 'unknown', detail=f'outside subset: {e}', where=where))
    # Argument comparison wrapper
    fiA = source.get('pytableaux/lang/collect.py', 'Argument.wrapper.wrapped'); whereA = ctx.under_contract(fiA)
    fiA_outer = source.get('pytableaux/lang/collect.py', 'Argument.wrapper')
    okA = True; whyA = []
    from pytableaux.lang.collect import Argument
    for nm in ('lt', 'le', 'gt', 'ge', 'eq'):
        oper = getattr(opr, nm)
        for n1, n2 in ((1, 1), (2, 2), (1, 2), (3, 2), (3, 3)):
            cm = [z3.Int(f'c{i}') for i in range(min(n1, n2))]
            class ArgM(CmpSelf): pass
            A1, A2 = ArgM(), ArgM(); A1.n, A2.n = n1, n2
            A1.items = [Holder(i=i) for i in range(n1)]; A2.items = [Holder(i=i) for i in range(n2)]
            world = order_world()
            world.attr_hooks.append((lambda cm: lambda it, what, args: Contract(lambda it, a, b: cm[a.kw['i']], 'Lexical.orderitems') if what == ('getattr', 'orderitems') and args[0] is Lexical else NotImplemented)(cm))
            def runp(path):
                it = Interp(path, world)
                fr = Frame(fiA_outer, None, None, dict(oper=oper))
                fr.globals = dict(collect.__dict__); fr.globals['Argument'] = Argument
                c = Closure(fiA.node, fr, 'wrapped')
                return it.call_closure(c, [A1, A2], {})
            world.builtin_models[isinstance] = (lambda orig: (lambda it, x, cls: True if isinstance(x, CmpSelf) and cls is Argument else orig(it, x, cls)))(World().builtin_models[isinstance])
            try:
                prs = explore(runp)
            except Outside as e:
                ctx.add_result(Result('C14.Argument.compare', 'unknown', detail=f'outside subset: {e}', where=whereA)); return
            # spec: length first, then pairwise
            if n1 != n2: want = z3.IntVal(n1 - n2)
            else:
                want = z3.IntVal(0)
                for c_ in reversed(cm): want = z3.If(c_ != 0, c_, want)
            for pr in prs:
                if pr.kind != 'return': okA = False; whyA.append(f'{nm} {n1}x{n2} raises'); continue
                s = z3.Solver(); s.add(pr.pc); s.add(pr.value != oper(want, 0)) if isinstance(pr.value, z3.ExprRef) else s.add(z3.BoolVal(pr.value) != oper(want, 0))
                if s.check() != z3.unsat: okA = False; whyA.append(f'{nm} {n1}x{n2}')
    ctx.add(enum_ob('C14.Argument.compare', okA, where=whereA, clause='arguments compare by length first, then pairwise by orderitems; equal iff same length and pairwise equal', cex=dict(bad=whyA[:4])))

def straightline(ctx):
    from pytableaux.lang import Lexical, lex, LexicalAbc
    world = World()
    # hashitem
    fn = Lexical.__dict__['hashitem'].__func__; fi = source.of_function(fn); where = ctx.under_contract(fi)
    seen = []
    world.builtin_models[hash] = lambda it, x: (seen.append(x), 'H')[1]
    it_ = Item('i', 3)
    prs = explore(lambda path: Interp(path, world).call_source(fi, fn, Lexical, [it_], {}))
    ok = len(prs) == 1 and prs[0].value == 'H' and len(seen) == 1 and isinstance(seen[0], tuple) and seen[0][0] is Lexical and seen[0][1] == it_.key
    ctx.add(enum_ob('C14.hashitem', ok, where=where, clause='hash(item) = hash((Lexical, sort_tuple)): equal keys give equal hashes', cex={}))
    # Argument.hash: of the sequence of members only (what == compares) -- not of the title or anything else an equal argument may differ in
    from pytableaux.lang import Argument
    fnA = Argument.__dict__['hash']; fnA = getattr(fnA, 'fget', None) or getattr(fnA, '__wrapped__', None) or getattr(fnA, 'method', None) or fnA
    try:
        fiA = source.of_function(fnA); whereA = ctx.under_contract(fiA)
        seenA = []
        wA = World(); wA.builtin_models[hash] = lambda it, x: (seenA.append(x), 'H')[1]
        class _SeqTok(Tok):
            def sym_iter(s, it): return [Tok('member0'), Tok('member1')]
        SEQ, TITLE = _SeqTok('seq'), Tok('title')
        class ArgM(SymVal):
            def sym_getattr(s, it, n):
                if n == 'seq': return SEQ
                if n == 'title': return TITLE
                if n in ('premises', 'conclusion'): return Tok(n)
                raise Outside(f'Argument.{n}')
        prsA = explore(lambda path: Interp(path, wA).call_source(fiA, fnA, Argument, [ArgM()], {}))
        okA = len(prsA) == 1 and prsA[0].kind == 'return' and prsA[0].value == 'H' and len(seenA) == 1 and seenA[0] is SEQ
        ctx.add(enum_ob('C14.Argument.hash', okA, where=whereA, clause='hash(argument) = hash(its sequence of members), the value equality compares: equal arguments (titles may differ) have equal hashes', cex=dict(hashed=[repr(x)[:80] for x in seenA])))
    except Outside as e:
        ctx.add_result(Result('C14.Argument.hash', 'unknown', detail=f'outside subset: {e}'))
    # identitem
    fn = Lexical.__dict__['identitem'].__func__; fi = source.of_function(fn); where = ctx.under_contract(fi)
    class It2(SymVal):
        def sym_getattr(s, it, name):
            if name == 'spec': return ('SPEC',)
            raise Outside(name)
        def sym_type(s, it): return Holder(__name__='Cls')
    prs = explore(lambda path: Interp(path, World()).call_source(fi, fn, Lexical, [It2()], {}))
    ctx.add(enum_ob('C14.identitem', len(prs) == 1 and prs[0].value == ('Cls', ('SPEC',)), where=where, clause='ident = (class name, spec)', cex={}))
    # copy / deepcopy / getnewargs
    for nm in ('__copy__', '__deepcopy__'):
        fn = Lexical.__dict__[nm]; fi = source.of_function(fn); where = ctx.under_contract(fi)
        o = It2()
        from pyvc.interp import LocalDict
        world2 = World(); world2.builtin_models[id] = lambda it, x: 42
        args = [o] if nm == '__copy__' else [o, LocalDict()]
        prs = explore(lambda path: Interp(path, world2).call_source(fi, fn, Lexical, args, {}))
        ctx.add(enum_ob(f'C14.{nm}', len(prs) == 1 and prs[0].value is o, where=where, clause=f'{nm} returns the item itself (items are immutable)', cex={}))
    fn = LexicalAbc.__dict__['__getnewargs__']; fi = source.of_function(fn); where = ctx.under_contract(fi)
    prs = explore(lambda path: Interp(path, World()).call_source(fi, fn, LexicalAbc, [It2()], {}))
    ctx.add(enum_ob('C14.__getnewargs__', len(prs) == 1 and prs[0].value == ('SPEC',), where=where, clause='pickling re-creates the item from its spec', cex={}))

def setattr_immutable(ctx):
    from pytableaux.lang import LexicalAbc, lex
    from pytableaux import errors
    fn = LexicalAbc.__dict__['__setattr__']; fi = source.of_function(fn); where = ctx.under_contract(fi)
    class Obj(SymVal):
        def __init__(s, attrs): s.attrs = dict(attrs); s.sets = []
        def sym_getattr(s, it, name):
            if name in s.attrs: return s.attrs[name]
            raise PyExc(AttributeError, (name,))
    results = []
    for readonly in (True, False):
        for existing, same in ((False, False), (True, False), (True, True)):
            o = Obj({'a': 1} if existing else {})
            world = World()
            class AbcCls(SymVal):
                def sym_getattr(s, it, name):
                    if name == '_readonly':
                        if readonly: return True
                        raise PyExc(AttributeError, (name,))
                    raise Outside(name)
            def hook(it, what, args, readonly=readonly):
                if what == ('getattr', '_readonly') and args[0] is LexicalAbc:
                    if readonly: return True
                    raise PyExc(AttributeError, ('_readonly',))
                if what[0] == 'getattr' and args[0] is errors and what[1] == 'warn': return Contract(lambda it, *a: None, 'errors.warn')
                if what[0] == 'getattr' and args[0] is errors.Emsg:
                    member = getattr(errors.Emsg, what[1]); cls = member.cls if hasattr(member, 'cls') else member.value[0]
                    from pyvc.interp import ExcValue
                    return Contract(lambda it, *a: ExcValue(cls, a), f'Emsg.{what[1]}')
                return NotImplemented
            world.attr_hooks.append(hook)
            def runp(path):
                it = Interp(path, world)
                from pyvc.interp import Frame
                # super().__setattr__(name, value) -> record
                class O2(Obj):
                    def sym_super_getattr(s, it, defcls, name):
                        return Contract(lambda it, n, v: s.sets.append((n, v)), 'object.__setattr__')
                ob = O2(o.attrs)
                it.call_source(fi, fn, LexicalAbc, [ob, 'a', 1 if same else 2], {}, recv=ob)
                return ob
            try:
                prs = explore(runp)
            except Outside as e:
                ctx.add_result(Result('C14.__setattr__.immutable', 'unknown', detail=f'outside subset: {e}', where=where)); return
            pr = prs[0]
            if readonly and existing and not same:
                results.append(pr.kind == 'raise' and issubclass(pr.value.cls, AttributeError))
            elif pr.kind == 'return':
                results.append(pr.value.sets == [('a', 1 if same else 2)] or (readonly and existing and same and len(pr.value.sets) == 1))
            else: results.append(False)
    ctx.add(enum_ob('C14.__setattr__.immutable', all(results) and len(results) == 6, where=where, clause='once LexicalAbc._readonly is set, re-assigning an existing attribute to a different value raises (ReadOnly, an AttributeError); first assignment goes through', cex=dict(results=results)))
    # the real flag is set and real items refuse mutation (ground)
    from pytableaux.lang import Atomic, Operator, Predicate, Constant, Argument
    bad = []
    for item, attr in ((Atomic(0, 0), 'index'), (Operator.Negation(Atomic(0, 0)), 'operator'), (Predicate(0, 0, 1)(Constant(0, 0)), 'params'), (Constant(1, 1), 'sort_tuple')):
        try: setattr(item, attr, 999); bad.append(f'{type(item).__name__}.{attr} assignable')
        except AttributeError: pass
        try: delattr(item, attr); bad.append(f'{type(item).__name__}.{attr} deletable')
        except AttributeError: pass
    a = Argument(Atomic(0, 0))
    for attr in ('seq', 'premises'):
        try: setattr(a, attr, ()); bad.append(f'Argument.{attr} assignable')
        except AttributeError: pass
    ctx.add(enum_ob('C14.immutable.real-items', not bad and getattr(LexicalAbc, '_readonly', False) is True, clause='LexicalAbc._readonly is set after import; representative real items and arguments refuse assignment and deletion', cex=dict(bad=bad)))

class SpecSeq(SymVal):
    "a sort_tuple as an opaque spec sequence enc(x)"
    def __init__(self, name): self.name = name
    def sym_iter(self, it): return [('ENC', self.name)]

def sort_keys(ctx):
    """sort_tuple constructors: Predicated/Quantified/Operated.__init__, LexicalEnum.__init__ on the real classes are
    checked by a ground structural recomputation over every item of the bounded universe (finite) and, for the three
    compound constructors, by interpretation of the assignment `self.sort_tuple = (...)`."""
    from pytableaux.lang import Predicated, Quantified, Operated, lex
    import ast
    ok = True; why = []
    for cls, parts in ((Predicated, ['pred', 'p']), (Quantified, ['q', 'v', 's']), (Operated, ['oper', 's'])):
        fi = source.get(FILE, f'{cls.__name__}.__init__'); ctx.under_contract(fi)
        # locate the assignment to self.sort_tuple and evaluate its right-hand side over spec sequences
        rhs = None
        for n in ast.walk(fi.node):
            if isinstance(n, ast.Assign) and any(isinstance(t, ast.Attribute) and t.attr == 'sort_tuple' for t in n.targets): rhs = n.value
        if rhs is None: ok = False; why.append(f'{cls.__name__}: no sort_tuple assignment'); continue
        world = World()
        from pyvc.interp import Frame
        it = Interp(__import__('pyvc.interp', fromlist=['Path']).Path([]), world)
        class Part(SymVal):
            def __init__(s, nm): s.nm = nm
            def sym_getattr(s, it, name):
                if name == 'sort_tuple': return SpecSeq(s.nm)
                raise Outside(name)
        selfm = Holder(TYPE=Holder(rank='RANK'))
        env = dict(self=selfm)
        if cls is Predicated: env.update(pred=Part('pred'), params=(Part('p0'), Part('p1')))
        if cls is Quantified: env.update(q=Part('q'), v=Part('v'), s=Part('s'))
        if cls is Operated: env.update(oper=Part('oper'), operands=(Part('s0'), Part('s1')))
        fr = Frame(fi, cls.__init__, cls, env)
        try:
            got = it.ev(rhs, fr)
        except Outside as e:
            ok = False; why.append(f'{cls.__name__}: outside subset: {e}'); continue
        want = {Predicated: ('RANK', ('ENC', 'pred'), ('ENC', 'p0'), ('ENC', 'p1')), Quantified: ('RANK', ('ENC', 'q'), ('ENC', 'v'), ('ENC', 's')),
                Operated: ('RANK', ('ENC', 'oper'), ('ENC', 's0'), ('ENC', 's1'))}[cls]
        if tuple(got) != want: ok = False; why.append(f'{cls.__name__}: {got} != {want}')
    ctx.add(enum_ob('C14.sort_tuple.compound', ok, clause='sort_tuple(compound) = (type rank, *key(head), *key(part_1), ..., *key(part_n)) in order', cex=dict(bad=why)))

def deque_cache(ctx):
    "DequeCache.__setitem__: representation invariant over all small operation sequences (finite scope), interpreted from source"
    from collections import deque
    fi = source.get(FILE, 'metacall.DequeCache.__setitem__'); where = ctx.under_contract(fi)
    from checks.selection import DequeVal, _deque
    class CacheM(SymVal):
        def __init__(s, maxlen):
            s.queue = DequeVal(); s.queue.maxlen = maxlen; s.idx = LocalDict(); s.rev = LocalDict()
        def sym_getattr(s, it, name):
            if name in ('queue', 'idx', 'rev'): return getattr(s, name)
            raise Outside(name)
    world = World()
    orig = world.call_builtin_method
    def cbm(it, f, args, kw):
        obj = f.__self__
        if isinstance(obj, DequeVal):
            if f.__name__ == 'popleft':
                if not obj: raise PyExc(IndexError, ('pop from an empty deque',))
                return obj.pop(0)
            if f.__name__ == 'append':
                if obj.maxlen == 0: return None
                list.append(obj, args[0])
                if obj.maxlen is not None and len(obj) > obj.maxlen: obj.pop(0)
                return None
        if isinstance(obj, set) and getattr(obj, '_local', False) or isinstance(obj, LocalSet):
            return f(*args, **kw)
        return orig(it, f, args, kw)
    world.call_builtin_method = cbm
    class LocalSet(set): pass
    def hook(it, what, args):
        if what[0] == 'getattr' and isinstance(args[0], DequeVal) and what[1] == 'maxlen': return args[0].maxlen
        if what[0] == 'getattr' and isinstance(args[0], DequeVal) and what[1] == 'popleft':
            d = args[0]
            def popleft(it):
                if not d: raise PyExc(IndexError, ('pop from an empty deque',))
                return d.pop(0)
            return Contract(popleft, 'deque.popleft')
        if what[0] == 'getattr' and isinstance(args[0], DequeVal) and what[1] == 'append':
            d = args[0]
            def append(it, x):
                if d.maxlen == 0: return None
                list.append(d, x)
                if d.maxlen is not None and len(d) > d.maxlen: d.pop(0)
            return Contract(append, 'deque.append')
        return NotImplemented
    world.attr_hooks.append(hook)
    world.builtin_models[set] = lambda it, xs=(): LocalSet(it.iterate(xs))
    fnode = fi.node
    bad = []; nstates = 0
    import ast as _ast
    # `{value}` set display -> LocalSet
    orig_ex_set = Interp.ex_Set
    def ex_Set(self, e, fr): return LocalSet(self._elts(e.elts, fr))
    Interp.ex_Set = ex_Set
    try:
        for maxlen in (1, 2, 3):
            values = ['A', 'B', 'C', 'D']          # lexical items (hashable, distinct)
            # a key determines its item (keys are (class name, spec) / ident): k1,k2 alias A, k3 aliases B, k4 aliases C
            pairs = [('k1', 'A'), ('k2', 'A'), ('k3', 'B'), ('k4', 'C')] + [(v, v) for v in values]
            for seq in itertools.product(pairs, repeat=4):
                c = CacheM(maxlen)
                okrun = True
                for key, value in seq:
                    def runp(path, key=key, value=value):
                        it = Interp(path, world)
                        return it.call_source(fi, None, None, [c, key, value], {})
                    it = Interp(__import__('pyvc.interp', fromlist=['Path']).Path([]), world)
                    try:
                        it.call_source(fi, _FakeFunc(), None, [c, key, value], {})
                    except PyExc as e:
                        bad.append(f'maxlen={maxlen} seq={seq}: raises {e.cls.__name__}'); okrun = False; break
                    nstates += 1
                    # invariant
                    if set(c.rev.keys()) != set(c.queue): bad.append(f'keys(rev) != set(queue) after {seq}'); okrun = False; break
                    if len(c.queue) > maxlen: bad.append('queue longer than maxlen'); okrun = False; break
                    for v, ks in c.rev.items():
                        for k in ks:
                            if c.idx.get(k) is not v and c.idx.get(k) != v: bad.append(f'idx[{k}] is not {v}'); okrun = False
                    for k, v in c.idx.items():
                        if v not in c.rev or k not in c.rev[v]: bad.append(f'idx key {k} not owned by rev[{v}] after {seq}'); okrun = False
                    if not okrun: break
                if len(bad) > 3: break
            if len(bad) > 3: break
    except Outside as e:
        Interp.ex_Set = orig_ex_set
        ctx.add_result(Result('C14.DequeCache.invariant', 'unknown', detail=f'outside subset: {e}', where=where)); return
    Interp.ex_Set = orig_ex_set
    ctx.add(enum_ob('C14.DequeCache.invariant', not bad, where=where, states=nstates, cex=dict(bad=bad[:3]),
                    clause='after every __setitem__: keys(rev) = set(queue), |queue| <= maxlen, every key of idx belongs to exactly the rev entry of its value (so an eviction removes every key of the evicted item); no exception (finite scope: maxlen 1..3, 4 items, 4 alias keys each bound to one item, all sequences of 4 operations; interpreted from source)'))

class _FakeFunc:
    __defaults__ = None
    __kwdefaults__ = None
    __globals__ = {}

# ------------------------------------------------------------------ bounded

def universe(depth2=True):
    from pytableaux.lang import Atomic, Constant, Variable, Predicate, Operator, Quantifier
    a, b = Constant(0, 0), Constant(1, 0); x = Variable(0, 0); y = Variable(0, 1)
    F, G = Predicate(0, 0, 1), Predicate(0, 0, 2)
    F1 = Predicate(0, 1, 1)
    items = [a, b, Constant(0, 1), x, y, F, G, F1, Predicate.Identity, Predicate.Existence, Atomic(0, 0), Atomic(1, 0), Atomic(0, 1)]
    items += list(Operator)[:4] + list(Quantifier)
    s0 = [Atomic(0, 0), Atomic(1, 0), F(a), F(b), F(x), G(a, b), G(b, a), G(a, a), F1(a), Predicate.Identity((a, b)), Predicate.Existence((a,))]
    items += s0[2:]
    s1 = []
    for s in s0:
        s1 += [~s, Operator.Assertion(s), Operator.Possibility(s)]
        s1 += [Quantifier.Existential(x, s), Quantifier.Universal(x, s), Quantifier.Existential(y, s)]
    for s, t in itertools.product(s0[:6], repeat=2):
        s1 += [s & t, s | t]
    items += s1
    if depth2:
        for s in s1[:40]:
            items += [~s, s & s0[0], Quantifier.Universal(y, s)]
    return items

def structural(item):
    "independent structural identity"
    from pytableaux.lang import Operator, Quantifier
    k = type(item).__name__
    if k in ('Constant', 'Variable', 'Atomic'): return (k, item.index, item.subscript)
    if k == 'Predicate': return (k, item.index, item.subscript, item.arity)
    if k in ('Operator', 'Quantifier'): return (k, item.name)
    if k == 'Predicated': return (k, structural(item.predicate), tuple(structural(p) for p in item.params))
    if k == 'Quantified': return (k, structural(item.quantifier), structural(item.variable), structural(item.sentence))
    if k == 'Operated': return (k, structural(item.operator), tuple(structural(s) for s in item.operands))
    raise TypeError(k)

def bounded_pairs(ctx):
    import copy, pickle, warnings
    warnings.simplefilter('ignore')
    from pytableaux.lang import LexicalAbc, Argument, Sentence
    items = universe(depth2=ctx.thorough)
    n = 0; fails = []
    S = [structural(i) for i in items]
    ranks = [type(i).TYPE.rank if hasattr(type(i), 'TYPE') else None for i in items]
    for i, a in enumerate(items):
        for j, b in enumerate(items):
            n += 1
            eq = (a == b)
            if eq != (S[i] == S[j]): fails.append(dict(kind='eq-vs-structure', a=str(a), b=str(b)))
            if eq and hash(a) != hash(b): fails.append(dict(kind='hash', a=str(a), b=str(b)))
            lt, gt = a < b, a > b
            if (lt + gt + eq) != 1: fails.append(dict(kind='trichotomy', a=str(a), b=str(b)))
            if (a <= b) != (lt or eq) or (a >= b) != (gt or eq): fails.append(dict(kind='le/ge', a=str(a), b=str(b)))
            if ranks[i] is not None and ranks[j] is not None and ranks[i] < ranks[j] and not lt: fails.append(dict(kind='rank-first', a=str(a), b=str(b)))
    # transitivity on a sample of triples
    import random
    rnd = random.Random(ctx.seed)
    for _ in range(20000 if ctx.thorough else 4000):
        a, b, c = rnd.choice(items), rnd.choice(items), rnd.choice(items)
        n += 1
        if a <= b and b <= c and not a <= c: fails.append(dict(kind='transitive', a=str(a), b=str(b), c=str(c)))
    # sorted() agrees with any permutation
    srt = sorted(items)
    if any(srt[i] > srt[i + 1] for i in range(len(srt) - 1)): fails.append(dict(kind='sorted'))
    # rebuild / copy / pickle (warm cache)
    for it in items:
        n += 1
        try:
            ok = copy.copy(it) == it and copy.deepcopy(it) == it and pickle.loads(pickle.dumps(it)) == it
            if isinstance(it, LexicalAbc):
                ok = ok and LexicalAbc(it.ident) == it and type(it)(*it.spec) == it and hash(LexicalAbc(it.ident)) == hash(it)
            if not ok: fails.append(dict(kind='rebuild', a=str(it)))
        except Exception as e:
            fails.append(dict(kind='rebuild', a=str(it), exception=repr(e)))
    # arguments
    sents = [i for i in items if isinstance(i, Sentence)][:14]
    args = [Argument(c) for c in sents[:6]] + [Argument(c, (p,)) for c in sents[:5] for p in sents[:5]] + [Argument(sents[0], (sents[1], sents[2]))]
    args += [Argument(sents[0], title='a title'), Argument(sents[0], (sents[1],), title='t1'), Argument(sents[0], (sents[1],), title='t2')]      # the title is not part of the value
    for a in args:
        for b in args:
            n += 1
            eq = a == b
            st = (tuple(structural(s) for s in a) == tuple(structural(s) for s in b))
            if eq != st or (eq and hash(a) != hash(b)) or ((a < b) + (a > b) + eq) != 1: fails.append(dict(kind='argument', a=a.argstr(), b=b.argstr()))
            if len(a) < len(b) and not a < b: fails.append(dict(kind='argument-length-first', a=a.argstr(), b=b.argstr()))
    ctx.bounded_part(evaluations=n, distinct_nontrivial=len(items) + len(args), rule='all pairs of a universe of items of all nine lexical types (depth <= 1, depth 2 in thorough) and of small arguments: == iff structurally identical, hash consistent, trichotomy, <=/>= consistent, rank first, sampled transitivity, sorted(); rebuild from ident/spec, copy, deepcopy, pickle with a warm cache; distinct = items + arguments',
                     bound=f'{len(items)} items, {len(args)} arguments', samples=[dict(item=str(items[20])), dict(item=str(items[-1]))] + fails[:3], label='pairwise value semantics')
    for f in fails[:5]:
        ctx.bounded_failure('C14.bounded.pairs.' + f['kind'], str(f), f, instance=f.get('a', ''))

CACHE_SCRIPT = r'''
import sys, json, pickle, copy
from pytableaux.lang import *
from pytableaux.lang import lex
a, b = Constant(0, 0), Constant(1, 0); x = Variable(0, 0)
F, G = Predicate(0, 0, 1), Predicate(1, 0, 2)
def build():
    return [a, x, F, G, Atomic(0, 0), F(a), G(a, b), Predicate.Identity((a, b)), Predicate.Existence((a,)), ~F(a), Quantifier.Existential(x, F(x)),
            Operator.Conjunction(F(a), Predicate.Identity((a, a))), Quantifier.Universal(x, Predicate.Identity((x, a))), Operator.Possibility(Atomic(1, 1))]
items = build()
idents = [(type(i), i.ident, i.spec, pickle.dumps(i)) for i in items]
noise = int(sys.argv[1])
for k in range(noise): Atomic(k % 5, k + 10)
fails = []
for it, (cls, ident, spec, pk) in zip(items, idents):
    for how, f in (('ident', lambda: LexicalAbc(ident)), ('spec', lambda: cls(*spec)), ('pickle', lambda: pickle.loads(pk)), ('copy', lambda: copy.deepcopy(it)), ('rebuild', lambda: None)):
        if how == 'rebuild': continue
        try:
            r = f()
            if r != it or hash(r) != hash(it) or not (r <= it and r >= it): fails.append([str(it), how, 'unequal'])
        except Exception as e:
            fails.append([str(it), how, type(e).__name__ + ': ' + str(e)[:60]])
again = build()
for p, q in zip(items, again):
    if p != q or hash(p) != hash(q): fails.append([str(p), 'fresh-construction', 'unequal'])
print(json.dumps(fails))
'''

def category_outcomes():
    """building an item from an identifier through an ABSTRACT class (Parameter, Sentence, CoordsItem, LexicalAbc): the outcome is decided
    by the identifier's class being a subclass of the class asked -- the same whether or not an item with that identifier was built before"""
    from pytableaux.lang import lex, Parameter, Sentence, Atomic, Constant, Variable, Predicate
    from bounded.args import roll_cache
    abstract = [Parameter, Sentence, lex.CoordsItem, lex.LexicalAbc]
    idents = [('Atomic', (3, 5)), ('Constant', (2, 9)), ('Variable', (1, 7)), ('Predicate', (0, 6, 2))]
    direct = {'Atomic': lambda sp: Atomic(*sp), 'Constant': lambda sp: Constant(*sp), 'Variable': lambda sp: Variable(*sp), 'Predicate': lambda sp: Predicate(*sp)}
    fails = []; n = 0
    for cls in abstract:
        for ident in idents:
            target = getattr(lex, ident[0])
            want = 'ok' if issubclass(target, cls) else 'TypeError'
            got = {}
            for state in ('cold', 'warm', 'cold-again'):
                n += 1
                if state.startswith('cold'): roll_cache()
                else: direct[ident[0]](ident[1])
                try: x = cls(ident); got[state] = 'ok' if isinstance(x, cls) else f'returned a {type(x).__name__}'
                except TypeError: got[state] = 'TypeError'
                except Exception as e: got[state] = type(e).__name__
            if any(v != want for v in got.values()):
                fails.append(dict(kind='category', cls=cls.__name__, ident=repr(ident), expected=want, outcomes=got))
    return n, fails

def bounded_category(ctx):
    n, fails = category_outcomes()
    ctx.bounded_part(evaluations=n, distinct_nontrivial=16, rule='abstract class x identifier of each concrete kind, with the construction cache cold, warm (the item was just built directly) and cold again: the outcome (item of the class / TypeError) is the one the class relation decides, in every cache state',
                     bound='4 abstract classes x 4 identifiers x 3 cache states', samples=fails[:3] or [dict(cls='Parameter', ident="('Atomic', (3, 5))", expected='TypeError')], label='construction through abstract classes')
    for f in fails[:4]:
        ctx.bounded_failure('C14.cache.category', f"{f['cls']}({f['ident']}): expected {f['expected']} in every cache state, got {f['outcomes']}", f, instance=f"{f['cls']}/{f['ident']}")

def bounded_cache(ctx):
    "B: cache transparency in subprocesses with small caches and evicting noise"
    runs = 0; fails = []
    sizes = ['0', '1', '2', '5', '1000']
    noises = [0, 3, 50] + ([3000] if ctx.thorough else [1200])
    env0 = dict(os.environ)
    for sz in sizes:
        for noise in noises:
            env = dict(env0, ITEM_CACHE_SIZE=sz, PYTHONPATH=REPO)
            p = subprocess.run([sys.executable, '-c', CACHE_SCRIPT, str(noise)], capture_output=True, text=True, env=env, timeout=300)
            runs += 1
            if p.returncode != 0:
                fails.append(dict(cache_size=sz, noise=noise, item='<import or run>', how='process', error=(p.stderr.strip().splitlines() or ['?'])[-1][:160]))
                continue
            for item, how, err in json.loads(p.stdout.strip().splitlines()[-1]):
                fails.append(dict(cache_size=sz, noise=noise, item=item, how=how, error=err))
    ctx.bounded_part(evaluations=runs, distinct_nontrivial=runs, rule='fresh interpreter per (ITEM_CACHE_SIZE, number of intervening constructions): 14 items of all kinds rebuilt from ident / spec / pickle / deepcopy and constructed afresh must equal (and hash like) the originals',
                     bound=f'cache sizes {sizes} x noise {noises}', samples=[dict(cache_size='2', noise=50)] + fails[:3], label='cache transparency')
    seen = set()
    for f in fails:
        name = 'C14.cache.' + ('import' if f['how'] == 'process' else ('system-predicate-rebuild' if ('=' in f['item'] or '!' in f['item'] or 'Identity' in f['item']) and f['how'] in ('ident', 'spec') else f['how']))
        inst = f"{f['cache_size']}/{f['how']}/{f['error'][:40]}"
        if (name, inst) in seen: continue
        seen.add((name, inst))
        ctx.bounded_failure(name, f"ITEM_CACHE_SIZE={f['cache_size']} noise={f['noise']}: {f['item']} via {f['how']}: {f['error']}", f, instance=inst)

def replay(payload):
    if payload.get('kind') == 'bounded' and (payload.get('input') or {}).get('kind') == 'category':
        n, fails = category_outcomes()
        return dict(reproduced=bool(fails), detail=str(fails[0])[:300] if fails else 'outcomes do not depend on the cache state')
    if payload.get('kind') == 'bounded' and 'cache_size' in (payload.get('input') or {}):
        f = payload['input']
        env = dict(os.environ, ITEM_CACHE_SIZE=str(f['cache_size']), PYTHONPATH=REPO)
        p = subprocess.run([sys.executable, '-c', CACHE_SCRIPT, str(f['noise'])], capture_output=True, text=True, env=env, timeout=300)
        out = p.stdout.strip().splitlines()
        bad = p.returncode != 0 or (out and json.loads(out[-1]))
        return dict(reproduced=bool(bad), detail=(p.stderr.strip().splitlines() or out or ['?'])[-1][:300])
    return dict(reproduced=None, detail='see counterexample / meta')
