"""C16 — a tableau's bookkeeping is consistent at every step."""
from __future__ import annotations
import itertools, random
import z3
from pyvc import source
from pyvc.interp import Interp, explore, Outside, PyExc, SymVal, Contract, GenList, LocalList, LocalDict, Closure, Frame
from pyvc.world import World
from pyvc.smt import Obligation, Result
from pyvc.par import pmap
from checks.structs import Holder, Tok
from checks import structs
from contracts.tableau import FlagVal

FILE = 'pytableaux/proof/tableaux.py'

def enum_ob(name, ok, where='', **meta):
    return Obligation(name, True if ok else False, kind='enum', where=where, meta=meta)

# ------------------------------------------------------------------ Tree._build_branches: accumulation over the children

class TreeV(SymVal):
    def __init__(self, name, **f): self.name = name; self.f = dict(f)
    def sym_getattr(self, it, n):
        if n in self.f: return self.f[n]
        raise PyExc(AttributeError, (n,))
    def sym_setattr(self, it, n, v): self.f[n] = v

def build_branches(ctx):
    from pytableaux.proof import Tableau
    fn = Tableau.Tree.__dict__['_build_branches'].__func__; fi = source.of_function(fn); where = ctx.under_contract(fi)
    from collections import deque
    world = World()
    world.builtin_models[deque] = lambda it, xs=(), maxlen=None: LocalList(it.iterate(xs))
    cl = []; shape_ok = True; why = []
    for k in (1, 2, 3, 4):
        kids = [TreeV(f'child{i}', nodes=LocalList([Tok('n')] * 0), descendant_node_count=z3.Int(f'd{i}'), width=z3.Int(f'w{i}'), step=z3.Int(f's{i}')) for i in range(k)]
        nn = [z3.Int(f'len{i}') for i in range(k)]
        class NodesLen(SymVal):
            def __init__(s, n): s.n = n
            def sym_len(s, it): return s.n
        for i, c in enumerate(kids): c.f['nodes'] = NodesLen(nn[i])
        nodes = [Tok(f'node{i}') for i in range(k)]
        class Cls(SymVal):
            def __init__(s): s.calls = []
            def sym_getattr(s, it, name):
                if name == '_build':
                    def b(it, tab, branches, depth, memo):
                        s.calls.append(list(branches)); return kids[len(s.calls) - 1]
                    return Contract(b, 'Tree._build')
                raise Outside(name)
        class Br(SymVal):
            def __init__(s, node): s.node = node
            def sym_getitem(s, it, d): return s.node
        branches = [Br(nodes[i % k]) for i in range(k + 1)]
        def run(path):
            it = Interp(path, world)
            tree = TreeV('tree', descendant_node_count=0, width=0, children=LocalList(), branch_step=None, balanced_line_width=0.0, balanced_line_margin=0.0)
            cls = Cls()
            for i in range(k): path.assume(z3.And(nn[i] >= 1, kids[i].f['descendant_node_count'] >= 0, kids[i].f['width'] >= 1, kids[i].f['step'] >= 0))
            it.call_source(fi, fn, Tableau.Tree, [cls, 'tab', tree, LocalList(branches), LocalList(nodes), 0, LocalDict()], {})
            return tree, cls
        try:
            prs = explore(run)
        except Outside as e:
            ctx.add_result(Result('C16.Tree._build_branches.sums', 'unknown', detail=f'outside subset: {e}', where=where)); return
        for pr in prs:
            if pr.kind != 'return': cl.append(z3.Not(pr.pc)); continue
            tree, cls = pr.value
            want_desc = sum(nn[i] + kids[i].f['descendant_node_count'] for i in range(k))
            want_w = sum(kids[i].f['width'] for i in range(k))
            mn = kids[0].f['step']
            for i in range(1, k): mn = z3.If(kids[i].f['step'] < mn, kids[i].f['step'], mn)
            cl.append(z3.Implies(pr.pc, z3.And(tree.f['descendant_node_count'] == want_desc, tree.f['width'] == want_w, tree.f['branch_step'] == mn)))
            if [c for c in tree.f['children']] != kids: shape_ok = False; why.append(f'k={k}: children {tree.f["children"]}')
            # each child is built from exactly the branches whose node at depth is that node
            for i, call in enumerate(cls.calls):
                if [b for b in call] != [b for b in branches if b.node is nodes[i]]: shape_ok = False; why.append(f'k={k}: child {i} built from the wrong branches')
    ctx.add(Obligation('C16.Tree._build_branches.sums', z3.And(z3.BoolVal(shape_ok), *cl), where=where,
                       meta=dict(clause='after the loop: descendant_node_count = sum over children of (|nodes| + descendants), width = sum of widths, branch_step = min of steps, children in node order, each built from the branches sharing its node (1..4 children, symbolic counts)', why=why)))

def build_tree(ctx):
    """Tree._build interpreted from source on branch families given as lists of node tokens (one-, two- and three-way splits,
    shared prefixes, a start depth > 0), with _build_leaf and _build_branches under contract (the latter is
    C16.Tree._build_branches.sums).  Clause: the structure holds exactly the maximal segment shared by all its branches from
    `depth`, with their tick/add steps; a single branch is finalised as a leaf; otherwise _build_branches receives ALL the
    distinct nodes at the divergence depth in first-occurrence order, every branch, and that depth; open/closed flags,
    left/right positions and node counts are as documented."""
    from pytableaux.proof import Tableau
    from pytableaux.tools.hybrids import qset
    fn = Tableau.Tree.__dict__['_build'].__func__; fi = source.of_function(fn); where = ctx.under_contract(fi)
    world = World()
    class QS(SymVal):
        def __init__(s): s.items = []
        def sym_getattr(s, it, n):
            if n == 'add':
                def add(it, x):
                    if not any(x is y for y in s.items): s.items.append(x)
                return Contract(add, 'qset.add (C18)')
            raise Outside(f'qset.{n}')
        def sym_len(s, it): return len(s.items)
        def sym_iter(s, it): return list(s.items)
        def sym_truth(s, it): return bool(s.items)
    world.builtin_models[qset] = lambda it, xs=(): QS()
    class Br(SymVal):
        def __init__(s, name, nodes, closed): s.name, s.nodes, s.closed = name, nodes, closed
        def sym_len(s, it): return len(s.nodes)
        def sym_getitem(s, it, d):
            if isinstance(d, int) and -len(s.nodes) <= d < len(s.nodes): return s.nodes[d]
            raise PyExc(IndexError, (d,))
        def sym_is(s, it, o): return s is o
        def sym_truth(s, it): return True
    class TabM(SymVal):
        def __init__(s, added, ticked): s.added, s.ticked = added, ticked
        def sym_getattr(s, it, n):
            if n == 'flag': return Holder(CLOSED='CLOSED')
            if n == 'stat':
                def stat(it, branch, *keys):
                    if len(keys) == 1 and str(getattr(keys[0], 'name', keys[0])) == 'FLAGS': return frozenset(['CLOSED']) if branch.closed else frozenset()
                    if len(keys) == 2:
                        k = str(getattr(keys[1], 'name', keys[1]))
                        if k == 'STEP_ADDED': return s.added[keys[0].name]
                        if k == 'STEP_TICKED': return s.ticked.get(keys[0].name)
                    raise Outside(f'Tableau.stat{keys}')
                return Contract(stat, 'Tableau.stat')
            raise Outside(f'Tableau.{n}')
    class Cls(SymVal):
        def __init__(s): s.leaf = []; s.split = []
        def sym_call(s, it, args, kw):
            return TreeV('tree', nodes=LocalList(), ticksteps=LocalList(), children=LocalList(), step=None, descendant_node_count=0, width=0, has_open=False, has_closed=False, root=False)
        def sym_getattr(s, it, n):
            if n == '_build_leaf':
                def bl(it, tab, tree, branch, memo): s.leaf.append((branch, dict(memo)))
                return Contract(bl, 'Tree._build_leaf')
            if n == '_build_branches':
                def bb(it, tab, tree, branches, nodes, depth, memo): s.split.append((list(it.iterate(branches)), list(it.iterate(nodes)), depth, dict(memo)))
                return Contract(bb, 'Tree._build_branches (C16.Tree._build_branches.sums)')
            # private helpers the real class defines for itself (e.g. extracted by a refactoring) are followed from source
            from pyvc.interp import private_helper
            ok_, v_ = private_helper(it, Tableau.Tree, n, s)
            if ok_: return v_
            raise Outside(f'Tree.{n}')
    def N(name): 
        t = Tok(name); t.name = name; return t
    names = 'a b c d e f g'.split()
    nd = {n: N(n) for n in names}
    fams = [
        ('one branch', [['a', 'b', 'c']], 0, [False]),
        ('one closed branch', [['a', 'b']], 0, [True]),
        ('two-way split after a shared prefix', [['a', 'b', 'c'], ['a', 'b', 'd']], 0, [False, True]),
        ('three-way split', [['a', 'b'], ['a', 'c'], ['a', 'd']], 0, [True, True, False]),
        ('three-way split, first two branches share their node', [['a', 'b', 'e'], ['a', 'b', 'f'], ['a', 'c'], ['a', 'd']], 0, [False, False, False, False]),
        ('four-way split at the root', [['a'], ['b'], ['c'], ['d']], 0, [True, True, True, True]),
        ('sub-structure from depth 1', [['a', 'b', 'c'], ['a', 'b', 'd'], ['a', 'b', 'e']], 1, [False, False, True]),
        ('split at the start depth', [['a', 'b'], ['a', 'c']], 1, [False, False]),
    ]
    bad = None; und = None
    for label, fam, depth0, closed in fams:
        added = {n: i + 1 for i, n in enumerate(names)}; added['b'] = 0
        ticked = {'a': 5}
        def run(path, fam=fam, depth0=depth0, closed=closed):
            it = Interp(path, world)
            brs = [Br(f'b{i}', [nd[x] for x in seq], closed[i]) for i, seq in enumerate(fam)]
            cls = Cls()
            memo = None if depth0 == 0 else LocalDict(pos=7, depth=1, distinct_nodes=3, root=Tok('root'))
            tree = it.call_source(fi, fn, Tableau.Tree, [cls, TabM(added, ticked), LocalList(brs), depth0, memo], {})
            return tree, cls, brs, memo
        try:
            prs = explore(run)
        except Outside as e:
            und = f'outside subset: {e}'; break
        if len(prs) != 1 or prs[0].kind != 'return':
            bad = dict(family=label, outcome=[str(p.kind) + ':' + str(p.value)[:80] for p in prs]); break
        tree, cls, brs, memo = prs[0].value
        # reference
        d = depth0; seg = []
        while all(len(f) > d for f in fam) and len({f[d] for f in fam}) == 1: seg.append(fam[0][d]); d += 1
        div = []
        for f in fam:
            if len(f) > d and f[d] not in div: div.append(f[d])
        got_nodes = [n.name for n in tree.f['nodes']]
        probs = []
        if got_nodes != seg: probs.append(f'nodes {got_nodes} != shared segment {seg}')
        if list(tree.f['ticksteps']) != [ticked.get(n) for n in seg]: probs.append('ticksteps')
        want_step = min([added[n] for n in seg], default=None)
        if tree.f['step'] != want_step: probs.append(f"step {tree.f['step']} != {want_step}")
        if len(fam) == 1:
            if not (len(cls.leaf) == 1 and cls.leaf[0][0] is brs[0] and not cls.split): probs.append('a single branch is not finalised as a leaf')
        else:
            if not (len(cls.split) == 1 and not cls.leaf): probs.append('children are not built exactly once')
            else:
                b_, n_, d_, m_ = cls.split[0]
                if [x.name for x in n_] != div: probs.append(f'_build_branches received the nodes {[x.name for x in n_]}, the distinct nodes at the divergence depth are {div}')
                if [x for x in b_] != brs: probs.append('_build_branches did not receive every branch')
                if d_ != d: probs.append(f'_build_branches received depth {d_}, the divergence depth is {d}')
                if m_.get('depth') != (1 if depth0 == 0 else 2): probs.append('memo depth not incremented for the children')
            if bool(tree.f['has_closed']) != any(closed) or bool(tree.f['has_open']) != (not all(closed)): probs.append('has_open / has_closed')
        if tree.f.get('structure_node_count') != tree.f['descendant_node_count'] + len(seg): probs.append('structure_node_count')
        want_left = 1 if depth0 == 0 else 8
        if tree.f.get('left') != want_left or tree.f.get('right') != want_left + 1 or tree.f.get('depth') != (0 if depth0 == 0 else 1): probs.append(f"left/right/depth {tree.f.get('left')}, {tree.f.get('right')}, {tree.f.get('depth')}")
        if depth0 == 0 and (tree.f.get('root') is not True or tree.f.get('distinct_nodes') != len(seg)): probs.append('root / distinct_nodes')
        if depth0 != 0 and memo.get('distinct_nodes') != 3 + len(seg): probs.append('memo distinct_nodes')
        if probs: bad = dict(family=label, branches=fam, start_depth=depth0, problems=probs); break
    if und: return ctx.add_result(Result('C16.Tree._build.segment-and-split', 'unknown', detail=und, where=where))
    ctx.add(enum_ob('C16.Tree._build.segment-and-split', bad is None, where=where, cex=bad, families=len(fams),
                    clause='a structure holds exactly the maximal node segment shared by all its branches; one branch -> leaf; otherwise every distinct node at the divergence depth (in first-occurrence order), every branch and that depth go to _build_branches; flags, steps, positions and counts as documented'))

def replay_listeners(r):
    "real proofs with two forks (a node still unticked at the first fork is ticked later): the per-step trace invariants"
    out = []
    for L, a in (('CPL', 'e:Aab:Acd'), ('FDE', 'e:Aab:Acd'), ('K', 'Me:AMaMb:ALcLd'), ('CPL', 'KNaNc:Aab:Acd')):
        n, bad = _trace_args(L, [a])
        out += [f"{L} {a}: {b['kind']}" for b in bad]
    return dict(reproduced=bool(out), detail='; '.join(out[:3]) or 'bookkeeping consistent on the sample proofs')

def replay_build_tree(r):
    "a real tableau with a three-way split: every branch of the tableau must be a root-to-leaf path of the tree"
    from pytableaux.proof import Tableau
    from pytableaux.lang import Argument
    out = []
    for L, a in (('K3W', 'a:NAab'), ('B3E', 'c:EAcaUbc'), ('K3W', 'NUab:ABNacc:CaNb'), ('CPL', 'a:Aab')):
        t = Tableau(L, Argument(a)).build()
        prob = check_tree(t)
        if prob: out.append(f'{L} {a}: {prob}')
    return dict(reproduced=bool(out), detail='; '.join(out)[:600] or 'trees of the sample tableaux are faithful')

def stats_obligation(ctx):
    """Tableau._compute_stats / _result_word interpreted from source over symbolic counts: the statistics are the observable
    counts (branches, open, closed = branches - open, steps = |history|, distinct nodes of the tree) and the result word follows
    the verdict"""
    from pytableaux.proof import Tableau
    fn = Tableau.__dict__['_compute_stats']; fi = source.of_function(fn); where = ctx.under_contract(fi)
    fr_ = Tableau.__dict__['_result_word']; fir = source.of_function(fr_); ctx.under_contract(fir)
    nb, no, nh, dn = z3.Int('branches'), z3.Int('open'), z3.Int('steps'), z3.Int('distinct')
    class Len(SymVal):
        def __init__(s, n, items=None): s.n, s.items = n, items
        def sym_len(s, it): return s.n
        def sym_iter(s, it): return list(s.items or [])
    class Timer(SymVal):
        def sym_getattr(s, it, n):
            if n == 'elapsed_ms': return Contract(lambda it: 0, 'StopWatch.elapsed_ms')
            raise Outside(n)
    class Timers(SymVal):
        def sym_getattr(s, it, n): return Timer()
        def sym_getitem(s, it, k): return Timer()
    world = World()
    bad = []; cl = []
    for has_tree in (True, False):
        for verdict in ('valid', 'invalid', 'completed', 'unfinished'):
            class TM(SymVal):
                def sym_len(s, it): return nb
                def sym_getattr(s, it, n):
                    if n == 'tree':
                        if has_tree: return Holder(distinct_nodes=dn)
                        return None
                    if n == 'timers': return Timers()
                    if n == 'open': return Len(no)
                    if n == 'history': return Len(nh, [])
                    if n == 'rules': return GenList([])
                    if n == 'valid': return True if verdict == 'valid' else (False if verdict == 'invalid' else None)
                    if n == 'invalid': return True if verdict == 'invalid' else (False if verdict == 'valid' else None)
                    if n == 'completed': return verdict in ('valid', 'invalid', 'completed')
                    if n == '_result_word':
                        from pyvc.interp import BoundSource
                        return BoundSource(fir, fr_, Tableau, s)
                    raise Outside(f'Tableau.{n}')
            tm = TM()
            try:
                prs = explore(lambda path: Interp(path, world).call_source(fi, fn, Tableau, [tm], {}, recv=tm))
            except Outside as e:
                return ctx.add_result(Result('C16._compute_stats.counts', 'unknown', detail=f'outside subset: {e}', where=where))
            for pr in prs:
                if pr.kind != 'return' or not isinstance(pr.value, dict): bad.append(f'{verdict}: {pr.kind}'); continue
                d = pr.value
                want_word = dict(valid='Valid', invalid='Invalid', completed='Completed', unfinished='Unfinished')[verdict]
                if d.get('result') != want_word: bad.append(f'result word {d.get("result")!r} for {verdict}')
                if has_tree:
                    if d.get('distinct_nodes') is not dn: bad.append('distinct_nodes is not the tree count')
                elif d.get('distinct_nodes') is not None: bad.append('distinct_nodes without a tree')
                try:
                    cl.append(z3.Implies(pr.pc, z3.And(d['branches'] == nb, d['open_branches'] == no, d['closed_branches'] == nb - no, d['steps'] == nh)))
                except Exception as e: bad.append(f'malformed: {e!r}')
    ctx.add(Obligation('C16._compute_stats.counts', z3.And(z3.BoolVal(not bad), *cl), where=where,
                       meta=dict(clause='stats: branches = len(tableau), open_branches = len(open), closed_branches = branches - open_branches, steps = len(history), distinct_nodes = tree.distinct_nodes (None without a tree), result word = Valid / Invalid / Completed / Unfinished following the verdict', bad=bad[:4])))

# ------------------------------------------------------------------ listeners of Tableau.__listen_on

def listeners(ctx):
    from pytableaux.proof import Tableau, Branch
    fi_outer = source.get(FILE, 'Tableau.__listen_on')
    fiA = source.get(FILE, 'Tableau.__listen_on.after_close'); fiN = source.get(FILE, 'Tableau.__listen_on.after_node_add')
    fiT = source.get(FILE, 'Tableau.__listen_on.after_tick'); fiR = source.get(FILE, 'Tableau.__listen_on.after_rule_apply')
    fiB = source.get(FILE, 'Tableau.__listen_on.add_branch')
    for f in (fiA, fiN, fiT, fiR, fiB): ctx.under_contract(f)
    world = World()
    def _emsg_hook(it, what, args):
        from pytableaux.errors import Emsg
        from pyvc.interp import ExcValue
        if what[0] == 'getattr' and args[0] is Emsg:
            member = getattr(Emsg, what[1]); cls = member.cls if hasattr(member, 'cls') else member.value[0]
            return Contract(lambda it, *a: ExcValue(cls, a), f'Emsg.{what[1]}')
        return NotImplemented
    world.attr_hooks.append(_emsg_hook)
    def mkframe(selfm, **closure):
        fr = Frame(fi_outer, Tableau._Tableau__listen_on, Tableau, dict(self=selfm, **closure))
        return fr
    ok = True; why = []
    class TabL(SymVal):
        def __init__(s):
            s.flag = FlagVal.fresh('flag'); s.step = z3.Int('current_step'); s.emitted = []; s.members = []
        def sym_getattr(s, it, name):
            if name == 'flag': return s.flag
            if name == 'current_step': return s.step
            if name == 'emit': return Contract(lambda it, ev, *a: s.emitted.append((getattr(ev, 'name', ev), a)), 'emit', trusted=True)
            if name == 'BranchStat':
                return Contract(lambda it, d=None: StatD(dict(d or {})), 'BranchStat')
            raise Outside(f'Tableau.{name}')
        def sym_setattr(s, it, name, v):
            if name == 'flag': s.flag = FlagVal.lift(v); return
            raise Outside(name)
        def sym_contains(s, it, b): return any(b is m for m in s.members)
    class StatD(SymVal):
        def __init__(s, d=None): s.d = dict(d or {}); s.nodes = {}
        def sym_getitem(s, it, k):
            kn = getattr(k, 'name', k)
            if kn in s.d: return s.d[kn]
            if kn == 'FLAGS': return FlagVal({})
            if kn == 'NODES': return NodesTab(s.nodes)          # BranchStat.__init__ creates the per-node table
            raise PyExc(KeyError, (kn,))
        def sym_setitem(s, it, k, v): s.d[getattr(k, 'name', k)] = v
        def sym_getattr(s, it, name):
            if name == 'node':
                def node(it, n): return s.nodes.setdefault(id(n), StatD())
                return Contract(node, 'BranchStat.node')
            raise Outside(name)
    class NodesTab(SymVal):
        "the NODES table of a BranchStat: a plain dict node -> NodeStat (update copies references, as dict.update does)"
        def __init__(s, tab): s.tab = tab
        def sym_getitem(s, it, n):
            if id(n) in s.tab: return s.tab[id(n)]
            raise PyExc(KeyError, (n,))
        def sym_setitem(s, it, n, v): s.tab[id(n)] = v
        def sym_contains(s, it, n): return id(n) in s.tab
        def sym_getattr(s, it, name):
            if name == 'update':
                def update(it, other):
                    if isinstance(other, NodesTab): s.tab.update(other.tab)
                    else: raise Outside('NODES.update(<non-table>)')
                return Contract(update, 'dict.update')
            if name == 'setdefault': return Contract(lambda it, n, v: s.tab.setdefault(id(n), v), 'dict.setdefault')
            if name == 'copy': return Contract(lambda it: NodesTab(dict(s.tab)), 'dict.copy')
            raise Outside(f'dict.{name}')
    try:
        # after_close
        t = TabL(); b = Tok('branch'); stat = {id(b): StatD()}
        class StatMap(SymVal):
            def sym_getitem(s, it, k): return stat[id(k)]
            def sym_setitem(s, it, k, v): stat[id(k)] = v
        opens = LocalList([Tok('other'), b])
        it = Interp(__import__('pyvc.interp', fromlist=['Path']).Path([]), world)
        orig = world.call_builtin_method
        fr = mkframe(t, stat=StatMap(), opens=opens)
        it.call_closure(Closure(fiA.node, fr, 'after_close'), [b], {})
        s_ = stat[id(b)]
        if not (s_.d.get('STEP_CLOSED') is t.step and isinstance(s_.d.get('FLAGS'), FlagVal) and z3.is_true(z3.simplify(s_.d['FLAGS'].bits['CLOSED'])) and b not in opens and len(opens) == 1
                and t.emitted and t.emitted[-1][0] == 'AFTER_BRANCH_CLOSE'):
            ok = False; why.append('after_close')
        # after_node_add
        t = TabL(); n = TreeV('node'); stat = {id(b): StatD()}
        fr = mkframe(t, stat=StatMap())
        it.call_closure(Closure(fiN.node, fr, 'after_node_add'), [n, b], {})
        ns = stat[id(b)].nodes.get(id(n))
        if not (ns is not None and ns.d.get('STEP_ADDED') is t.step and n.f.get('step') is t.step and t.emitted[-1][0] == 'AFTER_NODE_ADD'): ok = False; why.append('after_node_add')
        # after_tick
        t = TabL(); stat = {id(b): StatD()}
        fr = mkframe(t, stat=StatMap())
        it.call_closure(Closure(fiT.node, fr, 'after_tick'), [n, b], {})
        ns = stat[id(b)].nodes.get(id(n))
        if not (ns is not None and ns.d.get('STEP_TICKED') is t.step and z3.is_true(z3.simplify(ns.d['FLAGS'].bits['TICKED'])) and t.emitted[-1][0] == 'AFTER_NODE_TICK'): ok = False; why.append('after_tick')
        # after_rule_apply: exactly one history entry, STARTED set
        for has_entry, is_flag_target in ((True, False), (False, False), (True, True), (False, True)):
            t = TabL(); hist = LocalList()
            # a target is a mapping: the application of a quit flag (target['flag'] set) is a step like any other
            tprops = dict(flag='quit') if is_flag_target else {}
            class Tgt(SymVal):
                def sym_getattr(s, it, name):
                    if name == '_entry':
                        if has_entry: return 'ENTRY'
                        raise PyExc(AttributeError, ())
                    if name == 'rule': return 'RULE'
                    if name == 'get': return Contract(lambda it, k, d=None: tprops.get(getattr(k, 'value', k), d), 'Target.get')
                    if name in tprops: return tprops[name]
                    raise Outside(name)
                def sym_getitem(s, it, k):
                    k = getattr(k, 'value', k)
                    if k in tprops: return tprops[k]
                    raise PyExc(KeyError, (k,))
                def sym_contains(s, it, k): return getattr(k, 'value', k) in tprops
            world.builtin_models[Tableau.StepEntry] = lambda it, r, tg, c: ('ENTRY2', r, tg)
            from pytableaux.tools.timing import Counter
            world.builtin_models[Counter] = lambda it: 'counter'
            tg = Tgt()
            fr = mkframe(t, history=hist)
            it.call_closure(Closure(fiR.node, fr, 'after_rule_apply'), [tg], {})
            if not (len(hist) == 1 and (hist[0] == 'ENTRY' if has_entry else (hist[0][0] == 'ENTRY2' and hist[0][2] is tg)) and z3.is_true(z3.simplify(t.flag.bits['STARTED']))): ok = False; why.append('after_rule_apply' + (' (quit-flag target: the step is not recorded)' if is_flag_target else ''))
        # add_branch: open list gains the branch iff it is not closed; branches gains it; duplicate raises
        for closed, dup in ((False, False), (True, False), (False, True)):
            t = TabL(); stat = {}
            class Bm(SymVal):
                def __init__(s): s.listeners = None
                def sym_getattr(s, it, name):
                    if name == 'closed': return closed
                    if name == 'parent': return None
                    if name == 'id': return 7
                    if name == 'on': return Contract(lambda it, l: setattr(s, 'listeners', l), 'Branch.on')
                    raise Outside(name)
                def sym_len(s, it): return 0
                def sym_iter(s, it): return []
            bm = Bm()
            if dup: t.members.append(bm)
            opens = LocalList(); branches = LocalList()
            from collections import deque
            world.builtin_models[deque] = lambda it, xs=(), maxlen=None: LocalList(it.iterate(xs))
            fr = mkframe(t, stat=StatMap(), opens=opens, branches=branches, branch_listeners='LISTENERS', after_node_add=None)
            try:
                it.call_closure(Closure(fiB.node, fr, 'add_branch'), [bm], {})
                raised = False
            except PyExc as e:
                raised = True
            if dup:
                if not raised or branches or opens: ok = False; why.append('add_branch duplicate')
            else:
                if raised or list(branches) != [bm] or (list(opens) == [bm]) == closed or bm.listeners != 'LISTENERS' or id(bm) not in stat or stat[id(bm)].d.get('INDEX') != 0 \
                        or stat[id(bm)].d.get('STEP_ADDED') is not t.step or t.emitted[-1][0] != 'AFTER_BRANCH_ADD':
                    ok = False; why.append(f'add_branch closed={closed}')
        # fork: a branch added with a parent gets records of its own -- a tick recorded on the child leaves every record of the
        # parent as it was, and a tick recorded on the parent afterwards leaves the child's records as they were
        t = TabL(); stat = {}
        parent = Tok('parent'); n1 = TreeV('n1'); n2 = TreeV('n2')
        stat[id(parent)] = StatD(); 
        for nd, st_ in ((n1, 1), (n2, 2)):
            rec = stat[id(parent)].nodes.setdefault(id(nd), StatD()); rec.d['STEP_ADDED'] = st_
        class Child(SymVal):
            def __init__(s): s.listeners = None
            def sym_getattr(s, it, name):
                if name == 'closed': return False
                if name == 'parent': return parent
                if name == 'id': return 8
                if name == 'on': return Contract(lambda it, l: setattr(s, 'listeners', l), 'Branch.on')
                raise Outside(name)
            def sym_len(s, it): return 2
            def sym_iter(s, it): return [n1, n2]
            def sym_truth(s, it): return True
        ch = Child(); opens = LocalList(); branches = LocalList([parent])
        t.members.append(parent)
        fr = mkframe(t, stat=StatMap(), opens=opens, branches=branches, branch_listeners='LISTENERS', after_node_add=None)
        it.call_closure(Closure(fiB.node, fr, 'add_branch'), [ch], {})
        before = {k: dict(v.d) for k, v in stat[id(parent)].nodes.items()}
        fr = mkframe(t, stat=StatMap())
        it.call_closure(Closure(fiT.node, fr, 'after_tick'), [n1, ch], {})
        after = {k: dict(v.d) for k, v in stat[id(parent)].nodes.items()}
        if before != after or set(after) != {id(n1), id(n2)}: ok = False; why.append('a tick recorded on a child branch changed the records of its parent (shared NodeStat)')
        crec = stat[id(ch)].nodes.get(id(n1))
        if not (crec is not None and crec.d.get('STEP_TICKED') is t.step): ok = False; why.append('tick on the child not recorded on the child')
        snap_child = {k: dict(v.d) for k, v in stat[id(ch)].nodes.items()}
        it.call_closure(Closure(fiT.node, mkframe(t, stat=StatMap()), 'after_tick'), [n2, parent], {})
        if {k: dict(v.d) for k, v in stat[id(ch)].nodes.items()} != snap_child: ok = False; why.append('a tick recorded on the parent changed the records of the child')
    except Outside as e:
        ctx.add_result(Result('C16.listeners', 'unknown', detail=f'outside subset: {e}')); return
    ctx.add(enum_ob('C16.listeners', ok, where=fi_outer.where, cex=dict(bad=why),
                    clause='after_close records STEP_CLOSED = current step, sets CLOSED, removes the branch from the open list; after_node_add / after_tick record the current step (and TICKED); after_rule_apply appends exactly one history entry and sets STARTED; '
                           'add_branch appends to branches, to the open list iff the branch is not closed, records index/step/parent, and refuses a duplicate before any change; the records of a forked branch are its own (ticks on child / parent do not change the other)'))

def branch_methods(ctx):
    "Branch.closed / close / tick / extend: straight-line"
    from pytableaux.proof import common as C
    world = World()
    ok = True; why = []
    # closed
    fi = source.of_function(C.Branch.__dict__['closed'].fget); ctx.under_contract(fi)
    for last_is_closure, n in ((True, 2), (False, 2), (False, 0)):
        class Bm(SymVal):
            def sym_len(s, it): return n
            def sym_getitem(s, it, k):
                assert k == -1
                return Holder()
        world.builtin_models[isinstance] = (lambda orig: lambda it, x, cls: (last_is_closure if cls is C.ClosureNode and isinstance(x, Holder) else orig(it, x, cls)))(World().builtin_models[isinstance])
        prs = explore(lambda path: Interp(path, world).call_source(fi, C.Branch.__dict__['closed'].fget, C.Branch, [Bm()], {}))
        if prs[0].value != (last_is_closure and n > 0): ok = False; why.append('closed')
    ctx.add(enum_ob('C16.Branch.closed', ok, where=fi.where, clause='closed iff the branch is non-empty and its last node is a ClosureNode', cex=dict(bad=why)))
    # close -> append(ClosureNode); tick: ticked set gains the node once and emits once; extend: appends in order
    for nm in ('close', 'tick', 'extend', 'is_ticked'):
        ctx.under_contract(source.of_function(C.Branch.__dict__[nm]))
    from pytableaux.proof import Branch, snode, ClosureNode
    from pytableaux.lang import Atomic
    from pytableaux.errors import IllegalStateError
    b = Branch(); n1, n2 = snode(Atomic(0, 0)), snode(Atomic(1, 0))
    events = []
    b.on(Branch.Events.AFTER_TICK, lambda *a: events.append('tick')); b.on(Branch.Events.AFTER_CLOSE, lambda *a: events.append('close'))
    b.extend([n1, n2]); b.tick(n1); b.tick(n1)
    ok2 = list(b) == [n1, n2] and b.is_ticked(n1) and not b.is_ticked(n2) and events == ['tick'] and not b.closed
    b.close()
    ok2 = ok2 and b.closed and isinstance(b[-1], ClosureNode) and events == ['tick', 'close'] and len(b) == 3
    try: b.append(snode(Atomic(2, 0))); ok2 = False
    except IllegalStateError: pass
    ok2 = ok2 and len(b) == 3
    ctx.add(enum_ob('C16.Branch.close-tick-extend', ok2, clause='extend appends in order; tick is idempotent and emits once; close appends one ClosureNode and emits AFTER_CLOSE; a closed branch refuses append and stays unchanged (run on the real class)', cex={}))

# ------------------------------------------------------------------ bounded: invariant at every step of real proofs

def _trace_args(L, argstrs):
    return _trace_chunk((L, 0, len(argstrs), list(argstrs)))

def _trace_chunk(job):
    lname, seed, count = job[:3]
    explicit = job[3] if len(job) > 3 else None
    from checks import rulesem as RS
    from pytableaux.proof import Tableau, Branch, ClosureNode
    from bounded import args as A
    logic = RS.registry()(lname); L = logic.Meta.name
    rnd = random.Random(seed)
    n = 0; bad = []
    kinds = ['prop'] + (['modal'] if logic.Meta.modal else []) + (['fo'] if logic.Meta.quantified else [])
    for i in range(count):
        arg = A.random_argument(rnd, kinds[i % len(kinds)], depth=3, max_premises=2)
        if explicit is not None:
            from pytableaux.lang import Argument as _Arg
            arg = _Arg(explicit[i])
        opts = dict(is_group_optim=bool(i % 2), is_rank_optim=bool((i // 2) % 2), max_steps=120, is_build_models=bool(i % 3 == 0))
        try:
            t = Tableau(logic, arg, **opts)
        except Exception as e:
            bad.append(dict(logic=L, argument=arg.argstr(), kind='exception', error=repr(e)[:100])); continue
        prob = None
        # trunk
        trunk = list(t[0]) if len(t) else []
        sents = [nd.get('sentence') for nd in trunk]
        concl = arg.conclusion
        want_last = (~concl) if trunk and trunk[-1].get('designated') is None else concl
        if len(t) != 1 or sents[:-1] != list(arg.premises) or sents[-1] != want_last: prob = 'trunk is not premises + conclusion'
        if trunk and trunk[-1].get('designated') is not None and ([nd['designated'] for nd in trunk] != [True] * len(arg.premises) + [False]): prob = 'trunk designations'
        snap = {id(b): list(b) for b in t}
        recorded = {}
        hist_len = 0
        events = []
        t.on(Tableau.Events.AFTER_BRANCH_ADD, lambda b: events.append(('add', b)))
        while prob is None:
            try: entry = t.step()
            except Exception as e:
                prob = f'step raised {type(e).__name__}'; break
            n += 1
            cur = t.current_step
            # history grows by exactly one per applied step, with that step's rule/target
            if entry is not None:
                if len(t.history) != hist_len + 1 or t.history[-1] is not entry: prob = 'history does not grow by exactly the applied entry'
                hist_len += 1
            else:
                if len(t.history) != hist_len: prob = 'history changed without a step'
            # branches only grow; closed branches never extended; new branches extend their parent's nodes at fork time
            newsnap = {}
            for b in t:
                nodes = list(b)
                newsnap[id(b)] = nodes
                if id(b) in snap:
                    old = snap[id(b)]
                    if nodes[:len(old)] != old: prob = 'a branch lost or reordered nodes'
                    if old and isinstance(old[-1], ClosureNode) and len(nodes) > len(old): prob = 'a closed branch was extended'
                else:
                    p = b.parent
                    if p is None: prob = 'a new branch without parent after the trunk'
                    else:
                        pold = snap.get(id(p), [])
                        if nodes[:len(pold)] != pold: prob = 'a new branch does not extend its parent\'s nodes at the fork'
            snap = newsnap
            # open view = unclosed branches, in branch order
            if [b for b in t if not b.closed] != list(t.open): prob = 'open view differs from the unclosed branches'
            # recorded steps: non-decreasing along a branch, never in the future
            def nstat(b, nd, key):
                x = b
                while x is not None:
                    try:
                        v = t.stat(x, nd, key)
                        if type(v) is int or (v is None and key == 'STEP_TICKED'): return v      # Flag(0) is the unrecorded default of an inherited node
                    except KeyError: pass
                    x = x.parent
                raise KeyError(nd)
            # recorded numbers are facts about the past: once recorded for (branch, node) they never change
            for b in t:
                sc = None
                if b.closed:
                    try: sc = t.stat(b, 'STEP_CLOSED')
                    except Exception: sc = None
                for nd in b:
                    for key in ('STEP_ADDED', 'STEP_TICKED'):
                        try: v = t.stat(b, nd, key)
                        except Exception: continue
                        if type(v) is not int: continue
                        k_ = (id(b), id(nd), key)
                        if k_ in recorded and recorded[k_] != v: prob = f'{key} recorded for a node of branch {b.id} changed from {recorded[k_]} to {v}'
                        recorded[k_] = v
                        if key == 'STEP_TICKED' and type(sc) is int and v > sc: prob = f'a tick is recorded at step {v} on branch {b.id}, which closed at step {sc}'
            for b in t:
                last = -1
                for nd in b:
                    sa = nstat(b, nd, 'STEP_ADDED')
                    if sa > cur or sa < last: prob = f'STEP_ADDED {sa} out of order (current {cur})'
                    last = sa
                    st = nstat(b, nd, 'STEP_TICKED') if b.is_ticked(nd) else None
                    if st is not None and (st > cur or st < sa): prob = f'STEP_TICKED {st} before added {sa} or in the future'
                if b.closed:
                    sc = t.stat(b, 'STEP_CLOSED')
                    if sc > cur or sc < last: prob = 'STEP_CLOSED out of order'
            if entry is None: break
        if prob is None and t.finished and t.tree is not None:
            prob = check_tree(t)
        if prob is None and t.finished:
            st = t.stats
            if st['branches'] != len(t) or st['open_branches'] != len(t.open) or st['closed_branches'] != len(t) - len(t.open) or st['steps'] != len(t.history): prob = 'stats differ from the observable counts'
            if t.tree is not None and st['distinct_nodes'] != len({id(nd) for b in t for nd in b}): prob = 'distinct_nodes differs'
            want_result = 'Valid' if t.valid else ('Invalid' if t.invalid else ('Completed' if t.completed else 'Unfinished'))
            if st['result'] != want_result: prob = 'result word'
        if prob: bad.append(dict(logic=L, argument=arg.argstr(), options={k: v for k, v in opts.items()}, kind=prob))
    return n, bad

def check_tree(t):
    leaves = []
    def walk(tr, path):
        path = path + list(tr.nodes)
        if tr.leaf or not tr.children:
            leaves.append((tr, path)); return len(tr.nodes), 1
        desc = 0; width = 0
        for c in tr.children:
            d, w = walk(c, path)
            desc += d; width += w
        if tr.descendant_node_count != desc: raise AssertionError(f'descendant_node_count {tr.descendant_node_count} != {desc}')
        if tr.structure_node_count != desc + len(tr.nodes): raise AssertionError('structure_node_count')
        if tr.width != width: raise AssertionError(f'width {tr.width} != {width}')
        if not (tr.left < tr.right): raise AssertionError('left/right')
        return desc + len(tr.nodes), width
    try:
        walk(t.tree, [])
    except AssertionError as e:
        return f'tree: {e}'
    if len(leaves) != len(t): return f'tree has {len(leaves)} leaves for {len(t)} branches'
    by = {b.id: b for b in t}
    for lf, path in leaves:
        b = by.get(lf.branch_id)
        if b is None: return 'leaf without branch'
        if [id(x) for x in path] != [id(x) for x in b]: return 'root-to-leaf path is not the branch'
        if lf.closed != b.closed or lf.open == b.closed: return 'leaf closed/open flag'
        if lf.width != 1 or lf.descendant_node_count != 0: return 'leaf counts'
    if t.tree.distinct_nodes != len({id(nd) for b in t for nd in b}): return 'distinct_nodes'
    return None

def bounded_traces(ctx):
    from checks import rulesem as RS
    names = [RS.registry()(n).Meta.name for n in RS.registry()]
    per = 40 if ctx.thorough else 6
    jobs = [(L, ctx.seed * 17 + i, per) for i, L in enumerate(names)]
    total = 0; fails = []
    for n, bad in pmap(_trace_chunk, jobs):
        total += n; fails += bad
    ctx.bounded_part(evaluations=total, distinct_nontrivial=total, rule='seeded random arguments x 57 logics x option combinations, stepped through the public step() API: after the trunk and after every step the invariant I_tab is re-checked (trunk content, branches only grow, closed branches never extended, new branches extend the parent at the fork, open view = unclosed branches in order, one history entry per applied step, recorded steps non-decreasing and not in the future); after finishing, one leaf per branch with root-to-leaf path = branch, recomputed counts, stats = observable counts; distinct = steps checked',
                     bound=f'{per} arguments per logic, <= 120 steps', samples=[dict(logic='S4', argument='NLa:MNb')] + fails[:3], label='every step of real proofs')
    seen = set()
    for f in fails:
        key = f['kind'][:40]
        if key in seen: continue
        seen.add(key)
        ctx.bounded_failure('C16.trace', f"{f['logic']} {f['argument']} {f['options']}: {f['kind']}", f, instance=f['kind'][:60])

def trunk_obligations(ctx):
    """the trunk: System.build_trunk of every logic (and Branch.__iadd__ under it) interpreted from source on premise lists of length
    0..3, with a repeated premise and with the conclusion among the premises: exactly the premises in order, then the conclusion node"""
    from checks import c01, rulesem as RS
    funcs = {}
    for lname in RS.registry():
        r = c01.trunk_obligation(RS.registry()(lname), funcs)
        r.name = r.name.replace('C01.trunk.', 'C16.trunk.')
        ctx.add_result(r)
    ctx.functions.update(funcs)
    try:
        from pyvc import source
        ctx.under_contract(source.get('pytableaux/proof/common.py', 'Branch.__iadd__'))
    except Exception: pass

def replay_trunk(r):
    "real tableaux of the logic for arguments with repeated premises: the trunk holds every premise, in order, then the conclusion"
    from pytableaux.proof import Tableau
    from pytableaux.lang import Argument
    L = (r.meta or {}).get('logic') or r.name.split('.')[-1]
    out = []
    for a in ('b:a:a', 'b:a:b:a', 'a:a', 'b:a', 'b'):
        arg = Argument(a)
        try:
            t = Tableau(L, arg)
            trunk = list(t[0]); sents = [nd.get('sentence') for nd in trunk]
            want_last = (~arg.conclusion) if trunk and trunk[-1].get('designated') is None else arg.conclusion
            if len(trunk) != len(arg.premises) + 1 or sents[:-1] != list(arg.premises) or sents[-1] != want_last:
                out.append(f'{L} {a}: trunk sentences {[str(x) for x in sents]}, expected {[str(x) for x in arg.premises]} + [{want_last}]')
        except Exception as e: out.append(f'{L} {a}: {type(e).__name__}: {e}')
    return dict(reproduced=bool(out), detail='; '.join(out[:3]) or 'trunks are the premises then the conclusion')

def run(ctx):
    ctx.level = 'other'
    ctx.drop('type annotations', 'docstrings')
    ctx.trust('Tree._build is interpreted on eight branch families (splits of width 1-4, shared prefixes, a start depth > 0) with its two callees under contract; arbitrary families are covered by the bounded stand-in: runtime contracts on every finished tableau of the corpus',
              'Branch.append contracts come from C06; AdzHelper._apply from the shared structural obligation')
    ctx.assume('CPython semantics of the interpreted subset as encoded by pyvc/interp.py')
    ctx.explanation = ('Proved: the five listener closures of Tableau.__listen_on (interpreted from source over token models), Tree._build (segment/split on eight branch families, callees under contract), Tree._build_branches (symbolic child counts: sums and minimum), Branch.closed, AdzHelper._apply. '
                       'Bounded: the bookkeeping invariant re-checked after the trunk and after every step of seeded proofs in all logics through the public API, tree shape and counts and statistics recomputed after finishing.')
    build_branches(ctx)
    build_tree(ctx)
    stats_obligation(ctx)
    trunk_obligations(ctx)
    from checks import events_ob
    events_ob.events_obligations(ctx, 'C16'); events_ob.register_replayers(ctx, 'C16')
    listeners(ctx)
    branch_methods(ctx)
    structs.adz_apply_obligations(ctx, 'C16')
    bounded_traces(ctx)
    ctx.replayers['C16.Tree._build.'] = replay_build_tree
    ctx.replayers['C16.listeners'] = replay_listeners
    ctx.replayers['C16.trunk.'] = replay_trunk
    ctx.replayers['C16.'] = lambda r: dict(reproduced=None, detail='see counterexample / meta')

def replay(payload):
    if payload.get('kind') == 'bounded':
        f = payload['input']
        n, bad = _trace_one(f)
        return dict(reproduced=bool(bad), detail=str(bad[:1]))
    return dict(reproduced=None, detail='see counterexample / meta')

def _trace_one(f):
    from checks import rulesem as RS
    from pytableaux.lang import Argument
    from pytableaux.proof import Tableau
    logic = RS.registry()(f['logic'])
    t = Tableau(logic, Argument(f['argument']), **f['options']).build()
    prob = check_tree(t) if t.tree is not None else None
    return 1, ([prob] if prob else [])
