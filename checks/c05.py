"""C05 — branches close exactly when their literals are unsatisfiable."""
from __future__ import annotations
import itertools
import z3
from pyvc import source
from pyvc.interp import Interp, explore, Outside, PyExc, SymVal, Contract
from pyvc.smt import Obligation, Result, discharge
from pyvc.par import pmap
from checks import rulesem as RS
from contracts import rules as R
from contracts.rules import STerm, NodeVal, WorldTok, Atom
from contracts import model as M
from spec import semantics as S

def enum_ob(name, ok, where='', **meta):
    return Obligation(name, True if ok else False, kind='enum', where=where, meta=meta)

class BranchLits(SymVal):
    "a branch holding exactly the given literal nodes; find/has are by node properties (Branch.find contract)"
    def __init__(self, nodes): self.nodes = list(nodes); self.finds = []
    def _match(self, pattern):
        want = pattern.props if isinstance(pattern, NodeVal) else dict(pattern)
        for n in self.nodes:
            if all(n.props.get(str(getattr(k, 'value', k)), None if str(getattr(k, 'value', k)) in ('designated', 'world') else KeyError) == v for k, v in want.items()):
                return n
        return None
    def sym_getattr(self, it, name):
        if name == 'find':
            def find(it, pattern):
                self.finds.append(pattern)
                return self._match(pattern)
            return Contract(find, 'Branch.find')
        if name == 'has':
            return Contract(lambda it, pattern: self._match(pattern) is not None, 'Branch.has')
        raise Outside(f'Branch.{name}')
    def sym_truth(self, it): return True

def literal_bases(logic):
    "the kinds of sentence that are literals for the logic: atoms, predications, and the sentences the logic treats as opaque"
    out = ['atom', 'pred']
    if not logic.Meta.modal: out.append('opaque-modal')
    if not logic.Meta.quantified: out.append('opaque-quantified')
    return out

def base_sentence(base):
    from pytableaux.lang import Operator, Quantifier
    from contracts.rules import Param, Body
    if base == 'atom': return Atom('p')
    if base == 'pred':
        from checks.c01 import PredTerm
        return PredTerm('F', (Param('const', 'a'),))
    if base == 'opaque-modal': return STerm.Op(Operator.Necessity, Atom('q'))
    if base == 'opaque-quantified':
        x = Param('var', 'x')
        return STerm('quant', Quantifier.Universal, x, Body('phi', x))
    raise ValueError(base)

def literal_nodes(logic, base='atom'):
    from pytableaux.proof import common as C
    p = base_sentence(base)
    w = WorldTok('w') if logic.Meta.modal else None
    sem = S.spec_of(logic.Meta.name)
    out = []
    many = len(sem.values) > 2
    for neg in (False, True):
        s = p.neg() if neg else p
        for d in ((True, False) if many else (None,)):
            props = dict(sentence=s)
            if d is not None: props['designated'] = d
            if w is not None: props['world'] = w
            cls = C.Node.for_mapping({k: (1 if k == 'world' else (True if k == 'designated' else 'x')) for k in props}).__class__
            out.append((f"{'~' if neg else ''}p{'' if d is None else ('+' if d else '-')}", NodeVal(cls, props), neg, d))
    return out

def lit_sat(sem, neg, d, v):
    val = sem.Negation(v) if neg else v
    return (val == S.T) if d is None else ((val in sem.designated) == d)

def closes_relation(logic, lits, funcs):
    """Cl[(i, j)] = arriving literal i finds literal j already on the branch (some closure rule's hook returns a target)"""
    from pytableaux.proof import rules as PR
    world = R.make_world()
    rel = {}
    errors = []
    for rc in logic.Rules.closure:
        if not issubclass(rc, PR.FindClosingNodeRule): continue
        c, fn = None, None
        for k in rc.__mro__:
            if '_find_closing_node' in k.__dict__: c, fn = k, k.__dict__['_find_closing_node']; break
        fi = source.of_function(fn)
        funcs[fi.key] = dict(file=fi.relfile, qualname=fi.qualname, lines=f'{fi.lineno}-{fi.end_lineno}', sha1=fi.sha1)
        for i, (ni, nodei, _, _) in enumerate(lits):
            for j, (nj, nodej, _, _) in enumerate(lits):
                if i == j: continue
                def run(path, rc=rc, nodei=nodei, nodej=nodej):
                    it = Interp(path, world)
                    rm = ClosureRuleModel(rc, logic)
                    br = BranchLits([nodej])
                    return it.call_source(fi, fn, c, [rm, nodei, br], {}, recv=rm)
                try:
                    prs = explore(run)
                except Outside as e:
                    errors.append(f'{rc.__name__}: {e}'); continue
                for pr in prs:
                    if pr.kind == 'raise': errors.append(f'{rc.__name__} raises {pr.value.cls.__name__} on {ni}'); continue
                    if pr.kind == 'return' and pr.value is not None:
                        rel.setdefault((i, j), []).append(rc.__name__)
    return rel, errors

class ClosureRuleModel(R.RuleModel):
    def _sentence(self, it, node):
        # closure rules have no negated/operator attributes: Rule.sentence = node.get('sentence'),
        # BaseSentenceRule.sentence with an empty filter returns the sentence unaltered
        if getattr(self.rulecls, 'negated', None): return super()._sentence(it, node)
        return node.props.get('sentence')

def read_values(logic, lits, subset, funcs):
    """interpret BaseModel._read_node for every node of the subset on a branch holding the subset.
    -> (values per node name, error)"""
    world = M.model_world()
    cls = logic.Model
    fn = None
    for c in cls.__mro__:
        if '_read_node' in c.__dict__: fn, defc = c.__dict__['_read_node'], c; break
    fi = source.of_function(fn)
    nodes = [lits[i][1] for i in subset]
    out = {}
    def run(path):
        it = Interp(path, world)
        mo = M.ModelObj(logic)
        br = BranchLits(nodes)
        for n in nodes:
            it.call_source(fi, fn, defc, [mo, n, br], {}, recv=mo)
        return mo
    prs = explore(run)
    if len(prs) != 1: raise Outside('_read_node forks on literal input')
    pr = prs[0]
    if pr.kind == 'raise':
        return None, f'{pr.value.cls.__name__}', {}
    mo = pr.value
    for k, f in mo.inlined.items():
        funcs[k] = dict(file=f.relfile, qualname=f.qualname, lines=f'{f.lineno}-{f.end_lineno}', sha1=f.sha1)
    funcs[fi.key] = dict(file=fi.relfile, qualname=fi.qualname, lines=f'{fi.lineno}-{fi.end_lineno}', sha1=fi.sha1)
    vals = {k: v.name for k, v in mo.store.items()}
    return vals, None, mo.store

def work_logic(lname):
    logic = RS.registry()(lname)
    L = logic.Meta.name
    sem = S.spec_of(L)
    results, funcs = [], {}
    lits = literal_nodes(logic)
    def add(ob): results.append(discharge(ob))
    try:
        rel, errors = closes_relation(logic, lits, funcs)
    except Outside as e:
        results.append(Result(f'C05.{L}.closes-only-if-unsat', 'unknown', detail=f'outside subset: {e}'))
        return results, funcs
    if errors:
        results.append(Result(f'C05.{L}.closes-only-if-unsat', 'unknown', detail='; '.join(errors[:3])))
        return results, funcs
    names = [n for n, _, _, _ in lits]
    # (a) soundness of each detected pair
    bad = []
    for (i, j), rules_ in rel.items():
        sat = [S.NAME[v] for v in sem.values if lit_sat(sem, lits[i][2], lits[i][3], v) and lit_sat(sem, lits[j][2], lits[j][3], v)]
        if sat: bad.append(dict(arriving=names[i], present=names[j], rules=rules_, satisfied_by=sat))
    add(enum_ob(f'C05.{L}.closes-only-if-unsat', not bad, pairs=[(names[i], names[j]) for (i, j) in rel], cex=(bad[0] if bad else None), cex_all=bad or None, logic=L))
    # (c) arrival-order symmetry
    asym = [dict(arriving=names[i], present=names[j]) for (i, j) in rel if (j, i) not in rel]
    add(enum_ob(f'C05.{L}.symmetric', not asym, cex=(asym[0] if asym else None), cex_all=asym or None, logic=L))
    # (d) literals at different worlds never close against each other (they are independently satisfiable)
    if logic.Meta.modal:
        other = []
        for nm, nd, neg, d in lits:
            props = dict(nd.props); props['world'] = WorldTok('w2')
            other.append((nm + '@w2', NodeVal(nd.cls, props), neg, d))
        both = lits + other
        try:
            rel2, errors2 = closes_relation(logic, both, funcs)
        except Outside as e:
            rel2, errors2 = {}, [str(e)]
        if errors2:
            results.append(Result(f'C05.{L}.no-cross-world-closure', 'unknown', detail='; '.join(errors2[:3])))
        else:
            n0 = len(lits)
            cross = [dict(arriving=both[i][0], present=both[j][0], rules=r_) for (i, j), r_ in rel2.items() if (i < n0) != (j < n0)]
            add(enum_ob(f'C05.{L}.no-cross-world-closure', not cross, logic=L, cex=(cross[0] if cross else None), cex_all=cross or None))
    # (b) completeness + read value, for every subset
    n = len(lits)
    for mask in range(1, 1 << n):
        subset = [i for i in range(n) if mask >> i & 1]
        label = ','.join(names[i] for i in subset)
        closes = any((i, j) in rel for i in subset for j in subset if i != j)
        sats = [v for v in sem.values if all(lit_sat(sem, lits[i][2], lits[i][3], v) for i in subset)]
        if closes:
            continue
        add(enum_ob(f'C05.{L}.open-implies-sat.[{label}]', bool(sats), logic=L, literals=label,
                    cex=dict(literals=label, note='no closure rule fires on this set, yet no value satisfies it')))
        # the value the model builder reads
        try:
            vals, err, store = read_values(logic, lits, subset, funcs)
        except Outside as e:
            results.append(Result(f'C05.{L}.read-value.[{label}]', 'unknown', detail=f'outside subset: {e}')); continue
        if err is not None:
            add(enum_ob(f'C05.{L}.read-value.[{label}]', False, logic=L, literals=label, cex=dict(literals=label, raises=err)))
            continue
        vs = set(vals.values())
        ok = len(vs) == 1 and S.VAL.get(next(iter(vs))) in sats
        add(enum_ob(f'C05.{L}.read-value.[{label}]', ok, logic=L, literals=label, read=sorted(vs), satisfying=[S.NAME[v] for v in sats],
                    cex=dict(literals=label, read=sorted(vs), satisfying=[S.NAME[v] for v in sats])))
    # the other kinds of literal (predications, sentences opaque to the logic): same closure relation, and the model builder reads a satisfying value
    for base in literal_bases(logic):
        if base == 'atom': continue
        lits_b = literal_nodes(logic, base)
        nm = f'C05.{L}.literal-kind.{base}'
        try:
            rel_b, errors_b = closes_relation(logic, lits_b, funcs)
        except Outside as e:
            results.append(Result(nm + '.same-closure', 'unknown', detail=f'outside subset: {e}')); continue
        if errors_b:
            results.append(Result(nm + '.same-closure', 'unknown', detail='; '.join(errors_b[:3]))); continue
        diff = sorted(set(rel) ^ set(rel_b))
        add(enum_ob(nm + '.same-closure', not diff, logic=L, literals=base, sentence=repr(base_sentence(base)),
                    clause='the closure rules detect exactly the same pairs of literals whatever kind of literal the sentence is (atom, predication, opaque)',
                    cex=dict(kind=base, sentence=repr(base_sentence(base)), pairs_differing=[[names[i], names[j], 'detected for atoms only' if (i, j) in rel else 'detected for this kind only'] for i, j in diff][:4])))
        badv = []
        for mask in range(1, 1 << n):
            subset = [i for i in range(n) if mask >> i & 1]
            if any((i, j) in rel_b for i in subset for j in subset if i != j): continue
            sats = [v for v in sem.values if all(lit_sat(sem, lits_b[i][2], lits_b[i][3], v) for i in subset)]
            label = ','.join(names[i] for i in subset)
            try:
                vals, err, store = read_values(logic, lits_b, subset, funcs)
            except Outside as e:
                badv = None; results.append(Result(nm + '.read-value', 'unknown', detail=f'outside subset: {e}')); break
            if err is not None: badv.append(dict(literals=label, raises=err)); continue
            vs = set(vals.values())
            if not (len(vs) == 1 and S.VAL.get(next(iter(vs))) in sats): badv.append(dict(literals=label, read=sorted(vs), satisfying=[S.NAME[v] for v in sats]))
        if badv is not None:
            add(enum_ob(nm + '.read-value', not badv, logic=L, literals=base, cex=(badv[0] if badv else None), cex_all=badv[:8] or None,
                        clause='on every open set of literals of this kind the model builder reads one value that satisfies the set'))
    # classical family: self-identity / non-existence literals on the real rules (ground)
    if len(sem.values) == 2:
        results += classical_literals(logic, funcs)
        results += cross_world_obligations(logic)
    return results, funcs

def classical_cases():
    from pytableaux.lang import Predicate, Constant
    from bounded.args import distinct_equal
    a, b = Constant(0, 0), Constant(1, 0)
    I, E = Predicate.Identity, Predicate.Existence
    a2, b2 = distinct_equal(a), distinct_equal(b)        # equal to a / b but other objects (the item cache is bounded, not an interning table)
    return [('~a=a', lambda: [~I((a, a))], True), ('a=a', lambda: [I((a, a))], False), ('~a=b', lambda: [~I((a, b))], False), ('a=b', lambda: [I((a, b))], False),
             ('~!a', lambda: [~E((a,))], True), ('!a', lambda: [E((a,))], False), ('a=b,~a=b', lambda: [I((a, b)), ~I((a, b))], True),
             ('!a,~!b', lambda: [E((a,)), ~E((b,))], True),
             ("~a=a'", lambda: [~I((a, a2))], True), ("~a'=a", lambda: [~I((a2, a))], True), ("a=a'", lambda: [I((a, a2))], False),
             ("a=b,~a'=b'", lambda: [I((a, b)), distinct_equal(~I((a2, b2)))], True), ("~a'=b',a=b", lambda: [distinct_equal(~I((a2, b2))), I((a, b))], True),
             ("~!a'", lambda: [distinct_equal(~E((a2,)))], True)]

def run_classical_case(logic, label, mk, want):
    "-> (ok | None when the case cannot be built, fired rule, closed in the proof loop)"
    from pytableaux.proof import Tableau, swnode
    from bounded.args import roll_cache
    w = 0 if logic.Meta.modal else None
    if "'" in label: roll_cache()            # nothing equal is in the cache: the primed items stay distinct objects
    sents = mk()
    if label in ("~a=a'", "~a'=a", "a=a'"):
        s0 = sents[0]
        lhs, rhs = (s0.operands[0] if hasattr(s0, 'operands') and s0.operands else s0).params
        if lhs is rhs: return None, None, None
    tab = Tableau(logic)
    br = tab.branch()
    for s in sents: br.append(swnode(s, w))
    fired = None
    for rc in logic.Rules.closure:
        rule = tab.rules.get(rc.__name__)
        if rule.target(br): fired = rc.__name__; break
    # the same literals through the proof loop (the closure rules see the nodes through their AFTER_NODE_ADD listeners)
    tab2 = Tableau(logic); br2 = tab2.branch()
    for s in sents: br2.append(swnode(s, w))
    tab2.build()
    return (bool(fired) == want and br2.closed == want), fired, br2.closed

def cross_world_cases():
    "open literal sets of the classical modal family whose literals live at different worlds: the model builder must read off satisfying values"
    from pytableaux.lang import Predicate, Constant, Atomic
    m, n = Constant(0, 0), Constant(1, 0)
    I, E, F = Predicate.Identity, Predicate.Existence, Predicate(0, 0, 1)
    A = Atomic(0, 0)
    return [('m=n@0, Fm@1, ~Fn@1', [(I((m, n)), 0), (F(m), 1), (~F(n), 1)], [(0, 1)]),
            ('m=n@1, Fm@0, ~Fn@0', [(I((m, n)), 1), (F(m), 0), (~F(n), 0)], [(0, 1)]),
            ('Fm@0, ~Fm@1', [(F(m), 0), (~F(m), 1)], [(0, 1)]),
            ('A@0, ~A@1, m=n@1, Fn@1', [(A, 0), (~A, 1), (I((m, n)), 1), (F(n), 1)], [(0, 1)]),
            ('~m=n@0, m=n@1', [(~I((m, n)), 0), (I((m, n)), 1)], [(0, 1)])]

def run_cross_world(logic, label, lits, access):
    from pytableaux.proof import Tableau, swnode, anode
    from bounded import prover as P
    sem = S.spec_of(logic.Meta.name)
    t = Tableau(logic, is_build_models=True); b = t.branch()
    for s, w in lits: b.append(swnode(s, w))
    for w1, w2 in access: b.append(anode(w1, w2))
    try: t.build()
    except Exception as e: return f'build() raises {type(e).__name__}: {e}'
    if not t.open: return None                      # the rules closed it: nothing is claimed about a closed set here
    from spec.evaluate import datum_of_model
    for b in t.open:
        try:
            m = b.model
            if m is None:
                m = logic.Model(); m.read_branch(b)
                if not m.finished: m.finish()
            d = datum_of_model(m, sem)
        except Exception as e: return f'reading the model raises {type(e).__name__}: {e}'
        for nd in b:
            s_ = nd.get('sentence')
            if s_ is None: continue
            w = nd.get('world') or 0
            try: v = d.value(s_, w); rv = m.value_of(s_, world=w)
            except Exception as e: return f'evaluating {s_} at world {w} raises {type(e).__name__}: {e}'
            if v != S.T or rv.name != 'T': return f'the model read from the open branch gives {s_} at world {w} the value {S.NAME[v]} (its own evaluator: {rv.name})'
    return None

def cross_world_obligations(logic):
    L = logic.Meta.name
    out = []
    if not (logic.Meta.modal and len(S.spec_of(L).values) == 2): return out
    for label, lits, access in cross_world_cases():
        why = run_cross_world(logic, label, lits, access)
        out.append(discharge(enum_ob(f'C05.{L}.classical.cross-world.[{label}]', why is None, logic=L, literals=label, kind='cross-world', cex=dict(why=why) if why else None,
                                     clause='literals at different worlds of an open classical branch (identity at one world, predications at another): the model builder reads values that satisfy all of them')))
    return out

def classical_literals(logic, funcs):
    """F: drive the real closure rules on real one/two-node branches for identity/existence literals; primed constants are
    equal to the unprimed ones but other objects"""
    L = logic.Meta.name
    out = []
    for label, mk, want in classical_cases():
        ok, fired, closed = run_classical_case(logic, label, mk, want)
        if ok is None: out.append(Result(f'C05.{L}.classical.[{label}]', 'unknown', detail='could not build non-identical equal constants (item cache too large)')); continue
        out.append(discharge(enum_ob(f'C05.{L}.classical.[{label}]', ok, logic=L, literals=label, fired=fired, closed_by_build=closed, want_closed=want,
                                     cex=dict(literals=label, fired=fired, closed_by_build=closed, want_closed=want))))
    for rc in logic.Rules.closure:
        for nm in ('_branch_target_hook', 'node_will_close_branch'):
            for c in rc.__mro__:
                if nm in c.__dict__:
                    try:
                        fi = source.of_function(c.__dict__[nm]); funcs[fi.key] = dict(file=fi.relfile, qualname=fi.qualname, lines=f'{fi.lineno}-{fi.end_lineno}', sha1=fi.sha1)
                    except Exception: pass
                    break
    return out

def run(ctx):
    ctx.level = 'proof'
    ctx.exhaustive = True
    ctx.drop('type annotations', 'docstrings')
    ctx.trust(
              'Model.truth_function(oper, value) follows the spec table (C07)',
              'the frame dictionaries of the model are ghost maps; ModelValueError is raised by set_atomic_value/set_opaque_value exactly when a different value is already stored (interpreted from source)',
              'opaque literal base p stands for any atom / predication / opaque sentence (the closure hooks and _read_node only inspect negation, designation, world)',
              'classical identity/existence literals are decided by running the real closure rules on real nodes (enumerated cases, backend enum)',
              'spec/semantics.py (the oracle)')
    ctx.assume('CPython semantics of the interpreted subset as encoded by pyvc/interp.py')
    ctx.explanation = ('For every logic the closure hooks (_find_closing_node of DesignationClosure / GlutClosure / GapClosure / ContradictionClosure) are '
                       'interpreted from source on every ordered pair of literal nodes over one sentence; detected pairs must be unsatisfiable (spec), '
                       'detection must be arrival-order symmetric, every subset of literals on which no rule fires must be satisfiable, and '
                       'BaseModel._read_node (interpreted from source) must read one value satisfying the whole subset.  Finite, complete.')
    names = [RS.registry()(n).Meta.name for n in RS.registry()]
    for res, funcs in pmap(work_logic, names):
        for r in res: ctx.add_result(r)
        ctx.functions.update(funcs)
    struct_obligations(ctx)
    # closing target cached per branch as nodes arrive (BranchValueHook), offered by BaseClosureRule, applied by ClosingRule
    from checks import c10
    ctx.restate(c10.closing_apply_obligation, 'C10.', 'C05.hook.')
    ctx.samples = [dict(obligation=r.name, status=r.status, meta={k: v for k, v in r.meta.items() if k != 'cex'}) for r in ctx.results[:4]]
    ctx.replayers['C05.'] = lambda r: replay(dict(obligation=r.name, meta=r.meta, counterexample=r.cex))
    from checks import index_ob
    index_ob.register_replayers(ctx, 'C05.struct')

def struct_obligations(ctx):
    from checks import index_ob
    index_ob.index_obligations(ctx, 'C05.struct')

def replay(payload):
    """rebuild the literal set on a real branch of a real tableau, step the closure rules, read the model"""
    from pytableaux.logics import registry
    from pytableaux.proof import Tableau, sdwnode
    from pytableaux.lang import Atomic
    meta = payload.get('meta') or {}
    cex = payload.get('counterexample') or {}
    L = meta.get('logic')
    lits = cex.get('literals') or meta.get('literals')
    if not L: return dict(reproduced=None, detail='no logic in payload')
    if meta.get('kind') == 'cross-world':
        from pytableaux.logics import registry as _reg
        for label, lits_, access in cross_world_cases():
            if label == meta.get('literals'):
                why = run_cross_world(_reg(L), label, lits_, access)
                return dict(reproduced=bool(why), detail=why or 'the open branch has a model that satisfies it')
    if meta.get('literals') in ('pred', 'opaque-modal', 'opaque-quantified'):
        return replay_kind(L, meta['literals'])
    if not lits and 'arriving' in cex: lits = f"{cex['present']},{cex['arriving']}"
    if not lits: return dict(reproduced=None, detail='no literal set in payload')
    logic = registry(L)
    sem = S.spec_of(L)
    p = Atomic(0, 0)
    w = 0 if logic.Meta.modal else None
    tab = Tableau(logic); br = tab.branch()
    parsed = []
    for t in lits.split(','):
        if '=' in t or '!' in t:
            for label, mk, want in classical_cases():
                if label == lits:
                    ok, fired, closed = run_classical_case(logic, label, mk, want)
                    return dict(reproduced=(ok is False), detail=f"{L}: a branch holding exactly the literals {label} (primed constants are equal to the unprimed ones but other objects, as after the bounded item cache rolls over): closure rule fired={fired}, closed by Tableau.build()={closed}; unsatisfiable={want}")
            return dict(reproduced=None, detail='unknown classical case')
        neg = t.startswith('~'); d = {'+': True, '-': False}.get(t[-1])
        br.append(sdwnode(~p if neg else p, d, w)); parsed.append((neg, d))
    closed = any(tab.rules.get(rc.__name__).target(br) for rc in logic.Rules.closure)
    sats = [S.NAME[v] for v in sem.values if all(lit_sat(sem, n, d, v) for n, d in parsed)]
    read = None
    try:
        m = logic.Model(); m.read_branch(br); read = str(m.value_of(p, world=(w or 0)))
    except Exception as e:
        read = f'exception {type(e).__name__}'
    bad = (closed and bool(sats)) or (not closed and not sats) or (not closed and read not in sats)
    return dict(reproduced=bool(bad), detail=f'{L}: literals {lits}: real closure fires={closed}; satisfying values (spec)={sats}; model builder reads {read}')


def replay_kind(L, kind):
    "every set of literal nodes over one real sentence of the given kind, on a real branch: closure vs satisfiability vs the value read"
    from pytableaux.logics import registry
    from pytableaux.proof import Tableau, sdwnode
    from pytableaux.lang import Atomic, Operator, Quantifier, Predicate, Constant, Variable
    logic = registry(L); sem = S.spec_of(L)
    F = Predicate(0, 0, 1); x = Variable(0, 0)
    p = {'pred': F(Constant(0, 0)), 'opaque-modal': Operator.Necessity(Atomic(0, 0)), 'opaque-quantified': Quantifier.Universal(x, F(x))}[kind]
    w = 0 if logic.Meta.modal else None
    many = len(sem.values) > 2
    cands = [(neg, d) for neg in (False, True) for d in ((True, False) if many else (None,))]
    out = []
    for mask in range(1, 1 << len(cands)):
        sub = [cands[i] for i in range(len(cands)) if mask >> i & 1]
        tab = Tableau(logic); br = tab.branch()
        for neg, d in sub: br.append(sdwnode(~p if neg else p, d, w))
        closed = any(tab.rules.get(rc.__name__).target(br) for rc in logic.Rules.closure)
        sats = [S.NAME[v] for v in sem.values if all(lit_sat(sem, n, d, v) for n, d in sub)]
        label = ', '.join(('~' if n else '') + str(p) + ({True: ' [+]', False: ' [-]', None: ''}[d]) for n, d in sub)
        if closed and sats: out.append(f'{{{label}}} closes although the value(s) {sats} satisfy it')
        elif not closed and not sats: out.append(f'{{{label}}} stays open although no value satisfies it')
        elif not closed:
            try:
                m = logic.Model(); m.read_branch(br); read = str(m.value_of(p, world=(w or 0)))
            except Exception as e: read = f'exception {type(e).__name__}: {e}'
            if read not in sats: out.append(f'{{{label}}} is open; the model builder reads {read}, satisfying values are {sats}')
        if len(out) >= 3: break
    return dict(reproduced=bool(out), detail=f'{L}, literal {p} ({kind}): ' + ('; '.join(out) or 'closure, satisfiability and the value read agree on every set'))
