"""C02 — an 'invalid' verdict comes with a genuine countermodel.  Hypotheses of the paper lemma L-HINTIKKA."""
from __future__ import annotations
import random, itertools
import z3
from pyvc import source
from pyvc.interp import Interp, explore, Outside, PyExc, SymVal, Contract, GenList
from pyvc.smt import Obligation, Result, discharge
from pyvc.par import pmap
from checks import rulesem as RS, structs, selection
from contracts import rules as R
from contracts.rules import WorldTok, NodeVal, Atom
from spec import semantics as S

def enum_ob(name, ok, where='', **meta):
    return Obligation(name, True if ok else False, kind='enum', where=where, meta=meta)

JUSTIFIED = {'branch.has': True, 'branch.all': True, 'NodesWorlds.contains': True, 'WorldIndex.has': True}

def skip_reason(notes, modal=False):
    "why a path of a rule body produced no target: the decisive abstract query"
    qs = notes.get('queries', [])
    for q in qs:
        if q[0] == 'NodeCount.isleast' and q[2] is False: return 'NodeCount.isleast is False (fairness heuristic)', False
    for q in reversed(qs):
        if q[0] in JUSTIFIED and q[2] is JUSTIFIED[q[0]]:
            # "it is there already" justifies a skip only if the lookup is about the world the instance would be added at: a lookup that
            # gives a sentence but no world is answered by a node at ANY world (modal logics put a world on every sentence node)
            if modal and q[0] in ('branch.has', 'branch.all'):
                nodes_ = q[1] if isinstance(q[1], (tuple, list)) else (q[1],)
                for nd in nodes_:
                    pr = getattr(nd, 'props', nd if isinstance(nd, dict) else {})
                    if any(str(getattr(k, 'value', k)) == 'sentence' for k in pr) and not any(str(getattr(k, 'value', k)) == 'world' and v is not None for k, v in pr.items()):
                        return f'{q[0]} asked about a sentence without a world (a node at any world answers it)', False
            return f'{q[0]} (the instance is already on the branch / already applied)', True
    return 'no query explains the empty result', False

def work_logic(lname):
    logic = RS.registry()(lname)
    L = logic.Meta.name
    results, funcs = [], {}
    for rc in RS.rule_classes(logic):
        kind = RS.classify(rc)
        if kind in ('closure', 'access', 'predicate', 'other'): continue
        sc = RS.schema(logic, rc)
        for fi in sc.funcs: funcs[fi.key] = dict(file=fi.relfile, qualname=fi.qualname, lines=f'{fi.lineno}-{fi.end_lineno}', sha1=fi.sha1)
        name = f'C02.rule.{L}.{rc.__name__}.backward'
        where = sc.funcs[-1].where if sc.funcs else ''
        if sc.error:
            results.append(Result(name, 'unknown', detail=sc.error, where=where)); continue
        try:
            obs = RS.exactness(sc, f'C02.rule.{L}.{rc.__name__}', where)
        except Outside as e:
            results.append(Result(name, 'unknown', detail=f'outside subset: {e}', where=where)); continue
        for ob in obs:
            if ob.name.endswith('.backward'): results.append(discharge(ob))
        # saturation: every path of the body that offers nothing must be justified by presence
        bad = []
        for notes, targets in sc.paths:
            if targets: continue
            why, ok = skip_reason(notes, bool(logic.Meta.modal))
            if not ok: bad.append(why)
        if kind == 'modal' or any(not t for _, t in sc.paths):
            results.append(discharge(enum_ob(f'C02.saturation.{L}.{rc.__name__}.skips-justified', not bad, where=where, logic=L, rule=rc.__name__,
                                             clause='the rule body declines to offer an instance only when that instance is already on the branch (or was applied)',
                                             cex=dict(reasons=sorted(set(bad))))))
    # identity rule: every substitution instance is offered, in every iteration order of the PredNodes set
    from checks import c01
    results += [r for r in c01.identity_order_obligations(logic, funcs, 'C02') if r.name.endswith('.complete')]
    # quantifier fat rules: ExtendedQuantifierRule._get_node_targets
    results += fat_saturation(logic, funcs)
    results += serial_saturation(logic, funcs)
    results += access_saturation(logic, funcs)
    # model builder value on open literal sets (C05 generator)
    from checks import c05
    res5, f5 = c05.work_logic(lname)
    funcs.update(f5)
    for r5 in res5:
        tail = r5.name.split('.', 2)[2]
        if tail.startswith('read-value') or tail.startswith('open-implies-sat') or (tail.startswith('literal-kind.') and tail.endswith('.read-value')):
            r5.name = f'C02.literals.{L}.{tail}'
            results.append(r5)
    return results, funcs

class NodeConstsModel(SymVal):
    "self[NodeConsts][branch][node] -> the constants of the branch not yet applied to node (abstract: empty or not)"
    def __init__(self, unapplied): self.unapplied = unapplied
    def sym_getitem(self, it, k): return self if not isinstance(k, R.NodeVal) else self.unapplied

def fat_saturation(logic, funcs):
    from pytableaux.proof import rules as PR, helpers as H
    L = logic.Meta.name
    out = []
    fn = PR.ExtendedQuantifierRule.__dict__['_get_node_targets']
    fi = source.of_function(fn)
    for rc in RS.rule_classes(logic):
        if RS.classify(rc) != 'quant-fat': continue
        if source.defining_class(rc, '_get_node_targets') is not PR.ExtendedQuantifierRule:
            out.append(Result(f'C02.saturation.{L}.{rc.__name__}.all-constants-served', 'unknown', detail='overrides _get_node_targets')); continue
        funcs[fi.key] = dict(file=fi.relfile, qualname=fi.qualname, lines=f'{fi.lineno}-{fi.end_lineno}', sha1=fi.sha1)
        world = R.make_world()
        inner = RS.inner_sentence(rc, 'quant-fat')
        bad = []; served = 0
        from contracts.rules import Param
        for unapplied in ([], [Param('const', 'c')], [Param('const', 'c'), Param('const', 'd')]):
            def run(path):
                it = Interp(path, world)
                rm = R.RuleModel(rc, logic, helpers={H.NodeConsts: NodeConstsModel(GenList(unapplied)), H.AdzHelper: None, H.NodeCount: None})
                node, ns = RS._node_for(logic, rc, inner)
                br = BranchK(bool(unapplied))
                res = it.call_source(fi, fn, PR.ExtendedQuantifierRule, [rm, node, br], {}, recv=rm)
                return it.iterate(res), br
            try:
                prs = explore(run)
            except Outside as e:
                out.append(Result(f'C02.saturation.{L}.{rc.__name__}.all-constants-served', 'unknown', detail=f'outside subset: {e}', where=fi.where)); bad = None; break
            for pr in prs:
                if pr.kind != 'return': bad.append(f'exception on a path'); continue
                targets, br = pr.value
                got = [t['constant'] for t in targets]
                if unapplied:
                    if got != unapplied: bad.append(f'unapplied constants {unapplied} but targets for {got}')
                    else: served += 1
                else:
                    # no unapplied constant: either the branch has constants (all served) or the first constant is used unless its nodes are all present
                    if br.has_constants and got: bad.append('offers a target although every constant was applied')
                    if not br.has_constants and not got and br.all_answer is not True: bad.append('no constants on the branch and nothing offered')
        if bad is None: continue
        out.append(discharge(enum_ob(f'C02.saturation.{L}.{rc.__name__}.all-constants-served', not bad and served >= 2, where=fi.where, logic=L, rule=rc.__name__,
                                     clause='ExtendedQuantifierRule offers one target per constant not yet applied to the node; with no constant on the branch it uses the first constant unless its nodes are all there',
                                     cex=dict(bad=bad[:3]))))
    return out

class BranchK(R.BranchTok):
    def __init__(self, has_constants_hint):
        super().__init__(); self.has_constants = None; self.all_answer = None; self.hint = has_constants_hint
    def sym_getattr(self, it, name):
        if name == 'constants':
            b = self
            class _C(SymVal):
                def sym_truth(s, it):
                    if b.hint: b.has_constants = True; return True       # unapplied constants are constants of the branch
                    r = it.fork(it.fresh_bool('branch_has_constants')); b.has_constants = r; return r
            return _C()
        if name == 'all':
            def all_(it, nodes):
                it.iterate(nodes)
                r = it.fork(it.fresh_bool('all_present')); self.all_answer = r; return r
            return Contract(all_, 'Branch.all')
        return super().sym_getattr(it, name)

def access_saturation(logic, funcs):
    """AccessNodeRule._get_targets (the MaxWorlds guard) + the rule's _get_node_targets, interpreted from source: the rule
    declines to add an access pair only when that pair is already on the branch, or the world budget is EXCEEDED (the state in
    which the modal-operator rules write the quit flag; `reached` alone is not such a state)"""
    from pytableaux.proof import rules as PR, helpers as H, common as C
    L = logic.Meta.name
    out = []
    w, w2 = WorldTok('w'), WorldTok('w2')
    for rc in RS.rule_classes(logic):
        if not issubclass(rc, PR.AccessNodeRule): continue
        gt = None
        for c in rc.__mro__:
            if '_get_targets' in c.__dict__: gt, gtc = c.__dict__['_get_targets'], c; break
        gt = getattr(gt, '__wrapped__', gt)
        fi = source.of_function(gt)
        funcs[fi.key] = dict(file=fi.relfile, qualname=fi.qualname, lines=f'{fi.lineno}-{fi.end_lineno}', sha1=fi.sha1)
        for c in rc.__mro__:
            if '_get_node_targets' in c.__dict__:
                f2 = source.of_function(c.__dict__['_get_node_targets']); funcs[f2.key] = dict(file=f2.relfile, qualname=f2.qualname, lines=f'{f2.lineno}-{f2.end_lineno}', sha1=f2.sha1); break
        world = R.make_world()
        class MaxW(SymVal):
            def sym_getattr(s, it, name):
                if name in ('is_exceeded', 'is_reached'):
                    def q(it, br, name=name):
                        # exceeded implies reached; the two are otherwise independent facts about the branch
                        n = it.path.notes
                        if 'exceeded' not in n: n['exceeded'] = it.fork(it.fresh_bool('maxworlds_exceeded'))
                        if name == 'is_exceeded': return n['exceeded']
                        if 'reached' not in n: n['reached'] = True if n['exceeded'] else it.fork(it.fresh_bool('maxworlds_reached'))
                        return n['reached']
                    return Contract(q, f'MaxWorlds.{name}')
                raise Outside(f'MaxWorlds.{name}')
        class Filt(SymVal):
            def sym_getattr(s, it, name):
                if name == 'release':
                    def rel(it, node, br): it.path.notes.setdefault('released', []).append(node)
                    return Contract(rel, 'FilterHelper.release')
                raise Outside(f'FilterHelper.{name}')
        is_access = getattr(rc, 'NodeType', None) is C.AccessNode
        nodes = [NodeVal(C.AccessNode, dict(world1=w, world2=w2))] if is_access else [NodeVal(C.SentenceWorldNode, dict(sentence=Atom('p'), world=w)), NodeVal(C.AccessNode, dict(world1=w, world2=w2))]
        bad = []; offered = 0; und = None
        for node in nodes:
            def run(path, node=node):
                it = Interp(path, world)
                class AM(R.RuleModel):
                    INLINE = R.RuleModel.INLINE
                rm = AM(rc, logic, helpers={H.WorldIndex: R.WorldIndexModel(), H.MaxWorlds: MaxW(), H.FilterHelper: Filt()})
                br = R.BranchTok()
                return it.iterate(it.call_source(fi, gt, gtc, [rm, node, br], {}, recv=rm)), path
            try:
                prs = explore(run)
            except Outside as e:
                und = f'outside subset: {e}'; break
            for pr in prs:
                if pr.kind != 'return': bad.append(f'exception {pr.value}'); continue
                targets, path = pr.value
                qs = path.notes.get('queries', [])
                present = [q for q in qs if q[0] == 'WorldIndex.has' and q[2] is True]
                absent = [q for q in qs if q[0] == 'WorldIndex.has' and q[2] is False]
                added = 0
                for t in targets:
                    for g in t['adds']:
                        for nd in g:
                            if 'world1' in nd.props: added += 1
                offered += added
                if path.notes.get('exceeded'):
                    continue                                  # limit-affected branch
                # every pair the body found absent must be offered; with nothing asked (Transitive) a target must be offered
                need = len(absent) if (absent or present) else 1
                if added < need:
                    why = 'the world budget is reached but not exceeded (no quit flag is written in that state)' if path.notes.get('reached') else 'unexplained'
                    bad.append(f'{added} access node(s) offered where {need} pair(s) are missing: {why}')
        name = f'C02.saturation.{L}.{rc.__name__}.skips-justified'
        if und: out.append(Result(name, 'unknown', detail=und, where=fi.where)); continue
        out.append(discharge(enum_ob(name, not bad and offered >= 1, where=fi.where, logic=L, rule=rc.__name__,
                                     clause='an access rule declines to add a missing access pair only on a branch whose world budget is exceeded',
                                     cex=dict(reasons=sorted(set(bad))))))
    return out

def serial_saturation(logic, funcs):
    """access.Serial: _get_targets + the real _should_apply (inlined): a world without successor is offered a
    successor unless ... what?"""
    from pytableaux.proof import rules as PR, helpers as H
    L = logic.Meta.name
    out = []
    for rc in RS.rule_classes(logic):
        if not issubclass(rc, PR.access.Serial): continue
        fi = source.get('pytableaux/proof/rules.py', 'access.Serial._get_targets')
        fi2 = source.get('pytableaux/proof/rules.py', 'access.Serial._should_apply')
        for f in (fi, fi2): funcs[f.key] = dict(file=f.relfile, qualname=f.qualname, lines=f'{f.lineno}-{f.end_lineno}', sha1=f.sha1)
        world = R.make_world()
        reasons = []
        class HistModel(SymVal):
            def __init__(s, rm, br): s.rm, s.br = rm, br
            def _empty(s, it):
                n_ = it.path.notes
                if 'history_empty' not in n_: n_['history_empty'] = it.fork(it.fresh_bool('history_empty'))
                return n_['history_empty']
            def sym_len(s, it):
                if s._empty(it): return 0
                n = it.fresh_int('history_len'); it.assume(n >= 1); return n
            def sym_truth(s, it): return not s._empty(it)
            def _last(s, it):
                n_ = it.path.notes
                if 'last_entry' not in n_:
                    same = it.fork(it.fresh_bool('last_entry_is_serial_on_this_branch'))
                    n_['last_is_self'] = same
                    from checks.structs import Holder
                    n_['last_entry'] = Holder(rule=(s.rm if same else 'other-rule'), target=Holder(branch=(s.br if same else 'other-branch'), world=WorldTok('served'), world1=WorldTok('served'), world2=WorldTok('created')))
                return n_['last_entry']
            def sym_getitem(s, it, k):
                if s._empty(it): raise PyExc(IndexError, ('history is empty',))
                if k in (-1,): return s._last(it)
                raise Outside('history[k] for k other than -1')
            def sym_iter(s, it):
                # reversed(history): empty, or last entry is (this rule, this branch), or something else
                if s._empty(it): return []
                return [s._last(it)]
        class MaxW(SymVal):
            def sym_getattr(s, it, name):
                if name == 'is_exceeded':
                    def ex(it, br):
                        r = it.fork(it.fresh_bool('maxworlds_exceeded')); it.path.notes['maxworlds'] = r; return r
                    return Contract(ex, 'MaxWorlds.is_exceeded')
                raise Outside(name)
        class Unserial(SymVal):
            def sym_getitem(s, it, br): return GenList([WorldTok('w'), WorldTok('u')])      # two successor-less worlds
        class SerialModel(R.RuleModel):
            INLINE = R.RuleModel.INLINE + ('_should_apply', '_get_targets')
            def sym_getattr(s, it, nm):
                if nm == 'tableau':
                    from checks.structs import Holder
                    return Holder(history=HistModel(s, s.br))
                return super().sym_getattr(it, nm)
        def run(path):
            it = Interp(path, world)
            rm = SerialModel(rc, logic, helpers={H.UnserialWorlds: Unserial(), H.MaxWorlds: MaxW()})
            br = R.BranchTok(); rm.br = br
            res = it.call(rm.bound('_get_targets'), [br], {})
            return it.iterate(res), path
        try:
            prs = explore(run)
        except Outside as e:
            out.append(Result(f'C02.saturation.{L}.Serial.skips-justified', 'unknown', detail=f'outside subset: {e}', where=fi.where)); continue
        offered = 0
        for pr in prs:
            if pr.kind == 'cut': continue                 # infeasible continuation, not an execution
            if pr.kind != 'return': reasons.append(f'exception {getattr(pr.value, "cls", type(pr.value)).__name__}'); continue
            targets, path = pr.value
            if targets:
                offered += 1
                served = []
                for t in targets:
                    nds = [nd for g in t['adds'] for nd in g]
                    if len(nds) != 1 or repr(nds[0].props.get('world2')) != 'NEW' or repr(nds[0].props.get('world1')) not in ('w', 'u'):
                        reasons.append(f'a serial application adds {nds!r}: one access node from a successor-less world to branch.new_world() is expected (the fresh world is fresh for one use)')
                    else: served.append(repr(nds[0].props.get('world1')))
                if sorted(served) != ['u', 'w'] and not any('serial application' in r_ for r_ in reasons): reasons.append(f'the targets serve {served}, the successor-less worlds are w and u')
                continue
            if path.notes.get('maxworlds'): reasons.append('world limit reached (no flag node is added)')
            elif path.notes.get('last_is_self'):
                # declining right after its own application is justified only when no successor-less world carries a sentence
                # ... i.e. the branch was asked about every successor-less world (here: the one world w the helper lists) and holds no node at it
                qs = [q for q in path.notes.get('queries', []) if q[0] == 'branch.has' and isinstance(q[1], dict) and any(getattr(v, 'name', None) in ('w', 'u') for v in q[1].values())]
                if len({getattr(v, 'name', None) for q in qs for v in q[1].values()} & {'w', 'u'}) == 2 and all(q[2] is False for q in qs): reasons.append('world limit: n/a; no successor-less world carries a sentence (only the world this rule just created is unserved)')
                else: reasons.append('the last step was the serial rule on this branch (termination heuristic)')
            elif path.notes.get('maxworlds'): reasons.append('world limit reached (no flag node is added)')
            else: reasons.append('unexplained')
        bad = [r for r in reasons if 'world limit' not in r]       # justified declines carry the words 'world limit'
        out.append(discharge(enum_ob(f'C02.saturation.{L}.Serial.skips-justified', not bad and offered >= 1, where=fi2.where, logic=L, rule='Serial',
                                     clause='a world without successor is offered one unless the branch is limit-affected', cex=dict(reasons=sorted(set(bad))))))
    return out

# ------------------------------------------------------------------ bounded: models of open branches

def _model_chunk(job):
    lname, argstrs, seed = job
    from pytableaux.lang import Argument
    from bounded import prover as P
    logic = RS.registry()(lname)
    sem = S.spec_of(logic.Meta.name)
    out = []; n = 0; inv = 0
    for i, astr in enumerate(argstrs):
        arg = Argument(astr)
        opts = dict(is_build_models=True)
        o, tab = P.outcome(logic, arg, **opts)
        n += 1
        if o != 'invalid': continue
        inv += 1
        try:
            fails = P.branch_model_failures(logic, tab, sem)
        except Exception as e:
            fails = [('exception', type(e).__name__, str(e)[:80])]
        for f in fails[:1]:
            out.append(dict(logic=logic.Meta.name, argument=astr, failure=list(f)))
    return n, inv, out

def attribute(f, logic):
    "name the obligation a bounded failure witnesses"
    L = f['logic']
    kind = f['failure'][0]
    sem = S.spec_of(L)
    if kind == 'evaluator': return f'C02.evaluator.{L}'
    if kind == 'node':
        desc = f['failure'][1]
        # find the rule that owns the node shape
        from pytableaux.lang import Parser
        return f'C02.saturation.{L}.unserved-node'
    if kind == 'access': return f'C02.saturation.{L}.access'
    return f'C02.model.{L}.{kind}'

def bounded_models(ctx):
    from bounded import args as A
    rnd = random.Random(ctx.seed + 2)
    per = 150 if ctx.thorough else 30
    jobs = []
    for n in RS.registry():
        lg = RS.registry()(n)
        kinds = ['prop']
        if lg.Meta.modal: kinds.append('modal')
        if lg.Meta.quantified: kinds.append('fo')
        if lg.Meta.modal and lg.Meta.quantified: kinds.append('fomodal')
        sample = [A.random_argument(rnd, kinds[i % len(kinds)], depth=3, max_premises=2).argstr() for i in range(per)]
        jobs.append((lg.Meta.name, sample, ctx.seed))
    total = inv = 0; fails = []
    for n, i, out in pmap(_model_chunk, jobs):
        total += n; inv += i; fails += out
    ctx.bounded_part(evaluations=total, distinct_nontrivial=inv,
                     rule='seeded random propositional/modal/first-order arguments x 57 logics with is_build_models; for every invalid verdict each limit-free open branch\'s own model is read into plain data and every node of the branch is re-evaluated by the independent evaluator, compared with the real evaluator, and checked to be a countermodel; non-trivial = runs ending invalid',
                     bound=f'{per} arguments per logic, depth <= 3; harness caps 1500 steps / 1.5 s', samples=[dict(logic=j[0], argument=j[1][1]) for j in jobs[:3]] + fails[:3], label='open-branch models')
    for f in fails:
        name = attribute(f, None)
        ctx.bounded_failure(name, f"open branch model fails: {f['failure']} for {f['argument']}", f, instance=f['argument'])

def run(ctx):
    ctx.level = 'other'
    ctx.drop('type annotations', 'docstrings')
    ctx.trust('paper lemma L-HINTIKKA (DESIGN.md §4): backward exactness of every rule + model-builder value on open literal sets + compositional evaluator (C08) + saturation imply that the model read from a limit-free open branch satisfies every node on it',
              'helper state contracts used by the saturation obligations (NodeConsts, NodesWorlds, WorldIndex, FilterNodeCache) are obligations C02.helpers.*: their listener bodies are interpreted from source on finite scenario sets; what stays trusted is that EventEmitter dispatches each event to each registered listener once',
              'a branch on which MaxWorlds/MaxConsts is exceeded is treated as limit-affected even when the access rules add no flag node', 'spec/semantics.py (the oracle)')
    ctx.assume('quantifier/modal backward exactness uses the value-set abstraction (see C04)', 'CPython semantics of the interpreted subset as encoded by pyvc/interp.py')
    ctx.explanation = ('Hypotheses of L-HINTIKKA as obligations on the real code, per logic: backward exactness of every operator/quantifier/modal rule; for every rule body, '
                       'each path that offers nothing must be justified by a query showing the instance is already on the branch (saturation); ExtendedQuantifierRule serves '
                       'every unapplied constant; access.Serial with the real _should_apply inlined; BaseModel._read_node on every open literal set (C05 generator); '
                       'Rule.target and Tableau.next are choice-only (interpreted for both option values).  Bounded: models of open branches re-evaluated independently.')
    names = [RS.registry()(n).Meta.name for n in RS.registry()]
    for res, funcs in pmap(work_logic, names):
        for r in res: ctx.add_result(r)
        ctx.functions.update(funcs)
    structs.adz_apply_obligations(ctx, 'C02')
    # premise: instantiation (Quantified.unquantify / substitute) replaces exactly the occurrences of the bound variable (C15)
    from checks import c15 as _c15
    ctx.restate(_c15.run, 'C15.', 'C02.subst.', keep=lambda n: 'substitute' in n or 'unquantify' in n or 'rshift' in n)
    # premise: branch.has / find (the rule bodies' 'is it there already?' and the closure lookups) find every meeting node
    from checks import index_ob
    index_ob.index_obligations(ctx, 'C02.index')
    index_ob.register_replayers(ctx, 'C02.index')
    limit_flag_obligations(ctx, 'C02')
    selection.rule_target_obligations(ctx, 'C02')
    selection.next_obligations(ctx, 'C02')
    from checks import helpers_ob
    helpers_ob.helper_obligations(ctx, 'C02')
    # ... and the dispatch that runs those listeners (tools/events.py)
    from checks import events_ob
    events_ob.events_obligations(ctx, 'C02'); events_ob.register_replayers(ctx, 'C02')
    bounded_models(ctx)
    def _rid(r):
        from checks import c09
        return c09.replay_identity_order(r)
    ctx.replayers['C02.identity.'] = _rid
    ctx.replayers['C02.saturation.'] = replay_saturation
    ctx.replayers['C02.limit-flag.'] = replay_limit_flag
    ctx.replayers['C02.'] = lambda r: dict(reproduced=None, detail='see counterexample / meta')

def replay(payload):
    if payload.get('kind') == 'bounded':
        from pytableaux.lang import Argument
        from bounded import prover as P
        f = payload['input']
        logic = RS.registry()(f['logic']); sem = S.spec_of(f['logic'])
        arg = Argument(f['argument'])
        o, tab = P.outcome(logic, arg, is_build_models=True)
        fails = P.branch_model_failures(logic, tab, sem) if o == 'invalid' else []
        return dict(reproduced=bool(fails), detail=f"{f['logic']} {f['argument']}: outcome {o}; failures {fails[:2]}")
    return dict(reproduced=None, detail='see counterexample / meta')


def modal_family():
    "small structured modal arguments (Polish, conclusion:premises) that make the prover create worlds up to its budget"
    prem = ['Lb', 'LMa', 'Mc', 'MLa', 'LLb', 'LCab', 'MMc', 'LMMa']
    concl = ['b', 'Lb', 'Ma', 'LLb', 'MLa']
    import itertools as _it
    for k in (1, 2, 3):
        for ps in _it.combinations(prem, k):
            for c in concl:
                yield c + ':' + ':'.join(ps)

def limit_flag_obligations(ctx, prefix='C02'):
    """the limit flags: a quantifier / modal rule that stops because the constant or world budget of the branch is exceeded releases the
    node and marks THAT branch with a quit-flag node unless that same branch already carries one (so every truncated branch is
    recognisable as limit-affected); with the budget not exceeded the rule body is asked.  NarrowQuantifierRule._get_targets and
    the modal rules' _check_maxworlds, interpreted from source over branch tokens that know their origin."""
    from pytableaux.proof import rules as PR, helpers as H, common as C
    world = R.make_world()
    class Br(SymVal):
        def __init__(s, name, origin=None): s.name = name; s.origin = origin or s
        def __repr__(s): return s.name
        def sym_getattr(s, it, n):
            if n == 'origin': return s.origin
            raise Outside(f'Branch.{n}')
        def sym_is(s, it, o): return s is o
        def sym_truth(s, it): return True
    def scenario(fi, fn, defcls, kind):
        bad = []; cases = 0
        for exceeded in (True, False):
            for flagged_here in (True, False):
                for flagged_origin in (True, False):
                    cases += 1
                    trunk = Br('trunk'); br = Br('branch', origin=trunk)
                    released = []; flags = []; asked = []
                    class Limit(SymVal):
                        def sym_getattr(s, it, n):
                            if n == 'is_exceeded': return Contract(lambda it, b, *a: (asked.append(b), exceeded)[1], 'limit.is_exceeded')
                            if n == 'quit_flag':
                                def qf(it, b): flags.append(b); return NodeVal(C.QuitFlagNode, dict(flag='quit', is_flag=True))
                                return Contract(qf, 'limit.quit_flag')
                            raise Outside(f'limit.{n}')
                    class QF(SymVal):
                        def sym_getattr(s, it, n):
                            if n == 'get':
                                return Contract(lambda it, b, d=None: ({id(br): flagged_here, id(trunk): flagged_origin}.get(id(b), False) or None), 'QuitFlag.get')
                            raise Outside(f'QuitFlag.{n}')
                        def sym_getitem(s, it, b): return {id(br): flagged_here, id(trunk): flagged_origin}.get(id(b), False) or None
                    class Filt(SymVal):
                        def sym_getattr(s, it, n):
                            if n == 'release': return Contract(lambda it, nd, b: released.append((nd, b)), 'FilterHelper.release')
                            raise Outside(f'FilterHelper.{n}')
                    body = [LocalTarget('from-the-rule-body')]
                    class RM(SymVal):
                        def sym_getitem(s, it, h):
                            if h in (H.MaxConsts, H.MaxWorlds): return Limit()
                            if h is H.QuitFlag: return QF()
                            if h is H.FilterHelper: return Filt()
                            raise Outside(f'helper {h}')
                        def sym_getattr(s, it, n):
                            if n == '_get_node_targets': return Contract(lambda it, nd, b: GenList(list(body)), '_get_node_targets')
                            raise Outside(f'rule.{n}')
                        def sym_truth(s, it): return True
                    node = NodeVal(C.SentenceWorldNode, dict(sentence=Atom('p'), world=WorldTok('w')))
                    it = Interp(__import__('pyvc.interp', fromlist=['Path']).Path([]), world)
                    r = it.call_source(fi, fn, defcls, [RM(), node, br], {})
                    if kind == 'targets':
                        out = it.iterate(r)
                        flag_targets = [t for t in out if not isinstance(t, LocalTarget)]
                    else:
                        out = r; flag_targets = [r] if isinstance(r, dict) or hasattr(r, 'sym_getitem') and r not in (True, False) else []
                    tag = f'exceeded={exceeded} flag on this branch={flagged_here} flag on its origin={flagged_origin}'
                    if asked and any(b is not br for b in asked): bad.append(f'{tag}: the budget of {asked} is asked, not of the branch')
                    if not exceeded:
                        ok = (out == body) if kind == 'targets' else (out is False)
                        if not ok or released or flags: bad.append(f'{tag}: budget not exceeded but the rule body is not what is offered ({out!r})')
                        continue
                    if released != [(node, br)]: bad.append(f'{tag}: released {released!r}')
                    if flagged_here:
                        if flags or flag_targets: bad.append(f'{tag}: a second quit flag is offered')
                    else:
                        if flags != [br] or len(flag_targets) != 1: bad.append(f'{tag}: the truncated branch gets no quit flag of its own ({len(flag_targets)} flag targets, quit_flag called for {flags!r})')
        return bad, cases
    class LocalTarget:
        def __init__(s, n): s.n = n
        def __repr__(s): return s.n
    for qual, cls, name, kind in (('NarrowQuantifierRule._get_targets', PR.NarrowQuantifierRule, '_get_targets', 'targets'),
                                  ('_check_maxworlds', None, '_check_maxworlds', 'check')):
        if cls is None:
            cls = next((c for c in vars(PR).values() if isinstance(c, type) and '_check_maxworlds' in c.__dict__), None)
            if cls is None: ctx.add_result(Result(f'{prefix}.limit-flag._check_maxworlds', 'unknown', detail='no class defines _check_maxworlds')); continue
        fn = cls.__dict__[name]; fn = getattr(fn, '__wrapped__', fn)
        fi = source.of_function(fn); where = ctx.under_contract(fi)
        oname = f'{prefix}.limit-flag.{cls.__name__}.{name}'
        try:
            bad, cases = scenario(fi, fn, cls, kind)
            ctx.add(enum_ob(oname, not bad, where=where, cases=cases, cex=dict(bad=bad[:4]) if bad else None,
                            clause='budget exceeded: the node is released and the branch itself gets one quit flag unless it already carries one; budget not exceeded: the rule body decides; the budget asked about is the branch\'s'))
        except Outside as e:
            ctx.add_result(Result(oname, 'unknown', detail=f'outside subset: {e}', where=where))

def replay_limit_flag(r):
    "a split before two quantifier chains: every open branch that stopped on the constant budget carries a quit flag"
    from pytableaux.proof import Tableau
    from pytableaux.lang import Argument
    out = []
    for L in ('CFOL', 'FDE', 'K3', 'K'):
        try:
            t = Tableau(L, Argument('b:AAVxSyFxyVxSyGxya'), max_steps=600).build()
        except Exception as e: out.append(f'{L}: {type(e).__name__}: {e}'); continue
        for b in t.open:
            flagged = any(nd.get('is_flag') and nd.get('flag') == 'quit' for nd in b)
            pending = [nd for nd in b if nd.get('sentence') is not None and not b.is_ticked(nd) and type(nd['sentence']).__name__ == 'Quantified']
            consts = len(b.constants)
            if not flagged and consts >= 4 and pending and len(b) > 12: out.append(f'{L}: open branch {b.id} holds {consts} constants and unticked quantified nodes but no quit flag')
    return dict(reproduced=bool(out), detail='; '.join(out[:3]) or 'every truncated open branch carries a quit flag')

def nested_family():
    "arguments whose worlds are created in several rounds (a possibility under a necessity under a possibility ...)"
    return ['c:Ma:MLMLb', 'Lb:MLLAaa', 'c:Ma:AMLMLbMLMLb', 'c:MLMLb', 'c:Ma:Mb:MLMLb', 'Lb:MLMLAaa', 'c:MLMLMLb', 'Lc:Ma:MLLb']

def replay_saturation(r):
    "search the structured modal family for a limit-free open branch of the real prover whose own model fails a node of the branch"
    from pytableaux.lang import Argument
    from bounded import prover as P
    L = r.meta.get('logic')
    if not L: return dict(reproduced=None, detail='no logic in the obligation meta')
    logic = RS.registry()(L)
    if not logic.Meta.modal: return dict(reproduced=None, detail='see counterexample / meta')
    sem = S.spec_of(L)
    n = 0
    for astr in itertools.chain(nested_family(), modal_family()):
        n += 1
        o, tab = P.outcome(logic, Argument(astr), is_build_models=True)
        if o != 'invalid': continue
        try: fails = P.branch_model_failures(logic, tab, sem)
        except Exception as e: fails = [('exception', type(e).__name__)]
        fails = [f for f in fails if f[0] != 'evaluator']
        if fails:
            return dict(reproduced=True, detail=f'{L} {astr}: completed with a limit-free open branch whose own model fails {list(fails[0])}', argument=astr)
    return dict(reproduced=False, detail=f'no failing open branch among {n} structured modal arguments in {L}')
