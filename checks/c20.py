"""C20 — the published description of a model says what the model evaluates."""
from __future__ import annotations
import itertools, random
from pyvc import source
from pyvc.interp import Interp, explore, Outside, PyExc, SymVal, Contract, GenList
from pyvc.world import World
from pyvc.smt import Obligation, Result, discharge
from pyvc.par import pmap
from contracts.model import ValName
from checks.structs import Holder, Tok
from spec import semantics as S

def enum_ob(name, ok, where='', **meta):
    return Obligation(name, True if ok else False, kind='enum', where=where, meta=meta)

class ValuesGet(SymVal):
    def __init__(self, names): self.names = names
    def sym_getattr(self, it, name):
        if name == 'get': return Contract(lambda it, k, d=None: ValName(k) if k in self.names else d, 'values.get')
        if name in self.names: return ValName(name)          # enum member access: values.T
        if name in ('F', 'N', 'B', 'T'): raise PyExc(AttributeError, (name,))
        raise Outside(name)
    def sym_getitem(self, it, k):
        n = k.name if isinstance(k, ValName) else k
        if n in self.names: return ValName(n)
        raise PyExc(KeyError, (n,))

def export_world():
    w = World()
    from pyvc.interp import LocalSet
    w.builtin_models[set] = lambda it, xs=(): LocalSet(it.iterate(xs))
    w.builtin_models[frozenset] = lambda it, xs=(): LocalSet(it.iterate(xs))
    w.sym_set_display = lambda it, items: LocalSet(items)          # {x for ...} / {x, y} over value tokens: a set the code owns
    w.builtin_models[str] = lambda it, x='': x if isinstance(x, str) else str(x)
    def hook(it, what, args):
        if what == ('contains',):
            cont, x = args
            if isinstance(x, ValName) and isinstance(cont, (set, frozenset, tuple, list)): return any(x == i for i in cont)
        return NotImplemented
    w.attr_hooks.append(hook)
    return w

class ModelM(SymVal):
    """the model of a predicate interpretation: its value set and Meta; any other function the real model class defines (a helper
    introduced for the export) is interpreted from source, with class-level state shared across the scenarios as it is across models"""
    CLASS_STATE = {}
    def __init__(s, vnames): s.vnames = vnames
    def sym_truth(s, it): return True
    def sym_getattr(s, it, name):
        from pytableaux.models import BaseModel
        import types as _t
        if name == 'values': return ValuesGet(s.vnames)
        if name == 'Meta': return Holder(many_valued=len(s.vnames) > 2)
        v_ = BaseModel.__dict__.get(name)
        if isinstance(v_, (classmethod, staticmethod)): v_ = v_.__func__
        if isinstance(v_, _t.FunctionType):
            from pyvc.interp import BoundSource
            return BoundSource(source.of_function(v_), v_, BaseModel, s)
        if isinstance(v_, dict):           # a class-level dict: one object for every model of every logic
            return ModelM.CLASS_STATE.setdefault(name, ClassDict())
        raise Outside(f'Model.{name}')

class ClassDict(SymVal):
    def __init__(s): s.d = {}
    def k(s, key): return repr(key)
    def sym_getitem(s, it, key):
        if s.k(key) in s.d: return s.d[s.k(key)]
        raise PyExc(KeyError, (key,))
    def sym_setitem(s, it, key, v): s.d[s.k(key)] = v
    def sym_contains(s, it, key): return s.k(key) in s.d
    def sym_getattr(s, it, name):
        if name == 'get': return Contract(lambda it, key, d=None: s.d.get(s.k(key), d), 'dict.get')
        if name == 'setdefault': return Contract(lambda it, key, d=None: s.d.setdefault(s.k(key), d), 'dict.setdefault')
        raise Outside(f'dict.{name}')

def having_obligations(ctx):
    "PredicateInterpretation.having and Frame._get_predicate_data_values, interpreted on every small interpretation"
    from pytableaux.models import PredicateInterpretation, BaseModel
    from checks import rulesem as RS
    fn = PredicateInterpretation.__dict__['having']; fi = source.of_function(fn); where = ctx.under_contract(fi)
    fn2 = BaseModel.Frame.__dict__['_get_predicate_data_values']; fi2 = source.of_function(fn2); where2 = ctx.under_contract(fi2)
    fn3 = BaseModel.Frame.__dict__['_get_predicate_data_part']; ctx.under_contract(source.of_function(fn3))
    world = export_world()
    world.builtin_models[sorted] = lambda it, xs, **kw: sorted(it.iterate(xs), key=lambda t: t.name)
    bad = []; bad2 = []; n = 0
    for vnames in (['F', 'T'], ['F', 'N', 'T'], ['F', 'B', 'T'], ['F', 'N', 'B', 'T']):
        tuples = [Tok('t0'), Tok('t1'), Tok('t2')]
        for assign in itertools.product(vnames, repeat=3):
            items = [(t, ValName(v)) for t, v in zip(tuples, assign)]
            class InterpM(SymVal):
                def sym_getattr(s, it, name):
                    if name == 'model': return ModelM(vnames)
                    if name == 'items': return Contract(lambda it: GenList(items), 'Mapping.items')
                    import types as _t
                    v_ = PredicateInterpretation.__dict__.get(name)
                    if isinstance(v_, _t.FunctionType):          # having, and any helper the class defines for itself: interpreted from source
                        from pyvc.interp import BoundSource
                        f_ = source.of_function(v_); ctx.under_contract(f_)
                        return BoundSource(f_, v_, PredicateInterpretation, s)
                    raise Outside(name)
            for req, want_set in ((('T', 'B'), {'T', 'B'}), (('B', 'F'), {'B', 'F'})):
                n += 1
                try:
                    prs = explore(lambda path: Interp(path, world).call_source(fi, fn, PredicateInterpretation, [InterpM(), *req], {}))
                except Outside as e:
                    ctx.add_result(Result('C20.having.exact', 'unknown', detail=f'outside subset: {e}', where=where)); return
                got = [t.name for t in (prs[0].value or [])] if prs[0].kind == 'return' else None
                want = [t.name for t, v in items if v.name in want_set]
                if got != want: bad.append(dict(values=vnames, assignment=assign, requested=req, got=got, want=want))
            # Frame._get_predicate_data_values: P+ always, P- only for many-valued logics
            class FrameM(SymVal):
                def sym_getattr(s, it, name):
                    if name == 'predicates': return {'P': InterpM()}
                    if name == 'model': return ModelM(vnames)
                    if name == '_get_predicate_data_part':
                        from pyvc.interp import BoundSource
                        return BoundSource(source.of_function(fn3), fn3, BaseModel.Frame, s)
                    from pyvc.interp import private_helper
                    ok_, v_ = private_helper(it, BaseModel.Frame, name, s)
                    if ok_: return v_
                    raise Outside(name)
            try:
                prs = explore(lambda path: (lambda it: it.iterate(it.call_source(fi2, fn2, BaseModel.Frame, [FrameM(), 'P'], {})))(Interp(path, world)))
            except Outside as e:
                ctx.add_result(Result('C20.predicate-data.exact', 'unknown', detail=f'outside subset: {e}', where=where2)); return
            parts = prs[0].value if prs[0].kind == 'return' else None
            wantp = sorted(t.name for t, v in items if v.name in ('T', 'B'))
            wantm = sorted(t.name for t, v in items if v.name in ('B', 'F'))
            ok = parts is not None and len(parts) == (2 if len(vnames) > 2 else 1)
            if ok:
                ext = [t.name for t in parts[0]['values'][0]['output']]
                ok = ext == wantp and parts[0]['symbol'] == ('P+' if len(vnames) > 2 else 'P')
                if ok and len(vnames) > 2:
                    ok = [t.name for t in parts[1]['values'][0]['output']] == wantm and parts[1]['symbol'] == 'P-'
            if not ok: bad2.append(dict(values=vnames, assignment=assign))
    ctx.add(enum_ob('C20.having.exact', not bad, where=where, cases=n, clause='having(T,B) / having(B,F) yield exactly the stored tuples whose value is one of the requested values that exist in the logic', cex=dict(bad=bad[:3])))
    ctx.add(enum_ob('C20.predicate-data.exact', not bad2, where=where2, clause='a stored tuple is listed in P+ iff its value is T or B and, in many-valued logics, in P- iff its value is B or F; outputs sorted', cex=dict(bad=bad2[:3])))

def flat_obligation(ctx):
    from pytableaux.models import BaseModel
    fn = BaseModel.Access.__dict__['flat']; fi = source.of_function(fn); where = ctx.under_contract(fi)
    world = World()
    bad = []
    worlds = [0, 1, 2]
    pairs = [(a, b) for a in worlds for b in worlds]
    class AccM(SymVal):
        def __init__(s, rel): s.rel = rel
        # the successors of a world are a set: its iteration order is unspecified, so the model hands them out in DESCENDING order
        # (small ints happen to iterate in ascending order in CPython, which would hide a missing sort)
        def sym_getitem(s, it, w): return sorted({b for a, b in s.rel if a == w}, reverse=True)
        def sym_iter(s, it): return sorted({a for a, b in s.rel} | {0}, reverse=True)
    for k in range(0, 5):
        for rel in itertools.combinations(pairs, k):
            prs = explore(lambda path: (lambda it: it.iterate(it.call_source(fi, fn, BaseModel.Access, [AccM(rel)], dict(w1s=worlds, sort=True))))(Interp(path, world)))
            got = prs[0].value if prs[0].kind == 'return' else None
            if got != sorted(rel): bad.append(dict(rel=list(rel), got=got))
    ctx.add(enum_ob('C20.Access.flat.sorted-pairs', not bad, where=where, clause='flat(w1s=sorted worlds, sort=True) lists exactly the access pairs, sorted (all relations of <= 4 pairs over 3 worlds, interpreted from source)', cex=dict(bad=bad[:3])))

def replay_flat(r):
    "real models whose successor sets iterate out of numeric order (worlds that collide modulo the set's table size)"
    from pytableaux.logics import registry
    out = []
    for pairs in ([(0, 1), (0, 9)], [(0, 9), (0, 1)], [(0, 8), (0, 16), (0, 1)], [(7, 8), (7, 7), (0, 7)]):
        m = registry('K').Model()
        for p in pairs: m.R.add(p)
        m.finish()
        got = [tuple(p) for p in m.get_data()['Access']['values']]
        if got != sorted(got): out.append(f'pairs entered as {pairs}: exported {got}')
    return dict(reproduced=bool(out), detail='; '.join(out[:3]) or 'exported access pairs are sorted')

def _export_chunk(job):
    lname, seed, count = job
    from checks import rulesem as RS
    from pytableaux.lang import Atomic, Predicate, Constant
    from bounded import args as A, prover as P
    logic = RS.registry()(lname); L = logic.Meta.name
    sem = S.spec_of(L)
    rnd = random.Random(seed)
    n = 0; bad = []
    def check_model(m, origin):
        nonlocal n
        d1 = m.get_data(); d2 = m.get_data()
        if repr(d1) != repr(d2): bad.append(dict(logic=L, kind='nondeterministic', origin=origin))
        frames = [(0, d1)] if not logic.Meta.modal else list(zip(d1['Worlds']['values'], [f['value'] for f in d1['Frames']['values']]))
        if logic.Meta.modal:
            if d1['Worlds']['values'] != sorted(set(m.frames) | set(m.R)): bad.append(dict(logic=L, kind='worlds', origin=origin, exported=d1['Worlds']['values'], frames=sorted(m.frames), R=sorted(m.R)))
            pairs = sorted((a, b) for a in m.R for b in m.R[a])
            if [tuple(p) for p in d1['Access']['values']] != pairs: bad.append(dict(logic=L, kind='access', origin=origin, exported=d1['Access']['values'], R=pairs))
        consts = sorted(m.constants)
        for w, fd in frames:
            n += 1
            for key, store in (('Atomics', m.frames[w].atomics), ('Opaques', m.frames[w].opaques)):
                listed = [(e['input'], e['output']) for e in fd[key]['values']]
                if [s for s, _ in listed] != sorted(store): bad.append(dict(logic=L, kind='sentences-unsorted-or-missing', origin=origin, world=w)); continue
                for s, v in listed:
                    try: rv = m.value_of(s, world=w)
                    except Exception as e: rv = repr(e)
                    if rv != v: bad.append(dict(logic=L, kind='sentence-value', origin=origin, world=w, sentence=str(s), exported=str(v), evaluates=str(rv)))
            ext = {}; anti = {}
            for e in fd['Predicates']['values']:
                sym = e['symbol']; pred = e['values'][0]['input']; out = e['values'][0]['output']
                if list(out) != sorted(out): bad.append(dict(logic=L, kind='extension-unsorted', origin=origin))
                (anti if sym.endswith('-') else ext)[pred] = set(out)
            for pred in m.frames[w].predicates:
                if pred not in ext: bad.append(dict(logic=L, kind='predicate-missing', origin=origin, predicate=str(pred))); continue
                for tup in itertools.product(consts, repeat=pred.arity):
                    if len(consts) ** pred.arity > 64: break
                    try: v = m.value_of(pred(tup), world=w).name
                    except Exception: continue
                    if (tup in ext[pred]) != (v in ('T', 'B')):
                        bad.append(dict(logic=L, kind='extension', origin=origin, world=w, predication=str(pred(tup)), evaluates=v, in_extension=tup in ext[pred]))
                    if len(sem.values) > 2 and (tup in anti.get(pred, set())) != (v in ('F', 'B')):
                        bad.append(dict(logic=L, kind=('anti-extension' if tup in m.frames[w].predicates[pred] else 'anti-extension-unmentioned-tuple'), origin=origin, world=w, predication=str(pred(tup)), evaluates=v, in_anti_extension=tup in anti.get(pred, set())))
    # models read from open branches
    kinds = ['prop'] + (['modal'] if logic.Meta.modal else []) + (['fo'] if logic.Meta.quantified else []) + (['fomodal'] if logic.Meta.modal and logic.Meta.quantified else [])
    for i in range(count):
        arg = A.random_argument(rnd, kinds[i % len(kinds)], depth=3, max_premises=2)
        o, tab = P.outcome(logic, arg, is_build_models=True)
        if o != 'invalid': continue
        for b in P.limit_free_open(tab)[:2]:
            if b.model is not None: check_model(b.model, arg.argstr())
    return n, bad

def bounded_export(ctx):
    from checks import rulesem as RS
    names = [RS.registry()(n).Meta.name for n in RS.registry()]
    per = 60 if ctx.thorough else 12
    jobs = [(L, ctx.seed * 31 + i, per) for i, L in enumerate(names)]
    total = 0; fails = []
    for n, bad in pmap(_export_chunk, jobs):
        total += n; fails += bad
    ctx.bounded_part(evaluations=total, distinct_nontrivial=total, rule='models read from the limit-free open branches of seeded random arguments in all 57 logics: get_data() twice identical; worlds and access pairs exactly those of the model, sorted; every listed sentence has the value value_of gives; for every predicate and every tuple over the model\'s constants, membership in the exported extension / anti-extension agrees with value_of; distinct = (model, world) frames checked',
                     bound=f'{per} arguments per logic, arity^constants <= 64', samples=[dict(logic='D', argument='a:Lb')] + fails[:3], label='export vs evaluator')
    seen = set()
    for f in fails:
        key = (f['kind'], f['logic'])
        if key in seen: continue
        seen.add(key)
        nm = f"C20.export.{f['kind']}.{f['logic']}"
        ctx.bounded_failure(nm, str(f)[:300], f, instance=f.get('origin', ''))

def serial_world_obligation(ctx):
    "the world created by SerialAccess.enforce at finish is in frames and in the export (was defect #11)"
    from pytableaux.logics import registry
    from pytableaux.lang import Atomic
    m = registry('D').Model()
    m.set_atomic_value(Atomic(0, 0), 'T', world=0); m.R.add((0, 1)); m.set_atomic_value(Atomic(1, 0), 'T', world=1)
    m.finish()
    d = m.get_data()
    ok = set(m.frames) == set(m.R) and d['Worlds']['values'] == sorted(m.R) and all(any(p[0] == w for p in d['Access']['values']) for w in d['Worlds']['values']) and len(d['Frames']['values']) == len(d['Worlds']['values'])
    ctx.add(enum_ob('C20.finish.frames-cover-R.D', ok, clause='after finish() in D every world of R (incl. the serial successor added by enforce) has a frame and is exported; every exported world has a successor', cex=dict(frames=sorted(m.frames), R=sorted(m.R))))

def get_data_obligation(ctx):
    """BaseModel.get_data interpreted from source for a modal model whose frames were created in an order other than the
    sorted one, Frame.get_data and Access.flat under contract: the record listed for world w carries frames[w]'s data"""
    from pytableaux.models import BaseModel
    from pyvc.interp import LocalDict
    fn = BaseModel.__dict__['get_data']; fi = source.of_function(fn); where = ctx.under_contract(fi)
    world = World()
    class FrameTok(SymVal):
        def __init__(s, w): s.w = w
        def sym_getattr(s, it, n):
            if n == 'get_data': return Contract(lambda it: ('data-of-frame', s.w), 'Frame.get_data')
            raise Outside(f'Frame.{n}')
    class RTok(SymVal):
        def sym_getattr(s, it, n):
            if n == 'flat':
                def flat(it, w1s=None, sort=False): s.args = (list(w1s), sort); return GenList([('pair-of', w) for w in w1s])
                return Contract(flat, 'Access.flat (C20.Access.flat.sorted-pairs)')
            raise Outside(f'Access.{n}')
    class ModelTok(SymVal):
        def __init__(s, order, modal): s.frames = LocalDict((w, FrameTok(w)) for w in order); s.R = RTok(); s.modal = modal
        def sym_getattr(s, it, n):
            if n == 'frames': return s.frames
            if n == 'R': return s.R
            if n == 'Meta': return Holder(modal=s.modal)
            from pyvc.interp import private_helper
            ok_, v_ = private_helper(it, BaseModel, n, s)
            if ok_: return v_
            raise Outside(f'Model.{n}')
    bad = None; und = None
    for order in ([0], [0, 1, 2], [2, 0, 1], [1, 3, 0, 2], [3, 2, 1, 0]):
        mt = ModelTok(order, True)
        try:
            prs = explore(lambda path: Interp(path, world).call_source(fi, fn, BaseModel, [mt], {}, recv=mt))
        except Outside as e:
            und = f'outside subset: {e}'; break
        if len(prs) != 1 or prs[0].kind != 'return': bad = dict(creation_order=order, outcome=[p.kind for p in prs]); break
        d = prs[0].value
        ws = sorted(order)
        try:
            got_w = list(d['Worlds']['values']); recs = list(d['Frames']['values']); acc = list(d['Access']['values'])
            vals = [r_['value'] for r_ in recs]; descr = [r_['description'] for r_ in recs]
        except Exception as e:
            bad = dict(creation_order=order, malformed=repr(e)); break
        if got_w != ws or vals != [('data-of-frame', w) for w in ws] or descr != [f'frame at world {w}' for w in ws] or acc != [('pair-of', w) for w in ws] or mt.R.args != (ws, True):
            bad = dict(creation_order=order, worlds=got_w, frame_records=[[x, list(v)] for x, v in zip(descr, vals)]); break
    if not bad and not und:
        mt = ModelTok([0], False)
        prs = explore(lambda path: Interp(path, world).call_source(fi, fn, BaseModel, [mt], {}, recv=mt))
        if not (len(prs) == 1 and prs[0].kind == 'return' and prs[0].value == ('data-of-frame', 0)): bad = dict(non_modal=True, got=str(prs[0].value))
    if und: return ctx.add_result(Result('C20.get_data.frames-aligned', 'unknown', detail=und, where=where))
    ctx.add(enum_ob('C20.get_data.frames-aligned', bad is None, where=where, cex=bad,
                    clause='worlds are listed sorted; the i-th frame record describes the i-th listed world and carries that world\'s frame data, whatever order the frames were created in; Access lists flat(w1s=worlds, sort=True); a non-modal model exports frame 0'))

def replay_predicate_data(r):
    "real models that give F(a), F(b), ... every value of the logic: the exported extension / anti-extension vs the value"
    from pytableaux.logics import registry
    from pytableaux.lang import Predicate, Constant
    out = []
    for L in ('FDE', 'K3', 'LP', 'CPL', 'KFDE'):
        logic = registry(L); m = logic.Model()
        F = Predicate(0, 0, 1)
        vals = list(logic.Meta.values)
        consts = [Constant(i % 4, i // 4) for i in range(len(vals))]
        for c, v in zip(consts, vals): m.set_predicated_value(F(c), v)
        m.finish()
        d = m.get_data()
        frame = d['Frames']['values'][0]['value'] if logic.Meta.modal else d
        preds = frame['Predicates']['values']
        listed = {}
        for part in preds:
            sym = part.get('symbol', '')
            for row in part['values']:
                if row.get('input') == F:
                    listed.setdefault(sym, set()).update(tuple(t) for t in row.get('output', []))
        plus = next((v for k, v in listed.items() if k.endswith('+') or (not logic.Meta.many_valued and not k.endswith('-'))), set())
        minus = next((v for k, v in listed.items() if k.endswith('-')), set())
        for c, v in zip(consts, vals):
            inp, inm = (c,) in plus, (c,) in minus
            if inp != (v.name in ('T', 'B')): out.append(f'{L}: F({c}) has value {v.name} but is {"" if inp else "not "}listed in the extension')
            if logic.Meta.many_valued and inm != (v.name in ('B', 'F')): out.append(f'{L}: F({c}) has value {v.name} but is {"" if inm else "not "}listed in the anti-extension')
    return dict(reproduced=bool(out), detail='; '.join(out[:3]) or 'export agrees with the values')

def replay_get_data(r):
    "a real K model whose frames are created out of order"
    from pytableaux.logics import registry
    from pytableaux.lang import Atomic
    m = registry('K').Model()
    a = Atomic(0, 0)
    for w, v in ((2, 'F'), (0, 'F'), (1, 'T')): m.set_value(a, v, world=w)
    m.R.add((0, 1)); m.R.add((0, 2))
    m.finish()
    d = m.get_data()
    out = []
    for w, rec in zip(d['Worlds']['values'], d['Frames']['values']):
        want = m.frames[w].get_data()
        if rec['value'] != want: out.append(f"record labelled {rec['description']!r} does not carry the data of frame {w}")
    return dict(reproduced=bool(out), detail='; '.join(out) or 'records aligned')

def run(ctx):
    ctx.level = 'other'
    ctx.drop('type annotations', 'docstrings')
    ctx.trust('value_of_atomic/opaque/predicated return the stored value or the unassigned value (C08.lookups)', 'sorted() relies on the total order of lexical items (C14)',
              'Frame.get_data assembles its dictionary from the helpers verified here (straight-line literal construction; compared on real models in the bounded part); BaseModel.get_data is interpreted (C20.get_data.frames-aligned)')
    ctx.assume('CPython semantics of the interpreted subset as encoded by pyvc/interp.py')
    ctx.explanation = ('Proved/ground: PredicateInterpretation.having and Frame._get_predicate_data_values/_part are interpreted from source on every assignment of 3 tuples in the four value sets (P+ iff value in {T,B}, P- iff in {B,F}, '
                       'P- only for many-valued logics); Access.flat interpreted on all small relations; in D the serial successor world is covered by frames and export.  Bounded: get_data() of models read from open branches in all logics '
                       'against value_of for every listed sentence and every tuple over the model constants; determinism and sortedness.')
    having_obligations(ctx)
    flat_obligation(ctx)
    get_data_obligation(ctx)
    serial_world_obligation(ctx)
    bounded_export(ctx)
    ctx.replayers['C20.get_data.'] = replay_get_data
    ctx.replayers['C20.predicate-data'] = replay_predicate_data
    ctx.replayers['C20.having'] = replay_predicate_data
    ctx.replayers['C20.Access.flat'] = replay_flat
    ctx.replayers['C20.'] = lambda r: dict(reproduced=None, detail='see counterexample / meta')

def replay(payload):
    return dict(reproduced=None, detail='see counterexample / meta')
