"""C10 — provability obeys the structural laws of a consequence relation."""
from __future__ import annotations
import random
import z3
from pyvc import source
from pyvc.interp import Interp, explore, Outside, PyExc, SymVal, Contract, GenList, LocalList
from pyvc.world import World
from pyvc.smt import Obligation, Result, discharge
from pyvc.par import pmap
from checks import rulesem as RS, c05
from checks.structs import Holder, Tok
from spec import semantics as S

def enum_ob(name, ok, where='', **meta):
    return Obligation(name, True if ok else False, kind='enum', where=where, meta=meta)

def logic_setter_obligation(ctx):
    "Tableau.logic setter: the closure group is created first, then one group per rule group, in table order"
    from pytableaux.proof import Tableau
    fset = Tableau.__dict__['logic'].fset
    fi = source.get('pytableaux/proof/tableaux.py', 'Tableau.logic'); where = ctx.under_contract(fi)
    created = []
    class Groups(SymVal):
        def sym_getattr(s, it, name):
            if name == 'create':
                def create(it, nm=None):
                    g = []; created.append((nm, g))
                    return Holder(extend=Contract(lambda it, xs: g.extend(it.iterate(xs)), 'RuleGroup.extend'))
                return Contract(create, 'RuleGroups.create')
            raise Outside(name)
    class RulesM(SymVal):
        def sym_getattr(s, it, name):
            if name == 'clear': return Contract(lambda it: created.clear(), 'RulesRoot.clear')
            if name == 'groups': return Groups()
            raise Outside(name)
    R_ = Holder(closure=('C1', 'C2'), groups=(('a', 'b'), ('c',)))
    LOGIC = Holder(Rules=R_)           # what registry(value) returns: the logic, with its rule table
    class T(SymVal):
        def __init__(s): s.logic_set = None
        def sym_getattr(s, it, name):
            from contracts.tableau import FlagVal
            if name == 'flag': return FlagVal({})
            if name == 'rules': return RulesM()
            if name in ('logic', '_logic'):
                if s.logic_set is None: raise PyExc(AttributeError, (name,)) if name == '_logic' else Outside('logic read before it is set')
                return s.logic_set
            if name == 'argument': return None
            if name == 'opts': return {'auto_build_trunk': True}
            from pyvc.interp import private_helper
            ok_, v_ = private_helper(it, Tableau, name, s)
            if ok_: return v_
            raise Outside(name)
        def sym_setattr(s, it, name, v): s.logic_set = v
    from pytableaux.logics import registry
    world = World()
    _orig_live = world.call_live
    world.call_live = lambda it, f, args, kw: LOGIC if f is registry else _orig_live(it, f, args, kw)
    try:
        prs = explore(lambda path: Interp(path, world).call_source(fi, fset, Tableau, [T(), 'x'], {}))
        ok = len(prs) == 1 and prs[0].kind == 'return' and created == [('closure', ['C1', 'C2']), (None, ['a', 'b']), (None, ['c'])]
        ctx.add(enum_ob('C10.logic-setter.closure-group-first', ok, where=where, clause='assigning the logic creates the group "closure" with Rules.closure first, then one group per Rules.groups entry in order (so next() asks the closure rules before any other)', cex=dict(created=str(created))))
    except Outside as e:
        ctx.add_result(Result('C10.logic-setter.closure-group-first', 'unknown', detail=f'outside subset: {e}', where=where))

def closing_apply_obligation(ctx):
    from pytableaux.proof import rules as PR
    fn = PR.ClosingRule.__dict__['_apply']; fn = getattr(fn, '__wrapped__', fn)
    fi = source.of_function(fn); where = ctx.under_contract(fi)
    closed = []
    t = Holder(branch=Holder(close=Contract(lambda it: closed.append(1), 'Branch.close')))
    prs = explore(lambda path: Interp(path, World()).call_source(fi, fn, PR.ClosingRule, [Tok('rule'), t], {}))
    ctx.add(enum_ob('C10.ClosingRule._apply.closes', len(prs) == 1 and prs[0].kind == 'return' and closed == [1], where=where, clause='applying a closure target closes the target branch', cex={}))
    fn2 = PR.BaseClosureRule.__dict__['_get_targets']; fi2 = source.of_function(fn2); ctx.under_contract(fi2)
    ok = True
    for cached in (None, Tok('target')):
        class RM(SymVal):
            def sym_getitem(s, it, h): return Holder2(cached)
        class Holder2(SymVal):
            def __init__(s, v): s.v = v
            def sym_getitem(s, it, b): return s.v
        prs = explore(lambda path: (lambda it: it.iterate(it.call_source(fi2, fn2, PR.BaseClosureRule, [RM(), Tok('branch')], {})))(Interp(path, World())))
        if prs[0].value != ([] if cached is None else [cached]): ok = False
    ctx.add(enum_ob('C10.BaseClosureRule._get_targets.cached', ok, where=fi2.where, clause='the closure rule offers exactly the target cached for the branch by the BranchTarget hook, if any', cex={}))
    # BranchValueHook.after_node_add: caches the first truthy hook result
    from pytableaux.proof import helpers as H
    fi3 = source.get('pytableaux/proof/helpers.py', 'BranchValueHook.listen_on.after_node_add'); ctx.under_contract(fi3)
    fi3o = source.get('pytableaux/proof/helpers.py', 'BranchValueHook.listen_on')
    from pyvc.interp import Closure, Frame
    ok = True
    for pre, hookres, want in ((None, 'T1', 'T1'), ('T0', 'T1', 'T0'), (None, None, None)):
        store = {'b': pre}
        class HM(SymVal):
            def sym_getitem(s, it, b): return store['b']
            def sym_setitem(s, it, b, v): store['b'] = v
            def sym_getattr(s, it, name):
                if name == 'hook': return Contract(lambda it, n, b: hookres, 'rule._branch_target_hook')
                raise Outside(name)
        fr = Frame(fi3o, None, H.BranchValueHook, dict(self=HM()))
        it = Interp(__import__('pyvc.interp', fromlist=['Path']).Path([]), World())
        it.call_closure(Closure(fi3.node, fr, 'after_node_add'), [Tok('node'), 'b'], {})
        if store['b'] != want: ok = False
    ctx.add(enum_ob('C10.BranchValueHook.after_node_add', ok, where=fi3.where, clause='as nodes arrive the hook result of the first node that yields one is cached for the branch and kept', cex={}))

def reflexivity_pairs(ctx):
    "for every logic the pair the reflexive trunk creates (c designated & undesignated / c & ~c) is detected in both arrival orders"
    bad = []
    for logic in RS.all_logics():
        L = logic.Meta.name
        funcs = {}
        lits = c05.literal_nodes(logic)
        rel, errors = c05.closes_relation(logic, lits, funcs)
        ctx.functions.update(funcs)
        names = [n for n, _, _, _ in lits]
        if len(S.spec_of(L).values) == 2: pair = ('p', '~p')
        else: pair = ('p+', 'p-')
        i, j = names.index(pair[0]), names.index(pair[1])
        if errors or (i, j) not in rel or (j, i) not in rel: bad.append(L)
    ctx.add(enum_ob('C10.reflexivity.closing-pair-detected', not bad, clause='the trunk of an argument whose conclusion is a premise contains a pair that some closure rule detects whichever node arrives last (all 57 logics; hooks interpreted from source)', cex=dict(logics=bad)))

def _meta_chunk(job):
    lname, seed, count = job
    from pytableaux.lang import Argument, Atomic, Constant, Predicate, Variable, Operator, Quantifier
    from bounded import args as A, prover as P
    logic = RS.registry()(lname); L = logic.Meta.name
    rnd = random.Random(seed)
    n = 0; bad = []
    kinds = ['prop'] + (['modal'] if logic.Meta.modal else []) + (['fo'] if logic.Meta.quantified else []) + (['fomodal'] if logic.Meta.modal and logic.Meta.quantified else [])
    def rename(s, amap, cmap, pmap_, vmap):
        k = type(s).__name__
        if k == 'Atomic': return amap.get(s, s)
        if k == 'Predicated':
            pred = pmap_.get(s.predicate, s.predicate)
            return pred(tuple(cmap.get(p, vmap.get(p, p)) for p in s.params))
        if k == 'Quantified': return s.quantifier(vmap.get(s.variable, s.variable), rename(s.sentence, amap, cmap, pmap_, vmap))
        return s.operator(tuple(rename(x, amap, cmap, pmap_, vmap) for x in s.operands))
    for i in range(count):
        arg = A.random_argument(rnd, kinds[i % len(kinds)], depth=3, max_premises=2)
        o0, _ = P.outcome(logic, arg)
        n += 1
        if o0.startswith('exception'): bad.append(dict(logic=L, kind='exception', argument=arg.argstr(), outcome=o0)); continue
        # reflexivity
        prem = list(arg.premises) + [arg.conclusion]
        rnd.shuffle(prem)
        o1, _ = P.outcome(logic, Argument(arg.conclusion, prem))
        n += 1
        if o1 != 'valid' and o1 not in ('limit', 'harness-limit'): bad.append(dict(logic=L, kind='reflexivity', argument=Argument(arg.conclusion, prem).argstr(), outcome=o1))
        # weakening
        extra = A.random_argument(rnd, kinds[i % len(kinds)], depth=2, max_premises=0).conclusion
        if o0 == 'valid':
            o2, _ = P.outcome(logic, Argument(arg.conclusion, list(arg.premises) + [extra]))
            n += 1
            if o2 == 'invalid': bad.append(dict(logic=L, kind='weakening', argument=arg.argstr(), added=str(extra), added_argstr=Argument(arg.conclusion, list(arg.premises) + [extra]).argstr(), outcome=o2))
        # injective renaming of letters / constants / predicates / bound variables
        atoms = [Atomic(i_, 0) for i_ in range(3)]; perm = atoms[:]; rnd.shuffle(perm)
        amap = dict(zip(atoms, [Atomic(p.index, 2) for p in perm]))
        consts = [Constant(i_, 0) for i_ in range(3)]; permc = consts[:]; rnd.shuffle(permc)
        # codomain mixes indexes and subscripts (d, a1, d1, ... sort differently by (index, subscript) and (subscript, index))
        pool = [Constant(i_, j_) for j_ in range(3) for i_ in range(4)]
        cmap = dict(zip(consts, rnd.sample(pool, 3)))
        F, G = Predicate(0, 0, 1), Predicate(1, 0, 2)
        pmap_ = {F: Predicate(2, 1, 1), G: Predicate(0, 3, 2)}
        vmap = {Variable(0, 0): Variable(2, 1)}
        sents = [rename(s, amap, cmap, pmap_, vmap) for s in arg]
        a2 = Argument(sents[0], sents[1:])
        o3, _ = P.outcome(logic, a2)
        n += 1
        if {o0, o3} == {'valid', 'invalid'}: bad.append(dict(logic=L, kind='renaming', argument=arg.argstr(), renamed=a2.argstr(), outcomes=[o0, o3]))
    return n, bad

def bounded_meta(ctx):
    names = [l.Meta.name for l in RS.all_logics()]
    per = 40 if ctx.thorough else 6
    jobs = [(L, ctx.seed * 13 + i, per) for i, L in enumerate(names)]
    total = 0; fails = []
    for n, bad in pmap(_meta_chunk, jobs):
        total += n; fails += bad
    ctx.bounded_part(evaluations=total, distinct_nontrivial=total, rule='seeded random propositional / modal / first-order arguments in all 57 logics: (a) the conclusion added among the shuffled premises gives valid; (b) a valid argument with an extra random premise is not refuted by a limit-free open branch; (c) an injective renaming of letters, constants, predicates and a bound variable keeps the verdict; limit outcomes are disregarded',
                     bound=f'{per} arguments per logic; harness caps 1500 steps / 1.5 s', samples=[dict(logic='S4', kind='renaming')] + fails[:3], label='metamorphic relations')
    seen = set()
    for f in fails:
        key = (f['kind'], f['logic'])
        if key in seen: continue
        seen.add(key)
        ctx.bounded_failure(f"C10.bounded.{f['kind']}.{f['logic']}", str(f)[:400], f, instance=f.get('argument', ''))

def run(ctx):
    ctx.level = 'other'
    ctx.drop('type annotations', 'docstrings')
    ctx.trust('paper lemma L-STRUCT (DESIGN.md §4): weakening and renaming follow from C01 and C02 because countermodels restrict and rename and the spec semantics is symbol-independent; a rule or closure that depended on a particular symbol would break a C04/C05 obligation (they quantify over all operands)',
              'trunk content (C01.trunk), next() asking groups in order (C09 selection obligations), verdict = completed and no open branch (C17)')
    ctx.assume('CPython semantics of the interpreted subset as encoded by pyvc/interp.py')
    ctx.explanation = ('Own obligations (proved): the reflexivity chain — the trunk of an argument containing its conclusion among the premises carries a pair detected by a closure hook in either arrival order (all 57 logics, hooks interpreted), '
                       'BranchValueHook caches the first target, BaseClosureRule offers it, the logic setter creates the closure group first, ClosingRule._apply closes.  Derived: weakening and renaming via L-STRUCT.  Bounded: the three metamorphic relations on random arguments.')
    reflexivity_pairs(ctx)
    logic_setter_obligation(ctx)
    closing_apply_obligation(ctx)
    # symbol-independent search: the witness constant / world the branch hands out is new whatever symbols are on it
    from checks import c06
    c06.append_obligations(ctx, 'C10.fresh', only=('fresh-constant', 'fresh-world'))
    ctx.replayers['C10.fresh.'] = c06.replay_history
    c06.bounded_histories(ctx, 'C10.fresh', depth=3)
    # instantiation is symbol-independent: substitution replaces exactly the occurrences of the bound variable, whatever the
    # coordinates of the other symbols (C15's substitute / unquantify obligations under C10 names)
    from checks import c15
    ctx.restate(c15.run, 'C15.', 'C10.subst.', keep=lambda n: 'substitute' in n or 'unquantify' in n or 'rshift' in n)
    # closure of A against A needs the lookup behind branch.has/find to find a node that is on the branch
    from checks import index_ob
    index_ob.index_obligations(ctx, 'C10.index')
    index_ob.register_replayers(ctx, 'C10.index')
    # premise of monotonicity: what a rule skips because "it is there already" must really be there AT THAT WORLD -- otherwise an added
    # premise can suppress a step the proof needs (the identity rule's completeness for every order and branch content, C02/C09's obligation)
    from checks import c01 as _c01, rulesem as _RS
    for lname in _RS.registry():
        lg = _RS.registry()(lname); fz = {}
        for r in _c01.identity_order_obligations(lg, fz, 'C10'):
            if r.name.endswith('.complete'): ctx.add_result(r)
        ctx.functions.update(fz)
    bounded_meta(ctx)
    ctx.replayers['C10.'] = lambda r: dict(reproduced=None, detail='see counterexample / meta')
    ctx.replayers['C10.identity.'] = replay_identity_world

def replay_identity_world(r):
    "an identity at a non-actual world, with and without a premise that puts the substituted predication at another world"
    from bounded import prover as P
    from pytableaux.lang import Argument
    from checks import rulesem as _RS
    L = (r.meta or {}).get('logic') or r.name.split('.')[2]
    lg = _RS.registry()(L)
    base, more = 'a:MKKImnFmNFn', 'a:MKKImnFmNFn:Fn'
    o1 = P.outcome(lg, Argument(base))[0]; o2 = P.outcome(lg, Argument(more))[0]
    return dict(reproduced=(o1 == 'valid' and o2 == 'invalid'), detail=f'{L}: {base} is {o1}; with the extra premise Fn ({more}) it is {o2}')

def replay(payload):
    if payload.get('kind') == 'bounded' and 'history' in (payload.get('input') or {}):
        from checks import c06
        return c06.replay(payload)
    if payload.get('kind') == 'bounded':
        from pytableaux.lang import Argument
        from bounded import prover as P
        f = payload['input']
        logic = RS.registry()(f['logic'])
        if f['kind'] == 'reflexivity':
            o, _ = P.outcome(logic, Argument(f['argument'])); return dict(reproduced=o != 'valid', detail=o)
        if f['kind'] == 'renaming':
            a, b = P.outcome(logic, Argument(f['argument']))[0], P.outcome(logic, Argument(f['renamed']))[0]
            return dict(reproduced={a, b} == {'valid', 'invalid'}, detail=f'{a} vs {b}')
        if f['kind'] == 'weakening':
            a, b = P.outcome(logic, Argument(f['argument']))[0], P.outcome(logic, Argument(f['added_argstr']))[0]
            return dict(reproduced=(a == 'valid' and b == 'invalid'), detail=f'{a} vs {b}')
    return dict(reproduced=None, detail='see counterexample / meta')
