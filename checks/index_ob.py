"""Contract of the branch node index behind Branch.search / find / has (proof/common.py Branch.Index.add/copy/select,
Node.__getitem__/meets, Branch.search/find/has), interpreted from the real source over token models.

The closure rules and every rule that asks `branch.has(...)` rely on: *a node on the branch that meets the mapping is
found*.  That is carried by four function contracts and one lemma, each checked on every shape (which of the node
properties sentence/designated/world/world1/world2 are present, on the node and on the mapping, and whether shared
properties are equal; property values are opaque tokens, the code only hashes and compares them):

 (A) Index.add(n): for every index key K whose properties n answers (Node.__getitem__: own property, else the default
     None for designated/world), n is in bucket (K, n[K]) afterwards and nothing leaves any bucket;
 (A') Index.copy(): same buckets with the same members in set objects of its own;
 (B) Index.select(m, default): returns `default`, or the bucket (K, m[K]) of a key K that m answers (an empty set when
     that bucket does not exist) -- for all bucket sizes (symbolic lengths);
 (C) lemma: n.meets(m) and m answers K  =>  n answers K and n[K] == m[K]  (for a Node-typed m, which answers the
     defaulted properties with None, under the precondition that n does not carry a defaulted property m lacks:
     branches of one logic are homogeneous in designated/world -- assumption, see evidence);
 (D) Branch.search yields exactly the members of select(...) that meet the mapping; find is its first element or None;
     has is `find is not None`.
"""
from __future__ import annotations
import itertools, z3
from pyvc import source
from pyvc.interp import Interp, Path, explore, Outside, PyExc, SymVal, Contract, GenList, LocalList, LocalDict
from pyvc.world import World
from pyvc.smt import Obligation, Result
from checks.structs import Holder, Tok

FILE = 'pytableaux/proof/common.py'
FIELDS = ('sentence', 'designated', 'world', 'world1', 'world2')

def enum_ob(name, ok, where='', **meta):
    return Obligation(name, True if ok else False, kind='enum', where=where, meta=meta)

def defaults():
    from pytableaux.proof import Node
    return dict(Node.PropMap.Defaults)

def spec_get(fields, k, node_kind=True):
    """the contract of Node.__getitem__ (own property, else the documented default) / of a plain mapping"""
    if k in fields: return True, fields[k]
    if node_kind and k in defaults(): return True, defaults()[k]
    return False, None

class LSet(set):
    "a set owned by the interpreted code"

class NodeM(SymVal):
    "a node: property name -> token, answered by the interpreted Node.__getitem__"
    def __init__(s, name, fields): s.name, s.fields = name, dict(fields); s.cov = CovM(s.fields)
    def __repr__(s): return s.name
    def __hash__(s): return id(s)
    def __eq__(s, o): return s is o
    def sym_is(s, it, o): return s is o
    def sym_truth(s, it): return True
    def sym_compare(s, it, op, o, reflected):
        if op == 'Eq': return s is o
        if op == 'NotEq': return s is not o
        raise Outside('ordering of nodes')
    def sym_len(s, it): return len(s.fields)
    def sym_iter(s, it): return list(s.fields)
    def sym_getattr(s, it, name):
        from pytableaux.proof import Node
        if name == '_cov_mapping': return s.cov
        if name in ('__getitem__', 'meets', 'get'):
            fn = Node.__dict__.get(name)
            if fn is None:
                if name == 'get':      # Mapping.get mixin (collections.abc, outside /repo): __getitem__ with KeyError -> default
                    def get(it, k, d=None):
                        try: return s.sym_getitem(it, k)
                        except PyExc as e:
                            if issubclass(e.cls, KeyError): return d
                            raise
                    return Contract(get, 'Mapping.get')
                raise Outside(f'Node.{name}')
            fi = source.of_function(fn)
            return Contract(lambda it, *a: it.call_source(fi, fn, Node, [s, *a], {}), f'Node.{name}')
        raise Outside(f'Node.{name}')
    def sym_getitem(s, it, k):
        from pytableaux.proof import Node
        fn = Node.__dict__['__getitem__']; fi = source.of_function(fn)
        return it.call_source(fi, fn, Node, [s, k], {})

class CovM(SymVal):
    def __init__(s, d): s.d = d
    def sym_getitem(s, it, k):
        if k in s.d: return s.d[k]
        raise PyExc(KeyError, (k,))

class DictM(SymVal):
    "a plain mapping handed to search (no defaults)"
    def __init__(s, fields): s.fields = dict(fields)
    def sym_len(s, it): return len(s.fields)
    def sym_iter(s, it): return list(s.fields)
    def sym_truth(s, it): return bool(s.fields)
    def sym_getitem(s, it, k):
        if k in s.fields: return s.fields[k]
        raise PyExc(KeyError, (k,))
    def sym_getattr(s, it, name):
        if name == '__getitem__': return Contract(lambda it, k: s.sym_getitem(it, k), 'dict.__getitem__')
        raise Outside(f'dict.{name}')

class BucketsM(SymVal):
    "collections.defaultdict(set): value tuple -> set (builtin, modelled)"
    def __init__(s): s.d = {}
    def key(s, v): return tuple(id(x) if isinstance(x, SymVal) else ('c', x) for x in v)
    def sym_getitem(s, it, v):
        return s.d.setdefault(s.key(v), (tuple(v), LSet()))[1]
    def sym_getattr(s, it, name):
        if name == 'get':
            def get(it, v, d=None):
                e = s.d.get(s.key(v))
                return d if e is None else e[1]
            return Contract(get, 'dict.get')
        if name == 'items': return Contract(lambda it: [(v, b) for v, b in s.d.values()], 'dict.items')
        raise Outside(f'defaultdict.{name}')

class IndexM(SymVal):
    "Branch.Index: a dict from key tuple to buckets"
    def __init__(s, keys=()): s.d = {k: BucketsM() for k in keys}
    def sym_iter(s, it): return list(s.d)
    def sym_len(s, it): return len(s.d)
    def sym_getitem(s, it, k):
        if k in s.d: return s.d[k]
        raise PyExc(KeyError, (k,))
    def sym_type(s, it):
        # Index(indexes): one empty defaultdict(set) per key (Index.__init__, trusted: only the key set matters and any key set is sound)
        return Contract(lambda it, keys: IndexM(it.iterate(keys)), 'Branch.Index')
    def sym_getattr(s, it, name):
        if name == 'items': return Contract(lambda it: list(s.d.items()), 'dict.items')
        raise Outside(f'Index.{name}')
    def members(s):
        return {(k, e[0] if False else tuple(map(_vid, e[0]))): set(e[1]) for k, b in s.d.items() for e in b.d.values()}

def _vid(x): return id(x) if isinstance(x, SymVal) else ('c', x)

def index_world():
    w = World()
    orig = w.call_builtin_method
    def cbm(it, f, args, kw):
        if isinstance(f.__self__, LSet): return f(*args, **kw)
        return orig(it, f, args, kw)
    w.call_builtin_method = cbm
    def hook(it, what, args):
        if what[0] == 'getattr' and isinstance(args[0], LSet):
            if what[1] == 'update': return Contract(lambda it, xs, t=args[0]: t.update(it.iterate(xs)), 'set.update')
            return getattr(args[0], what[1])
        if what == ('iterate',) and isinstance(args[0], LSet): return list(args[0])
        if what == ('getitem',):
            from pytableaux.proof import Node
            if args[0] is Node.PropMap.Defaults:        # the documented defaults table (a constant of the package)
                try: return args[0][args[1]]
                except KeyError as e: raise PyExc(KeyError, e.args)
        if what == ('len',) and isinstance(args[0], LSet): return len(args[0])
        return NotImplemented
    w.attr_hooks.append(hook)
    return w

def shapes():
    for k in range(len(FIELDS) + 1):
        for pres in itertools.combinations(FIELDS, k): yield pres

def index_obligations(ctx, prefix):
    from pytableaux.proof import common as C, Node
    KEYS = tuple(tuple(getattr(k, 'value', k) for k in K) for K in C.Branch.INDEX_KEYS)
    world = index_world()
    Index = C.Branch.Index
    ctx.trust('collections.defaultdict(set), dict.get/items, set.add/update and the Mapping.get mixin are builtins modelled by their documented behaviour')
    ctx.assume('index lemma (C) precondition: a node that meets a Node-typed lookup does not carry designated/world when the lookup lacks it (nodes built by one logic\'s rules agree on carrying designated and world)')
    def fn_of(cls, name):
        fn = cls.__dict__[name]; return fn, source.of_function(fn)
    try:
        # ---------------- (A) add
        fn, fi = fn_of(Index, 'add'); where = ctx.under_contract(fi)
        ctx.under_contract(source.of_function(Node.__dict__['__getitem__']))
        bad = []; cases = 0
        for pres in shapes():
            cases += 1
            n = NodeM('n', {f: Tok(f'v_{f}') for f in pres}); x = NodeM('x', {})
            idx = IndexM(KEYS)
            it = Interp(Path([]), world)
            # a witness already filed everywhere n can go, to observe that nothing leaves a bucket
            for K in KEYS:
                oks = [spec_get(n.fields, k) for k in K]
                if all(o for o, _ in oks): idx.d[K].sym_getitem(it, tuple(v for _, v in oks)).add(x)
            it.call_source(fi, fn, Index, [idx, n], {})
            for K in KEYS:
                oks = [spec_get(n.fields, k) for k in K]
                if not all(o for o, _ in oks): continue
                b = idx.d[K].d.get(idx.d[K].key(tuple(v for _, v in oks)))
                if b is None or n not in b[1]: bad.append(f'node with {list(pres)}: not filed under {K}')
                elif x not in b[1]: bad.append(f'node with {list(pres)}: filing under {K} dropped another member')
        ctx.add(enum_ob(f'{prefix}.Index.add.files-under-every-answered-key', not bad, where, cases=cases, cex=dict(bad=bad[:6]),
                        clause='after add(n), n is in bucket (K, n[K]) for every index key K all of whose properties n answers (own value or the documented default); other members stay'))
        # ---------------- (A') copy
        fn, fi = fn_of(Index, 'copy'); where = ctx.under_contract(fi)
        bad = []; cases = 0
        for pres in [p for p in shapes() if p][:12]:
            cases += 1
            it = Interp(Path([]), world)
            idx = IndexM(KEYS); n = NodeM('n', {f: Tok(f'v_{f}') for f in pres})
            addfn, addfi = fn_of(Index, 'add')
            it.call_source(addfi, addfn, Index, [idx, n], {})
            cp = it.call_source(fi, fn, Index, [idx], {})
            if not isinstance(cp, IndexM) or cp is idx: bad.append('copy is not a new index'); continue
            if cp.members() != idx.members(): bad.append(f'{list(pres)}: copy members differ')
            for K in cp.d:
                for key, (v, b) in cp.d[K].d.items():
                    o = idx.d[K].d.get(key)
                    if o is not None and o[1] is b: bad.append(f'{K}: bucket shared with the original')
        ctx.add(enum_ob(f'{prefix}.Index.copy.independent-equal', not bad, where, cases=cases, cex=dict(bad=bad[:6]),
                        clause='copy() has the same buckets with the same members, in set objects of its own'))
        # ---------------- (B) select, symbolic bucket sizes
        fn, fi = fn_of(Index, 'select'); where = ctx.under_contract(fi)
        bad = []; cases = 0; npaths = 0
        class SetTok(SymVal):
            def __init__(s, name, n): s.name, s.n = name, n
            def __repr__(s): return s.name
            def sym_len(s, it): return s.n
            def sym_truth(s, it): return True
        for kind in ('node', 'dict'):
            for pres in shapes():
                cases += 1
                fields = {f: Tok(f'm_{f}') for f in pres}
                def run(path, kind=kind, fields=fields):
                    it = Interp(path, world)
                    m = NodeM('m', fields) if kind == 'node' else DictM(fields)
                    default = SetTok('default', z3.Int('n!default')); path.assume(default.n >= 0)
                    asked = []
                    class SelBuckets(SymVal):
                        def __init__(s, K): s.K = K
                        def sym_getattr(s, it, name):
                            if name != 'get': raise Outside(f'defaultdict.{name}')
                            def get(it, v, d=None):
                                if path.fork(z3.Bool(f'exists!{"_".join(s.K)}')):
                                    t = SetTok(f'bucket{s.K}', z3.Int(f'n!{"_".join(s.K)}')); path.assume(t.n >= 1); asked.append((s.K, tuple(v), t)); return t
                                asked.append((s.K, tuple(v), d)); return d
                            return Contract(get, 'dict.get')
                    class SelIndex(IndexM):
                        def sym_getitem(s, it, k): return SelBuckets(k)
                    r = it.call_source(fi, fn, Index, [SelIndex(KEYS), m, default], {})
                    return r, default, asked
                prs = explore(run)
                for pr in prs:
                    npaths += 1
                    if pr.kind != 'return': bad.append(f'{kind} {list(pres)}: path ends with {pr.kind} {pr.value}'); continue
                    r, default, asked = pr.value
                    if r is default: continue
                    ok = False
                    for K, v, t in asked:
                        oks = [spec_get(fields, k, kind == 'node') for k in K]
                        if r is t and all(o for o, _ in oks) and all(a is b for a, (_, b) in zip(v, oks)) and len(v) == len(K): ok = True
                    if not ok: bad.append(f'{kind} mapping with {list(pres)}: returns {r!r}, neither the default nor the bucket of an answered key at the mapping\'s values')
        ctx.add(enum_ob(f'{prefix}.Index.select.default-or-answered-bucket', not bad, where, cases=cases, paths=npaths, cex=dict(bad=bad[:6]),
                        clause='select(m, default) returns default, or idx[K].get(m[K], empty) for a key K all of whose properties m answers -- on every path over symbolic bucket sizes and bucket existence'))
        # ---------------- (C) lemma + Node.meets against its contract
        fn, fi = fn_of(Node, 'meets'); where = ctx.under_contract(fi)
        from pyvc.par import pmap
        bad = []; badm = []; cases = 0
        for c_, b_, bm_ in pmap(_lemma_shape, [(pres, KEYS) for pres in shapes()]):
            cases += c_; bad += b_; badm += bm_
        ctx.add(enum_ob(f'{prefix}.Node.meets.contract', not badm, where, cases=cases, cex=dict(bad=badm[:6]),
                        clause='n.meets(m) iff for every key of m, n answers it (own or default) with an equal value'))
        ctx.add(enum_ob(f'{prefix}.index.meeting-node-is-in-every-answered-bucket', not bad, where, cases=cases, cex=dict(bad=bad[:6]),
                        clause='lemma: n.meets(m) and m answers index key K => n answers K with the same values; with (A), (A\') and (B): select(m, branch) contains every node of the branch that meets m'))
        # ---------------- (D) search / find / has
        bad = []; cases = 0
        sfn, sfi = fn_of(C.Branch, 'search'); where = ctx.under_contract(sfi)
        ffn, ffi = fn_of(C.Branch, 'find'); ctx.under_contract(ffi)
        hfn, hfi = fn_of(C.Branch, 'has'); ctx.under_contract(hfi)
        for pattern in itertools.chain.from_iterable(itertools.product((True, False), repeat=k) for k in range(0, 4)):
            cases += 1
            nodes = [Holder(meets=Contract(lambda it, m, ok=ok: ok, 'Node.meets')) for ok in pattern]
            m = Tok('m')
            class Br(SymVal):
                def sym_getattr(s, it, name):
                    if name == '_index': return Holder(select=Contract(lambda it, mp, dflt: list(nodes) if mp is m and dflt is s else [], 'Index.select'))
                    if name == 'search': return Contract(lambda it, mp: it.call_source(sfi, sfn, C.Branch, [s, mp], {}), 'Branch.search')
                    if name == 'find': return Contract(lambda it, mp: it.call_source(ffi, ffn, C.Branch, [s, mp], {}), 'Branch.find')
                    raise Outside(f'Branch.{name}')
            b = Br(); it = Interp(Path([]), world)
            want = [nd for nd, ok in zip(nodes, pattern) if ok]
            got = list(it.iterate(it.call_source(sfi, sfn, C.Branch, [b, m], {})))
            if len(got) != len(want) or any(a is not c for a, c in zip(got, want)): bad.append(f'search over {pattern}: yields {len(got)} nodes, the meeting ones are {len(want)}')
            f = it.call_source(ffi, ffn, C.Branch, [b, m], {})
            if (f is not (want[0] if want else None)): bad.append(f'find over {pattern}: {f}')
            h = it.call_source(hfi, hfn, C.Branch, [b, m], {})
            if bool(h) != bool(want) or not isinstance(h, bool): bad.append(f'has over {pattern}: {h}')
        ctx.add(enum_ob(f'{prefix}.Branch.search-find-has', not bad, where, cases=cases, cex=dict(bad=bad[:6]),
                        clause='search(m) yields exactly the members of _index.select(m, self) that meet m, in order; find(m) is the first of them or None; has(m) is find(m) is not None'))
        # ---------------- Node.for_mapping: the node class is decided by which properties are PRESENT (not None) -- a present property may be
        # falsy (designated=False, world 0); the model builder and the closure rules read the class
        from pytableaux.proof import common as CM
        fnm = Node.__dict__['for_mapping']; fnm = getattr(fnm, '__func__', fnm); fim = source.of_function(fnm); wherem = ctx.under_contract(fim)
        badm2 = []; casesm = 0
        from pytableaux.lang import Atomic
        A_ = Atomic(0, 0)
        for sent in (None, A_):
            for des in (None, True, False):
                for w in (None, 0, 1):
                    for w1, w2 in ((None, None), (0, 0), (1, 0), (0, None)):
                        casesm += 1
                        mp = {k: v for k, v in dict(sentence=sent, designated=des, world=w, world1=w1, world2=w2).items() if v is not None}
                        if w1 is not None and w2 is not None: want = 'AccessNode'
                        elif sent is not None: want = 'Sentence' + ('Designation' if des is not None else '') + ('World' if w is not None else '') + 'Node'
                        elif des is not None: want = 'DesignationNode'
                        elif w is not None: want = 'WorldNode'
                        else: want = None
                        if want is None: continue
                        w3 = World(); made = []
                        for nm in ('AccessNode', 'SentenceNode', 'SentenceWorldNode', 'SentenceDesignationNode', 'SentenceDesignationWorldNode', 'DesignationNode', 'WorldNode', 'FlagNode', 'ClosureNode', 'QuitFlagNode', 'EllipsisNode', 'UnknownNode'):
                            cls_ = getattr(CM, nm, None)
                            if cls_ is not None: w3.contract(cls_, (lambda it, m, nm=nm: (made.append(nm), nm)[1]), name=f'{nm}(mapping)')
                        try: r_ = Interp(Path([]), w3).call_source(fim, fnm, Node, [dict(mp)], {})
                        except PyExc as e_: r_ = f'exception {e_.cls.__name__}'
                        if r_ != want: badm2.append(f'{mp}: {r_}, expected {want}')
        ctx.add(enum_ob(f'{prefix}.Node.for_mapping.by-presence', not badm2, wherem, cases=casesm, cex=dict(bad=badm2[:4]) if badm2 else None,
                        clause='for_mapping builds the node class named by the properties present in the mapping (sentence / designated / world, or world1+world2): designated=False and world 0 are present'))
    except Outside as e:
        ctx.add_result(Result(f'{prefix}.index', 'unknown', detail=f'outside subset: {e}'))

def _lemma_shape(job):
    "lemma (C) and the contract of Node.meets for one presence pattern of the node, every mapping kind / presence / value relation"
    pres, KEYS = job
    from pytableaux.proof import Node
    fn = Node.__dict__['meets']; fi = source.of_function(fn)
    world = index_world()
    it = Interp(Path([]), world)
    bad = []; badm = []; cases = 0
    nf = {f: Tok(f'v_{f}') for f in pres}
    n = NodeM('n', nf)
    for kind in ('node', 'dict'):
        for rel in itertools.product(('absent', 'same', 'other', 'none'), repeat=len(FIELDS)):
            mf = {}
            skip = False
            for f, r in zip(FIELDS, rel):
                if r == 'same':
                    if f not in nf: skip = True; break
                    mf[f] = nf[f]
                elif r == 'other': mf[f] = Tok(f'o_{f}')
                elif r == 'none':
                    if f not in defaults(): skip = True; break
                    mf[f] = None
            if skip: continue
            cases += 1
            m = NodeM('m', mf) if kind == 'node' else DictM(mf)
            got = it.call_source(fi, fn, Node, [n, m], {})
            want = all(spec_get(nf, k)[0] and _same(spec_get(nf, k)[1], mf[k]) for k in mf)
            if bool(got) != want: badm.append(f'n {list(pres)} meets {kind} {rel}: {got}, contract {want}')
            if not want: continue
            if kind == 'node' and any(d not in mf and spec_get(nf, d)[1] is not None for d in defaults()): continue     # precondition
            for K in KEYS:
                mo = [spec_get(mf, k, kind == 'node') for k in K]
                if not all(o for o, _ in mo): continue
                no = [spec_get(nf, k) for k in K]
                if not all(o for o, _ in no) or not all(_same(a[1], b[1]) for a, b in zip(no, mo)):
                    bad.append(f'n {list(pres)} meets {kind} {rel} but n[{K}] != m[{K}]')
    return cases, bad[:6], badm[:6]

def _same(a, b):
    return a is b if isinstance(a, SymVal) or isinstance(b, SymVal) else a == b

# ---------------------------------------------------------------- replay on the real classes
def replay_index(r):
    """a branch with eight nodes carrying one sentence (so the sentence bucket is no shortcut) and a lookup by each node kind"""
    from pytableaux.proof import Branch, Node, swnode, sdwnode
    from pytableaux.lang import Atomic
    s = Atomic(0, 0); out = []
    for mk, label in ((lambda w: swnode(s, w), 'sentence+world'), (lambda w: sdwnode(s, True, w), 'sentence+designated+world'), (lambda w: swnode(s, None), 'sentence'), (lambda w: sdwnode(s, False, None), 'sentence+designated')):
        b = Branch()
        for w in range(8): b.append(mk(w))
        for w in (0, 7):
            probe = mk(w)
            if not b.has(probe): out.append(f'{label}: branch holds {dict(probe)} eight-fold but has() says no')
            if not b.has(dict(probe)): out.append(f'{label}: has(dict) says no')
        c = b.copy()
        if not c.has(mk(3)): out.append(f'{label}: a copy of the branch does not find its node')
    return dict(reproduced=bool(out), detail='; '.join(out[:4]) or 'every lookup finds its node')

def replay_for_mapping(r):
    from pytableaux.proof import Node
    from pytableaux.lang import Atomic
    A = Atomic(0, 0); out = []
    for mp, want in (({'sentence': A, 'designated': False}, 'SentenceDesignationNode'), ({'sentence': A, 'designated': False, 'world': 0}, 'SentenceDesignationWorldNode'),
                     ({'sentence': A, 'world': 0}, 'SentenceWorldNode'), ({'world1': 0, 'world2': 0}, 'AccessNode'), ({'sentence': A, 'designated': True}, 'SentenceDesignationNode')):
        got = type(Node.for_mapping(mp)).__name__
        if got != want: out.append(f'for_mapping({ {k: str(v) for k, v in mp.items()} }) is a {got}, expected {want}')
    return dict(reproduced=bool(out), detail='; '.join(out[:3]) or 'node classes follow the properties present')

def register_replayers(ctx, prefix):
    ctx.replayers[f'{prefix}.Node.for_mapping'] = replay_for_mapping
    ctx.replayers[f'{prefix}.Index.'] = replay_index
    ctx.replayers[f'{prefix}.index.'] = replay_index
    ctx.replayers[f'{prefix}.Node.meets'] = replay_index
    ctx.replayers[f'{prefix}.Branch.search'] = replay_index
