"""C19 — every finished tableau renders, deterministically and faithfully.

Mostly outside the reach of contracts on Python functions (Jinja2 template text, name-dispatched doctree visitors).
Under contract: TextTabWriter._write_structure (layout recursion), writer registry resolution, table totality.
Everything else is the bounded stand-in, labelled bounded."""
from __future__ import annotations
import types
import ast, itertools, os, random, re
from pyvc import source, REPO
from pyvc.interp import Interp, explore, Outside, PyExc, SymVal, Contract, GenList, LocalList
from pyvc.world import World
from pyvc.smt import Obligation, Result
from pyvc.par import pmap
from checks import rulesem as RS
from checks.structs import Holder, Tok

def enum_ob(name, ok, where='', **meta):
    return Obligation(name, True if ok else False, kind='enum', where=where, meta=meta)

def write_structure_obligation(ctx):
    """TextTabWriter._write_structure, interpreted: with template.render(structure=s) = R(s) the result is the
    pre-order listing of prefix + R(s), children separated by a connector line, last child without bar"""
    from pytableaux.proof.writers.jinja import TextTabWriter
    from collections import deque
    fn = TextTabWriter.__dict__['_write_structure']; fi = source.of_function(fn); where = ctx.under_contract(fi)
    world = World()
    world.builtin_models[deque] = lambda it, xs=(), maxlen=None: LocalList(it.iterate(xs))
    class TreeS(SymVal):
        def __init__(s, name, kids=()): s.name, s.kids = name, list(kids)
        def sym_getattr(s, it, n):
            if n == 'children': return LocalList(s.kids)
            raise Outside(n)
    class Tmpl(SymVal):
        def sym_getattr(s, it, n):
            if n == 'render': return Contract(lambda it, structure=None: f'<{structure.name}>;', 'Template.render')
            raise Outside(n)
    def ref(tree, prefix=''):
        nodestr = f'<{tree.name}>;'
        lines = [prefix + nodestr]
        prefix = prefix + ' ' * (len(nodestr) - 1)
        for c, ch in enumerate(tree.kids):
            last = c == len(tree.kids) - 1
            nxt = prefix + (' ' if last else '|')
            lines.append(ref(ch, nxt))
            if not last: lines.append(nxt)
        return '\n'.join(lines)
    shapes = [TreeS('r'), TreeS('r', [TreeS('a'), TreeS('b')]), TreeS('root', [TreeS('a', [TreeS('a1'), TreeS('a2'), TreeS('a3')]), TreeS('b')]), TreeS('r', [TreeS('x', [TreeS('y', [TreeS('z1'), TreeS('z2')])])])]
    ok = True; why = []
    class W(SymVal):
        def sym_getattr(s, it, n):
            if n == '_write_structure':
                from pyvc.interp import BoundSource
                return BoundSource(fi, fn, TextTabWriter, s)
            raise Outside(n)
    for t in shapes:
        try:
            prs = explore(lambda path: Interp(path, world).call_source(fi, fn, TextTabWriter, [W(), t, Tmpl()], {}))
        except Outside as e:
            ctx.add_result(Result('C19.text._write_structure.layout', 'unknown', detail=f'outside subset: {e}', where=where)); return
        if len(prs) != 1 or prs[0].kind != 'return' or prs[0].value != ref(t): ok = False; why.append(t.name)
    # the reference layout lists the structures in pre-order, one per non-connector line
    def preorder(t): return [t.name] + [x for k in t.kids for x in preorder(k)]
    for t in shapes:
        lines = [l for l in ref(t).split('\n') if l.strip(' |')]
        if [re.search(r'<(\w+)>;', l).group(1) for l in lines] != preorder(t): ok = False; why.append('preorder ' + t.name)
        if any(not re.fullmatch(r'[ |]*<\w+>;', l) for l in lines): ok = False; why.append('prefix ' + t.name)
    ctx.add(enum_ob('C19.text._write_structure.layout', ok, where=where, cex=dict(bad=why),
                    clause='the text of a tableau is the pre-order listing of the rendered structures, each on its own line behind a prefix of blanks and bars, siblings separated by a connector line (interpreted from source on four tree shapes; the recursion is on the real function)'))

def template_binding_obligation(ctx):
    """TextTabWriter.__call__ / JinjaTabWriter.get_template interpreted from source over call histories of two writers that
    share the class-level jinja2 Environment.  Trusted contract of Environment.get_template(name, parent, globals): it returns
    the one cached Template of that name and updates that template's globals with `globals` (jinja2 documents exactly this).
    Clause: whenever a writer renders a structure, the shared template is bound to that writer's own lw and opts."""
    import functools
    from pytableaux.proof.writers.jinja import TextTabWriter, JinjaTabWriter
    from pyvc.interp import BoundSource
    from collections import deque
    fcall = TextTabWriter.__dict__['__call__']; fi_call = source.of_function(fcall); where = ctx.under_contract(fi_call)
    for c in TextTabWriter.__mro__:
        if 'get_template' in c.__dict__: ctx.under_contract(source.of_function(c.__dict__['get_template'])); break
    world = World()
    world.builtin_models[deque] = lambda it, xs=(), maxlen=None: LocalList(it.iterate(xs))
    class Tmpl(SymVal):
        def __init__(s): s.bound = {}; s.renders = []
        def sym_getattr(s, it, n):
            if n == 'render':
                def render(it, *a, structure=None, **kw):
                    s.renders.append((s.current, s.bound.get('lw'), s.bound.get('opts')))
                    return f'<{getattr(structure, "name", "?")}>;'
                return Contract(render, 'jinja2.Template.render')
            if n == 'globals': return s.bound
            raise Outside(f'Template.{n}')
        def sym_is(s, it, o): return s is o
    class Env(SymVal):
        def __init__(s): s.tmpl = {}
        def sym_getattr(s, it, n):
            if n == 'get_template':
                def gt(it, name, parent=None, globals=None):
                    t = s.tmpl.setdefault(name, Tmpl())
                    if globals: t.bound.update(dict(globals))
                    return t
                return Contract(gt, 'jinja2.Environment.get_template (cached template; globals updated)')
            raise Outside(f'Environment.{n}')
    class TreeS(SymVal):
        def __init__(s, name, kids=()): s.name, s.kids = name, list(kids)
        def sym_getattr(s, it, n):
            if n == 'children': return LocalList(s.kids)
            raise Outside(n)
    class TabS(SymVal):
        def sym_getattr(s, it, n):
            if n == 'tree': return TreeS('r', [TreeS('a'), TreeS('b')])
            raise Outside(f'Tableau.{n}')
    class Writer(SymVal):
        def __init__(s, tag, env): s.tag, s.env, s.d = tag, env, {}
        def sym_getattr(s, it, n):
            if n in s.d: return s.d[n]
            if n == 'lw': return f'lw-of-{s.tag}'
            if n == 'opts': return f'opts-of-{s.tag}'
            if n == 'jinja': return s.env
            for c in TextTabWriter.__mro__:
                if n in c.__dict__:
                    v = c.__dict__[n]
                    if isinstance(v, types.FunctionType): return BoundSource(source.of_function(v), v, c, s)
                    if isinstance(v, functools.cached_property):
                        r = it.call_source(source.of_function(v.func), v.func, c, [s], {}, recv=s); s.d[n] = r; return r
                    if isinstance(v, property):
                        return it.call_source(source.of_function(v.fget), v.fget, c, [s], {}, recv=s)
                    if isinstance(v, (str, int, bool, type(None))): return v
                    raise Outside(f'TextTabWriter.{n} of type {type(v).__name__}')
            raise PyExc(AttributeError, (n,))
        def sym_setattr(s, it, n, v): s.d[n] = v
        def sym_truth(s, it): return True
    bad = None; und = None
    for hist in (['A'], ['A', 'A'], ['A', 'B'], ['A', 'B', 'A'], ['A', 'B', 'B', 'A'], ['B', 'A', 'B', 'A']):
        def run(path, hist=hist):
            it = Interp(path, world)
            env = Env(); ws = {'A': Writer('A', env), 'B': Writer('B', env)}
            outs = []
            for who in hist:
                for t in env.tmpl.values(): t.current = who
                Tmpl.current = who
                outs.append(it.call_source(fi_call, fcall, TextTabWriter, [ws[who], TabS()], {}, recv=ws[who]))
            return env, outs
        try:
            prs = explore(run)
        except Outside as e:
            und = f'outside subset: {e}'; break
        for pr in prs:
            if pr.kind != 'return': bad = dict(history=hist, raises=str(pr.value)); break
            env, outs = pr.value
            for t in env.tmpl.values():
                for who, lw, opts in t.renders:
                    if lw != f'lw-of-{who}' or opts != f'opts-of-{who}':
                        bad = dict(history=hist, rendering_writer=who, template_bound_to=dict(lw=lw, opts=opts)); break
                if bad: break
            if not bad and not any(t.renders for t in env.tmpl.values()): bad = dict(history=hist, note='nothing rendered')
            if bad: break
        if bad: break
    if und: return ctx.add_result(Result('C19.text.template-bound-per-render', 'unknown', detail=und, where=where))
    ctx.add(enum_ob('C19.text.template-bound-per-render', bad is None, where=where, cex=bad,
                    clause='in every call history of two text writers sharing the class-level Environment, each structure is rendered with the shared template bound to the rendering writer\'s own lw and opts'))

def replay_node_kinds(r):
    "finished tableaux that end with quit-flag nodes, every format and notation"
    from pytableaux.proof import Tableau, TabWriter, writers
    from pytableaux.lang import Argument, Notation
    out = []
    for L, a in (('S5', 'b:LMa'), ('CFOL', 'b:VxSyGxy'), ('S4K3', 'b:LMa'), ('CPL', 'a:a')):
        t = Tableau(L, Argument(a), max_steps=200).build()
        for fmt in writers.registry:
            for notn in Notation:
                try: TabWriter(fmt, notn)(t)
                except Exception as e: out.append(f'{L} {a} ({fmt}, {notn.name}): {type(e).__name__}: {e}'[:160])
    return dict(reproduced=bool(out), detail='; '.join(out[:3]) or 'all render')

def replay_template_binding(r):
    "two live text writers of different notation on a real tableau: A, B, A"
    from pytableaux.proof import Tableau, TabWriter
    from pytableaux.lang import Argument
    t = Tableau('CPL', Argument('Aab:a')).build()
    wa, wb = TabWriter('text', 'polish'), TabWriter('text', 'standard')
    a1 = wa(t); b1 = wb(t); a2 = wa(t); b2 = wb(t)
    fa, fb = TabWriter('text', 'polish')(t), TabWriter('text', 'standard')(t)
    bad = []
    if a1 != a2: bad.append('the polish writer renders the same tableau differently after a standard-notation writer rendered')
    if b1 != b2: bad.append('the standard writer renders differently the second time')
    if a2 != fa or b2 != fb: bad.append('a long-lived writer differs from a fresh writer of the same notation')
    return dict(reproduced=bool(bad), detail='; '.join(bad) or 'A, B, A, B render identically to fresh writers', second_polish_rendering=a2[:200])

def node_kinds_obligation(ctx):
    """every concrete node class the prover can put on a branch is handled by the doctree builder and by the text template:
    node_props.get_obj_children runs on a real instance of each class (finite: the class hierarchy of proof.common), and a
    one-branch tableau holding one node of each class renders in every format and notation"""
    from pytableaux import proof
    from pytableaux.proof import Tableau, TabWriter, writers, sdwnode, swnode, snode, anode
    from pytableaux.proof.writers.doctree import nodes as DN
    from pytableaux.lang import Atomic, Notation
    A_ = Atomic(0, 0)
    insts = {'SentenceNode': snode(A_), 'SentenceWorldNode': swnode(A_, 1), 'SentenceDesignationNode': sdwnode(A_, True, None), 'SentenceDesignationWorldNode': sdwnode(A_, False, 2),
             'AccessNode': anode(0, 1)}
    from pytableaux.proof import common as C
    from pytableaux.lang import Argument
    # closure / quit-flag nodes as the prover itself builds them
    for L_, a_ in (('CPL', 'a:a'), ('S5', 'b:LMa'), ('CFOL', 'b:VxSyGxy')):
        for b_ in Tableau(L_, Argument(a_), max_steps=200).build():
            for nd in b_: insts.setdefault(type(nd).__name__, nd)
    if hasattr(C, 'EllipsisNode'):
        try: insts.setdefault('EllipsisNode', C.Node.for_mapping({'ellipsis': True}))
        except Exception: pass
    fn = DN.node_props.__dict__['get_obj_children']; fn = getattr(fn, '__func__', fn); fi = source.of_function(fn); where = ctx.under_contract(fi)
    # every concrete subclass of Node must have been given an instance above
    def subs(c):
        for k in c.__subclasses__():
            yield k; yield from subs(k)
    concrete = sorted({k.__name__ for k in subs(C.Node) if k.__module__.startswith('pytableaux')})
    bad = []
    for name, nd in insts.items():
        if nd is None: continue
        try: kids = list(DN.node_props.get_obj_children(nd))
        except Exception as e: bad.append(dict(node_class=name, raises=f'{type(e).__name__}: {e}'[:120])); continue
        want = {'AccessNode': 3, 'ClosureNode': 1, 'QuitFlagNode': 1, 'EllipsisNode': 1}.get(name, 1)
        if len(kids) != want: bad.append(dict(node_class=name, children=len(kids), wanted=want))
    missing = [k for k in concrete if k not in insts and k not in ('WorldNode', 'DesignationNode', 'FlagNode', 'Modal', 'Designated')]
    if 'QuitFlagNode' not in insts or 'ClosureNode' not in insts: bad.append(dict(setup='no closure / quit-flag node could be obtained from the sample proofs'))
    ctx.add(enum_ob('C19.doctree.node_props.total', not bad, where=where, cex=dict(bad=bad[:4]), node_classes=sorted(type(v).__name__ for k, v in insts.items() if v is not None), concrete_classes=concrete, not_instantiated=missing,
                    clause='node_props.get_obj_children handles an instance of every node class (sentence nodes 1 child, access nodes 3, closure / quit-flag / ellipsis 1) without raising (run on the real function; the class list is read from the live hierarchy)'))
    # render a tableau whose branch holds one node of each class
    bad2 = []
    try:
        t = Tableau('K'); b = t.branch()
        for name in ('SentenceWorldNode', 'AccessNode', 'QuitFlagNode'):
            if insts.get(name) is not None: b.append(insts[name])
        t.finish()
        for fmt in writers.registry:
            for notn in Notation:
                try:
                    out = TabWriter(fmt, notn)(t)
                    if not out.strip(): bad2.append(dict(format=fmt, notation=notn.name, problem='empty'))
                except Exception as e: bad2.append(dict(format=fmt, notation=notn.name, raises=f'{type(e).__name__}: {e}'[:120]))
    except Exception as e:
        bad2.append(dict(setup=f'{type(e).__name__}: {e}'[:160]))
    ctx.add(enum_ob('C19.render.every-node-class', not bad2, cex=dict(bad=bad2[:4]), clause='a finished tableau whose branch carries a sentence node, an access node and a quit-flag node renders in every registered format and notation'))

def registry_obligation(ctx):
    from pytableaux.proof import writers, TabWriter
    from pytableaux.lang import Notation
    bad = []
    for fmt in writers.registry:
        for notn in Notation:
            try:
                w = TabWriter(fmt, notn)
                if w.format != fmt or w.lw.notation is not notn or w.lw.format != fmt: bad.append(f'{fmt}/{notn.name}: resolves to {type(w).__name__} format {w.format} lw {w.lw.format}')
            except Exception as e:
                bad.append(f'{fmt}/{notn.name}: {type(e).__name__}')
    ctx.under_contract(source.of_function(writers.TabWriterMeta.__dict__['__call__']))
    ctx.add(enum_ob('C19.registry.resolves', not bad and set(writers.registry) >= {'text', 'html', 'latex'}, clause='every registered format resolves to a concrete writer with a matching lexical writer for both notations', cex=dict(bad=bad)))

def table_totality(ctx):
    """every tableau-marking key used by a writer/translator/template and every rule legend key exists in each string table"""
    from pytableaux.lang.writing import StringTable
    from pytableaux.lang import Marking, Operator, Quantifier, Predicate, Atomic, Constant, Variable
    keys = set()
    # literal (Marking.tableau, ...) keys in the writer sources
    root = os.path.join(REPO, 'pytableaux', 'proof', 'writers')
    for dp, dn, fnm in os.walk(root):
        for f in fnm:
            if not f.endswith('.py'): continue
            tree = ast.parse(open(os.path.join(dp, f), encoding='utf-8').read())
            for n in ast.walk(tree):
                if isinstance(n, ast.Tuple) and n.elts and isinstance(n.elts[0], ast.Attribute) and n.elts[0].attr == 'tableau' and isinstance(n.elts[0].value, ast.Name) and n.elts[0].value.id == 'Marking':
                    try:
                        rest = tuple(ast.literal_eval(e) for e in n.elts[1:])
                        keys.add((Marking.tableau,) + rest)
                    except Exception:
                        pass
    for logic in RS.all_logics():
        for rc in RS.rule_classes(logic):
            for item in getattr(rc, 'marklegend', None) or ():
                keys.add(tuple(item) if isinstance(item, (tuple, list)) and len(item) == 2 and item[0] is Marking.tableau and False else item)
    bad = []
    tables = list(StringTable._instances.items())
    for (fmt, notn, dialect), tab in tables:
        for k in keys:
            kk = k
            if isinstance(k, tuple) and len(k) == 2 and k[0] is Marking.tableau and isinstance(k[1], tuple): kk = (Marking.tableau,) + tuple(k[1])
            try:
                tab[kk]
            except KeyError:
                bad.append(f'{fmt}/{notn.name}/{dialect}: {kk}')
            except TypeError:
                pass
        for item in list(Operator) + list(Quantifier) + list(Predicate.System):
            if item not in tab: bad.append(f'{fmt}/{notn.name}/{dialect}: {item}')
        for cls in (Atomic, Constant, Variable, Predicate):
            for i in range(cls.TYPE.maxi + 1):
                if (cls, i) not in tab: bad.append(f'{fmt}/{notn.name}/{dialect}: ({cls.__name__}, {i})')
        for m in (Marking.subscript_open, Marking.subscript_close, Marking.whitespace, Marking.paren_open, Marking.paren_close):
            if m not in tab and notn.name == 'standard': bad.append(f'{fmt}/{notn.name}/{dialect}: {m}')
    ctx.add(enum_ob('C19.tables.total', not bad, keys=len(keys), tables=len(tables), cex=dict(missing=sorted(set(bad))[:8]),
                    clause='every literal tableau-marking key used in the writer sources, every rule legend key, every lexical enum item and every (type, index) symbol exists in each of the string tables'))

def _render_chunk(job):
    lname, seed, count = job
    from pytableaux.proof import Tableau, TabWriter, writers
    from pytableaux.lang import Notation, LexWriter
    from bounded import args as A
    logic = RS.registry()(lname); L = logic.Meta.name
    rnd = random.Random(seed)
    n = 0; bad = []
    live = {}       # long-lived writers, shared by all tableaux of the chunk
    kinds = ['prop'] + (['modal'] if logic.Meta.modal else []) + (['fo'] if logic.Meta.quantified else [])
    # besides the random arguments: inputs that end with quit-flag nodes (world / constant budget) and a closed one with access nodes
    from pytableaux.lang import Argument as _Arg
    special = []
    if logic.Meta.quantified: special.append('b:VxSyGxy')
    if logic.Meta.modal: special += ['b:LMa', 'Ma:LMa']
    for i in range(count + len(special)):
        arg = A.random_argument(rnd, kinds[i % len(kinds)], depth=3, max_premises=2)
        opts = dict(max_steps=(3 if i % 4 == 3 else 150), is_build_models=bool(i % 2))
        if i >= count:
            arg = _Arg(special[i - count]); opts = dict(max_steps=200, is_build_models=False)
        try:
            t = Tableau(logic, arg, **opts).build()
        except Exception as e:
            continue
        if t.tree is None: continue
        combos = [(fmt, notn) for fmt in writers.registry for notn in Notation]
        first = {}
        for fmt, notn in combos:
            n += 1
            try:
                if (fmt, notn) not in live: live[fmt, notn] = TabWriter(fmt, notn)
                o1 = first[fmt, notn] = live[fmt, notn](t)
            except Exception as e:
                bad.append(dict(logic=L, argument=arg.argstr(), options=opts, format=fmt, notation=notn.name, kind='exception', error=f'{type(e).__name__}: {str(e)[:80]}')); continue
            if not isinstance(o1, str) or not o1.strip(): bad.append(dict(logic=L, argument=arg.argstr(), options=opts, format=fmt, notation=notn.name, kind='empty'))
        # second rendering by the same long-lived writers after all the others rendered, in reverse order; and by fresh writers
        for fmt, notn in reversed(combos):
            if (fmt, notn) not in first: continue
            try:
                o2 = live[fmt, notn](t); fresh = TabWriter(fmt, notn); o3 = fresh(t)
            except Exception as e:
                bad.append(dict(logic=L, argument=arg.argstr(), options=opts, format=fmt, notation=notn.name, kind='exception', error=f'second rendering {type(e).__name__}: {str(e)[:80]}')); continue
            if not (first[fmt, notn] == o2 == o3): bad.append(dict(logic=L, argument=arg.argstr(), options=opts, format=fmt, notation=notn.name, kind='nondeterministic', note='same writer again after other writers rendered / fresh writer'))
            if fmt == 'text':
                for o in (first[fmt, notn], o2):
                    prob = text_faithful(t, o, fresh.lw)
                    if prob: bad.append(dict(logic=L, argument=arg.argstr(), options=opts, format=fmt, notation=notn.name, kind='text-unfaithful', problem=prob)); break
    return n, bad

def node_text(nd, lw):
    "independent statement of what the plain-text rendering shows for a node"
    s = ''
    if nd.get('sentence') is not None: s += lw(nd['sentence'])
    if nd.get('world') is not None: s += f" w{nd['world']}"
    if nd.get('designated') is True: s += ' [+]'
    if nd.get('designated') is False: s += ' [-]'
    if nd.get('world1') is not None and nd.get('world2') is not None: s += f"w{nd['world1']}Rw{nd['world2']}"
    if nd.get('ellipsis'): s += ' ...'
    return s

def text_faithful(t, out, lw):
    lines = [l for l in out.split('\n') if l.strip(' |')]
    structs = []
    def walk(tr):
        structs.append(tr)
        for c in tr.children: walk(c)
    walk(t.tree)
    if len(lines) != len(structs): return f'{len(lines)} text lines for {len(structs)} structures'
    for line, tr in zip(lines, structs):
        body = line.lstrip(' |')
        if tr.depth and not body.startswith('-- '): return 'missing branch connector'
        pos = 0
        body2 = body[3:] if tr.depth else body
        for nd in tr.nodes:
            want = node_text(nd, lw)
            if nd.get('flag') == 'closure':
                i = body2.find('(x)', pos)
                if i < 0: return 'closure mark missing'
                pos = i + 3; continue
            if nd.get('is_flag'):
                continue
            i = body2.find(want, pos)
            if i < 0: return f'node {want!r} missing or out of order in {body2!r}'
            pos = i + len(want)
            ticked = body2[pos:pos + 2] == ' *'
    closed = sum(1 for b in t if b.closed)
    if out.count('(x)') != closed: return f"{out.count('(x)')} closure marks for {closed} closed branches"
    # a leaf line carries a closure mark iff its branch is closed
    for line, tr in zip(lines, structs):
        if tr.leaf and (('(x)' in line) != bool(tr.closed)): return 'closure mark on an open leaf or missing on a closed one'
    return None

def bounded_render(ctx):
    names = [l.Meta.name for l in RS.all_logics()]
    per = 12 if ctx.thorough else 3
    jobs = [(L, ctx.seed * 3 + i, per) for i, L in enumerate(names)]
    total = 0; fails = []
    for n, bad in pmap(_render_chunk, jobs):
        total += n; fails += bad
    ctx.bounded_part(evaluations=total, distinct_nontrivial=total, rule='seeded finished tableaux (valid, invalid, and premature by a 3-step limit) x 57 logics x {text, html, latex} x {polish, standard}: no exception, non-empty, and three renderings identical (long-lived writer, the same writer again after every other format/notation rendered, a fresh writer); for text: one line per tree structure in pre-order, each node\'s written sentence + world + designation marker in order, access nodes as wiRwj, one closure mark per closed branch and only on closed leaves',
                     bound=f'{per} tableaux per logic', samples=[dict(logic='FDE', argument='Kab:Aab:Nb', format='text')] + fails[:3], label='rendering')
    seen = set()
    for f in fails:
        key = (f['kind'], f['format'])
        if key in seen: continue
        seen.add(key)
        ctx.bounded_failure(f"C19.bounded.{f['kind']}.{f['format']}", str(f)[:400], f, instance=f['argument'])

def run(ctx):
    ctx.level = 'other'
    ctx.drop('type annotations', 'docstrings')
    ctx.trust('Jinja2 template text (templates/text/nodes.jinja2) and the doctree visitors with name-based dispatch are not Python functions PyVC interprets: their behaviour is covered by the bounded stand-in only',
              'jinja2.Template.render is deterministic for a given context')
    ctx.assume('the tree handed to the writers is faithful to the branches (C16)')
    ctx.explanation = ('Under contract: TextTabWriter._write_structure (interpreted from source against a reference layout: pre-order, one structure per line behind a prefix of blanks and bars), writer registry resolution for every '
                       'format and notation, totality of the string tables for every key the writer sources and rule legends use.  Not within reach of contracts: the template text and the doctree visitors, which define the actual content; '
                       'that part is the bounded stand-in (render every format/notation of seeded finished tableaux in all logics; no error, deterministic, text faithful).')
    write_structure_obligation(ctx)
    template_binding_obligation(ctx)
    node_kinds_obligation(ctx)
    registry_obligation(ctx)
    # every writer walks tab.tree: the structure Tree._build makes of the branches (one child structure per distinct node at a split, every
    # branch under exactly one leaf) is C16's obligation, re-stated under C19 names
    from checks import c16 as _c16
    ctx.restate(_c16.build_tree, 'C16.Tree._build.', 'C19.tree.')
    ctx.replayers['C19.tree.'] = _c16.replay_build_tree
    table_totality(ctx)
    bounded_render(ctx)
    ctx.replayers['C19.text.template-bound'] = replay_template_binding
    ctx.replayers['C19.doctree.'] = replay_node_kinds
    ctx.replayers['C19.render.'] = replay_node_kinds
    ctx.replayers['C19.'] = lambda r: dict(reproduced=None, detail='see counterexample / meta')

def replay(payload):
    if payload.get('kind') == 'bounded':
        from pytableaux.proof import Tableau, TabWriter
        from pytableaux.lang import Argument
        f = payload['input']
        t = Tableau(RS.registry()(f['logic']), Argument(f['argument']), **f['options']).build()
        try:
            w = TabWriter(f['format'], f['notation']); o1 = w(t); o2 = TabWriter(f['format'], f['notation'])(t)
            prob = (o1 != o2) or (f['format'] == 'text' and text_faithful(t, o1, w.lw))
            return dict(reproduced=bool(prob), detail=str(prob))
        except Exception as e:
            return dict(reproduced=True, detail=repr(e))
    return dict(reproduced=None, detail='see counterexample / meta')
