"""C07 — each logic's truth tables are the documented ones."""
from __future__ import annotations
import itertools
from fractions import Fraction
import z3
from pyvc import source
from pyvc.interp import Interp, explore, Outside, PyExc
from pyvc.world import World
from pyvc.smt import Obligation, Result
from pyvc.par import pmap
from contracts.truth import TFModel, MvalSym, ValuesModel, spec_term, num
from spec import semantics as S

DROPS = ['type annotations', 'docstrings', 'decorators (none on these functions)']

def _registry():
    from pytableaux.logics import registry
    registry.import_all()
    return registry

def _operators():
    from pytableaux.lang import Operator
    return [o for o in Operator if o.name in S.OPERATORS]

def body_paths(logic, defcls, opname, fi):
    """symbolically execute the real body of `opname` (defined in defcls) for `logic`"""
    func = defcls.__dict__[opname]
    ar = S.ARITY[opname]
    vm = ValuesModel(logic.Meta.values)
    xs = [z3.Real(f'x{i}') for i in range(ar)]
    world = World()
    def run(path):
        it = Interp(path, world)
        tf = TFModel(logic)
        for x in xs: path.assume(vm.domain(x))
        args = [tf] + [MvalSym(x, tf.vm) for x in xs]
        return it.call_source(fi, func, defcls, args, {}, recv=tf)
    return xs, vm, explore(run)

def table_obligation(logic, opname, name, ctx, entry='method'):
    from pytableaux.lang import Operator
    tfcls = type(logic.Model.truth_function)
    sem = S.spec_of(logic.Meta.name)
    if entry == 'method':
        defcls = source.defining_class(tfcls, opname)
        fi = source.of_function(defcls.__dict__[opname])
        func = defcls.__dict__[opname]
        pre_args = []
    else:   # TruthFunction.__call__(oper, *args)
        defcls = source.defining_class(tfcls, '__call__')
        fi = source.of_function(defcls.__dict__['__call__'])
        func = defcls.__dict__['__call__']
        pre_args = [Operator[opname]]
    where = ctx.under_contract(fi)
    ar = S.ARITY[opname]
    vm = ValuesModel(logic.Meta.values)
    xs = [z3.Real(f'x{i}') for i in range(ar)]
    world = World()
    def run(path):
        it = Interp(path, world)
        tf = TFModel(logic)
        for x in xs: path.assume(vm.domain(x))
        args = [tf] + pre_args + [MvalSym(x, tf.vm) for x in xs]
        return it.call_source(fi, func, defcls, args, {}, recv=tf)
    try:
        paths = explore(run)
    except Outside as e:
        return ctx.add_result(Result(name, 'unknown', detail=f'outside subset: {e}', where=where))
    want = spec_term(sem, vm, opname, xs)
    clauses = []
    got_terms = []
    for p in paths:
        if p.kind == 'cut': continue
        if p.kind == 'raise':
            clauses.append(z3.Not(p.pc))           # no exception may be reachable
            got_terms.append((p.pc, None))
            continue
        rv = p.value
        if not isinstance(rv, MvalSym):
            clauses.append(z3.Not(p.pc)); got_terms.append((p.pc, None)); continue
        clauses.append(z3.Implies(p.pc, rv.t == want))
        got_terms.append((p.pc, rv.t))
    dom = [vm.domain(x) for x in xs]
    def decode(m):
        vals = [m.eval(x, model_completion=True) for x in xs]
        names = [vm.name_of(Fraction(v.numerator_as_long(), v.denominator_as_long())) for v in vals]
        got = 'exception'
        for pc, t in got_terms:
            if z3.is_true(m.eval(pc, model_completion=True)):
                if t is not None:
                    g = m.eval(t, model_completion=True)
                    got = vm.name_of(Fraction(g.numerator_as_long(), g.denominator_as_long()))
                break
        w = S.NAME[sem.op(opname, *(S.VAL[n] for n in names))]
        return dict(args=names, got=got, want=w)
    ob = Obligation(name, z3.And(*clauses) if clauses else z3.BoolVal(False), hyps=dom, where=where,
                    meta=dict(logic=logic.Meta.name, operator=opname, defined_in=defcls.__qualname__, entry=entry,
                              callee_contracts='spec tables of the classes the calls resolve to'),
                    decode=decode, enum_vars=xs)
    return ctx.add(ob)

# ------------------------------------------------------------------ BaseModel.truth_table (the observation point of C07)

from pyvc.interp import SymVal, Contract, GenList, LocalDict
from contracts.model import ValName

class _ValuesTok(SymVal):
    "cls.values: the Mval enum of the logic, iterated in declaration order"
    def __init__(self, names): self.names = list(names)
    def sym_iter(self, it): return [ValName(n) for n in self.names]
    def sym_len(self, it): return len(self.names)
    def sym_getitem(self, it, k):
        items = self.sym_iter(it)
        if isinstance(k, slice): return tuple(items[k])
        if isinstance(k, int): return items[k]
        n = k.name if isinstance(k, ValName) else k
        if n in self.names: return ValName(n)
        raise PyExc(KeyError, (n,))
    def sym_is(self, it, o): return self is o
    def sym_truth(self, it): return True

class _TFTok(SymVal):
    "cls.truth_function under its contract: every operator method is the spec table (C07.<L>.<op>.table)"
    def __init__(self, sem): self.sem = sem
    def sym_getattr(self, it, name):
        if name in S.OPERATORS:
            def f(it, *vals):
                if len(vals) != S.ARITY[name] or not all(isinstance(v, ValName) for v in vals): raise PyExc(TypeError, ('truth function arguments',))
                return ValName(S.NAME[self.sem.op(name, *[S.VAL[v.name] for v in vals])])
            return Contract(f, f'truth_function.{name}')
        raise Outside(f'truth_function.{name}')
    def sym_call(self, it, args, kw):
        oper, vals = args[0], args[1:]
        return self.sym_getattr(it, oper.name).fn(it, *vals)

class _Record(SymVal):
    def __init__(self, **kw): self.kw = kw
    def sym_getattr(self, it, name):
        if name in self.kw: return self.kw[name]
        raise PyExc(AttributeError, (name,))

class _ModelClsTok(SymVal):
    """the model class as truth_table sees it: values, truth_function (under contract); anything the code stores on the
    class persists across the calls of one history; other attributes are read from the real class and lifted"""
    def __init__(self, logic):
        self.logic = logic; self.sem = S.spec_of(logic.Meta.name); self.attrs = {}
        self.vals = _ValuesTok([m.name for m in logic.Model.values])
    def _lift(self, v, name):
        from pytableaux.models import Mval
        if isinstance(v, Mval): return ValName(v.name)
        if isinstance(v, type) and issubclass(v, Mval): return self.vals
        if isinstance(v, (tuple, list)): return type(v)(self._lift(x, name) for x in v) if isinstance(v, tuple) else [self._lift(x, name) for x in v]
        if isinstance(v, (frozenset, set)): return frozenset(self._lift(x, name) for x in v)
        if isinstance(v, (int, float, str, bool, type(None))): return v
        if isinstance(v, dict): return LocalDict()  # class-level mutable state starts as at class creation; the history fills it
        raise Outside(f'Model.{name} of type {type(v).__name__} (no contract)')
    def sym_getattr(self, it, name):
        if name in self.attrs: return self.attrs[name]
        if name == 'values': return self.vals
        if name == 'truth_function': return _TFTok(self.sem)
        try: v = getattr(self.logic.Model, name)
        except AttributeError as e: raise PyExc(AttributeError, e.args)
        r = self._lift(v, name)
        if isinstance(v, (dict, list, set)): self.attrs[name] = r
        return r
    def sym_setattr(self, it, name, v): self.attrs[name] = v
    def sym_truth(self, it): return True

def _tt_want(sem, names, opname, reverse):
    vs = list(reversed(names)) if reverse else list(names)
    inputs = list(itertools.product(vs, repeat=S.ARITY[opname]))
    outputs = [S.NAME[sem.op(opname, *[S.VAL[n] for n in tup])] for tup in inputs]
    return inputs, outputs

HISTORIES = [(False,), (True,), (False, True), (True, False), (False, False), (True, True), (False, True, False), (True, False, True)]

def truth_table_obligation(logic, opname, ctx):
    """V: BaseModel.truth_table interpreted from source over value names, the truth function under its contract; every history of
    calls of length <= 3 over reverse in {False, True} on one class (state the code keeps on the class persists)"""
    from pytableaux import models as Mo
    from pytableaux.lang import Operator
    L = logic.Meta.name
    sem = S.spec_of(L)
    raw = Mo.BaseModel.__dict__['truth_table']
    for c in logic.Model.__mro__:
        if 'truth_table' in c.__dict__: raw, defc = c.__dict__['truth_table'], c; break
    fn = raw.__func__ if isinstance(raw, classmethod) else raw
    fi = source.of_function(fn)
    where = ctx.under_contract(fi)
    names = [m.name for m in logic.Model.values]
    world = World()
    world.contract(Operator, lambda it, x: Operator(x), name='Operator(x) (enum lookup, executed natively on the concrete operator)')
    world.contract(Mo.TruthTable, lambda it, **kw: _Record(**kw), name='TruthTable (data class: fields as given)')
    world.contract(Mo.MapProxy, lambda it, d=None: ({} if d is None else d), name='MapProxy (read-only view of the mapping)')
    bad = None; und = None
    for hist in HISTORIES:
        def run(path, hist=hist):
            it = Interp(path, world)
            cls = _ModelClsTok(logic)
            outs = []
            for rev in hist:
                outs.append(it.call_source(fi, fn, defc, [cls, Operator[opname]], dict(reverse=rev), recv=cls))
            return outs
        try:
            prs = explore(run)
        except Outside as e:
            und = f'outside subset: {e}'; break
        for pr in prs:
            if pr.kind != 'return': bad = dict(history=list(hist), raises=str(pr.value)); break
            for rev, rec in zip(hist, pr.value):
                wi, wo = _tt_want(sem, names, opname, rev)
                try:
                    gi = [tuple(v.name for v in tup) for tup in rec.kw['inputs']]
                    go = [v.name for v in rec.kw['outputs']]
                    gm = {tuple(v.name for v in k): v_.name for k, v_ in dict(rec.kw['mapping']).items()}
                except Exception as e:
                    bad = dict(history=list(hist), malformed=repr(e)); break
                if gi != wi or go != wo or gm != dict(zip(wi, wo)) or rec.kw.get('operator') is not Operator[opname]:
                    k = next((i for i, (a, b) in enumerate(zip(go, wo)) if a != b), None)
                    bad = dict(history=list(hist), reverse=rev, first_bad_row=(dict(args=list(wi[k]), got=go[k], want=wo[k]) if k is not None and gi == wi else dict(inputs_differ=gi != wi, mapping_differs=True)))
                    break
            if bad: break
        if bad: break
    name = f'C07.{L}.truth_table.{opname}'
    if und: return ctx.add_result(Result(name, 'unknown', detail=und, where=where))
    ctx.add(Obligation(name, bad is None, kind='enum', where=where,
                       meta=dict(logic=L, operator=opname, histories=len(HISTORIES), clause='for every call history: inputs = product(values, reversed iff reverse), outputs[i] = table(inputs[i]), mapping = zip(inputs, outputs)', cex=bad)))

def truth_table_real(logic, opname, ctx):
    """F: the real classmethod on the same histories, against the real truth function applied row by row (whether that
    function is the documented table is C07.<L>.<op>.table; a defect there is not reported a second time here)"""
    from pytableaux.lang import Operator
    L = logic.Meta.name
    rt = real_table(logic, opname)
    names = [m.name for m in logic.Model.values]
    bad = None
    for hist in HISTORIES:
        for rev in hist:
            try:
                t = logic.Model.truth_table(Operator[opname], reverse=rev)
                gi = [tuple(v.name for v in tup) for tup in t.inputs]; go = [v.name for v in t.outputs]
                gm = {tuple(v.name for v in k): v_.name for k, v_ in t.mapping.items()}
            except Exception as e:
                bad = dict(history=list(hist), reverse=rev, raises=repr(e)); break
            vs = list(reversed(names)) if rev else list(names)
            wi = list(itertools.product(vs, repeat=S.ARITY[opname])); wo = [rt[tup] for tup in wi]
            if gi != wi or go != wo or gm != dict(zip(wi, wo)):
                k = next((i for i, (a, b) in enumerate(zip(go, wo)) if a != b), None)
                bad = dict(history=list(hist), reverse=rev, row=(dict(args=list(wi[k]), got=go[k], want=wo[k]) if k is not None and gi == wi else None)); break
        if bad: break
    ctx.add(Obligation(f'C07.{L}.truth_table.{opname}.enum', bad is None, kind='enum', meta=dict(logic=L, operator=opname, cex=bad)))

def real_table(logic, opname):
    tf = logic.Model.truth_function
    vals = list(logic.Model.values)
    return {tuple(v.name for v in tup): getattr(tf, opname)(*tup).name for tup in itertools.product(vals, repeat=S.ARITY[opname])}

def enum_ob(name, ok, where='', **meta):
    return Obligation(name, True if ok else False, kind='enum', where=where, meta=meta)

def run(ctx):
    reg = _registry()
    ctx.level = 'proof'
    ctx.exhaustive = True
    ctx.drop(*DROPS)
    ctx.trust('metaclass code executed at import (LogicMetaMeta.__new__, ModelsMeta, EbcMeta): results are checked (values/designated obligations), the code is not verified',
              'Mval rich comparison/floordiv dunders (models/__init__.py Mval.__eq__/__lt__/.../__floordiv__) are modelled: name comparison for str, numeric otherwise; cross-checked by the enumerated `.enum` obligations which run the real methods on every tuple',
              'builtin axioms: min/max return the first extremal argument; map/starmap apply the callee pointwise',
              'spec/semantics.py (the oracle) is hand-written from the literature and doc prose')
    ctx.assume('truth values are dyadic floats, encoded as exact z3 rationals',
               'CPython semantics of the interpreted subset as encoded by pyvc/interp.py')
    ctx.explanation = ('For every registered logic and each of the 8 truth-functional operators the real method body that '
                       'Model.truth_function.<Op> resolves to is symbolically executed over the logic\'s value sort with callee calls '
                       'replaced by the callee\'s spec table, and z3 proves body(args) == spec table for all value tuples; the same '
                       'is done through TruthFunction.__call__.  Every table is additionally enumerated on the real code (backend enum).')
    ops = _operators()
    for lname in reg:
        logic = reg(lname)
        L = logic.Meta.name
        sem = S.spec_of(L)
        M = logic.Meta
        vals_ok = [m.name for m in M.values] == [S.NAME[v] for v in sem.values]
        ctx.add(enum_ob(f'C07.{L}.values', vals_ok, got=[m.name for m in M.values], want=[S.NAME[v] for v in sem.values],
                        cex=dict(got=[m.name for m in M.values])))
        des_ok = {m.name for m in M.designated_values} == {S.NAME[v] for v in sem.designated}
        ctx.add(enum_ob(f'C07.{L}.designated', des_ok, got=sorted(m.name for m in M.designated_values), want=sorted(S.NAME[v] for v in sem.designated),
                        cex=dict(got=sorted(m.name for m in M.designated_values))))
        ctx.add(enum_ob(f'C07.{L}.unassigned', M.unassigned_value.name == S.NAME[sem.unassigned], got=M.unassigned_value.name,
                        cex=dict(got=M.unassigned_value.name)))
        # the values a model hands to the truth function are THE members of the logic's value set (same objects): the unassigned
        # value every unset atom evaluates to, the designated values, and the model class's own value set
        members = list(M.values)
        foreign = [f'{what} {v!r} of {type(v).__name__}' for what, v in [('unassigned_value', M.unassigned_value)] + [('designated value', d) for d in M.designated_values]
                   + [('Model.values member', v) for v in logic.Model.values] + [('Model.unassigned_value', getattr(logic.Model, 'unassigned_value', M.unassigned_value))]
                   if not any(v is m for m in members)]
        ctx.add(enum_ob(f'C07.{L}.value-set.own-members', not foreign, logic=L, kind='value-set', cex=dict(foreign=foreign[:4]) if foreign else None,
                        clause='Meta.unassigned_value, every designated value and every Model.values member is a member (same object) of Meta.values'))
        # numeric order of the enum must respect the names the bodies compare with (F least, T greatest)
        nums = {m.name: float(m.value) for m in M.values}
        ctx.add(enum_ob(f'C07.{L}.encoding', nums.get('F') == 0.0 and nums.get('T') == 1.0 and all(0 <= v <= 1 for v in nums.values()) and len(set(nums.values())) == len(nums),
                        nums=nums, cex=dict(nums=nums)))
        if not vals_ok:
            continue
        for op in ops:
            table_obligation(logic, op.name, f'C07.{L}.{op.name}.table', ctx)
            table_obligation(logic, op.name, f'C07.{L}.__call__.{op.name}', ctx, entry='call')
            # F: the real method on every tuple
            rt = real_table(logic, op.name)
            st = sem.table(op.name)
            bad = [dict(args=list(k), got=rt[k], want=st[k]) for k in st if rt.get(k) != st[k]]
            tfcls = type(logic.Model.truth_function)
            fi = source.of_function(source.defining_class(tfcls, op.name).__dict__[op.name])
            ctx.add(Obligation(f'C07.{L}.{op.name}.table.enum', not bad, kind='enum', where=fi.where,
                               meta=dict(logic=L, operator=op.name, tuples=len(st), cex=(bad[0] if bad else None), cex_all=bad or None)))
            # ... and on the value objects a model really passes: an unset atom's value (Meta.unassigned_value) joined with each member
            badu = []
            u = M.unassigned_value
            for tup in itertools.product([u] + list(logic.Model.values), repeat=S.ARITY[op.name]):
                if not any(x is u for x in tup): continue
                try: got = getattr(logic.Model.truth_function, op.name)(*tup).name
                except Exception as e: got = f'exception {type(e).__name__}'
                want = rt.get(tuple(x.name for x in tup))      # the same tuple on the value set's own members (their agreement with the documented table is the .table.enum obligation)
                if got != want: badu.append(dict(args=[x.name for x in tup], got=got, want=want, unassigned_at=[i for i, x in enumerate(tup) if x is u]))
            ctx.add(Obligation(f'C07.{L}.{op.name}.table.unassigned-operand', not badu, kind='enum', where=fi.where,
                               meta=dict(logic=L, operator=op.name, kind='unassigned-operand', cex=(badu[0] if badu else None), cex_all=badu or None)))
        for op in ops:
            truth_table_obligation(logic, op.name, ctx)
            truth_table_real(logic, op.name, ctx)
        # definitional identities on the real code (C07 statement), all tuples
        tf = logic.Model.truth_function
        vals = list(logic.Model.values)
        def ident(nm, f):
            bad = []
            for tup in itertools.product(vals, repeat=2):
                try: ok = f(*tup)
                except Exception as e: ok = False
                if not ok: bad.append(dict(args=[v.name for v in tup]))
            ctx.add(Obligation(f'C07.{L}.{nm}.definition', not bad, kind='enum',
                               meta=dict(logic=L, cex=(bad[0] if bad else None), cex_all=bad or None)))
        ident('MaterialConditional', lambda a, b: tf.MaterialConditional(a, b) == tf.Disjunction(tf.Negation(a), b))
        ident('MaterialBiconditional', lambda a, b: tf.MaterialBiconditional(a, b) == tf.Conjunction(tf.MaterialConditional(a, b), tf.MaterialConditional(b, a)))
        ident('Biconditional', lambda a, b: tf.Biconditional(a, b) == tf.Conjunction(tf.Conditional(a, b), tf.Conditional(b, a)))
        if 'Assertion' not in sem.native:
            ident('Assertion', lambda a, b: tf.Assertion(a) == a)
        if 'Conditional' not in sem.native:
            ident('Conditional', lambda a, b: tf.Conditional(a, b) == tf.MaterialConditional(a, b))
        # modal extension: exactly the truth-functional tables of its base logic
        if sem.modal:
            base = _base_name(L)
            if base is not None:
                bl = reg(base)
                for op in ops:
                    same = real_table(logic, op.name) == real_table(bl, op.name)
                    ctx.add(Obligation(f'C07.{L}.same-as-base.{op.name}', same, kind='enum', meta=dict(logic=L, base=base, cex=dict(base=base))))
    # the value a MODEL assigns to op(s1..sn) is the table applied to the values of the parts: BaseModel.value_of_operated (and its
    # overrides) interpreted from source on every value tuple of every operator -- C08's clause, re-stated under C07 names
    from checks import c08 as _c08
    for res, funcs in pmap(_c08.work_operated, [RS_reg_name for RS_reg_name in reg]):
        for r in res:
            r.name = r.name.replace('C08.', 'C07.model.', 1); ctx.add_result(r)
        ctx.functions.update(funcs)
    ctx.replayers['C07.model.'] = replay_model_value
    ctx.replayers['C07.'] = lambda r: replay(dict(obligation=r.name, counterexample=r.cex, meta=r.meta))

def _base_name(L):
    if L in ('K', 'D', 'T', 'S4', 'S5'): return 'CFOL'
    for pre in ('S4', 'S5', 'K', 'T'):
        if L.startswith(pre) and len(L) > len(pre): return L[len(pre):]
    return None

def replay_model_value(r):
    "a real model with atoms set to the counterexample tuple: value_of(op(atoms)) against the real truth function"
    cex = r.cex or (r.meta or {}).get('cex') or {}
    L = (r.meta or {}).get('logic'); op = cex.get('operator'); args = cex.get('args')
    if not (L and op and args): return dict(reproduced=None, detail='see counterexample / meta')
    from pytableaux.lang import Atomic, Operator
    logic = _registry()(L)
    m = logic.Model(); atoms = [Atomic(i, 0) for i in range(len(args))]
    for a, v in zip(atoms, args): m.set_atomic_value(a, v)
    m.finish()
    s = Operator[op](*atoms)
    got = m.value_of(s).name; want = getattr(logic.Model.truth_function, op)(*[logic.Model.values[v] for v in args]).name
    return dict(reproduced=got != want, detail=f'{L}: model with {dict(zip(map(str, atoms), args))}: value_of({s}) = {got}, truth function gives {want}')

def replay(payload):
    """re-evaluate the real truth function on the counterexample tuple"""
    reg = _registry()
    meta = payload.get('meta') or {}
    cex = payload.get('counterexample') or {}
    L, op = meta.get('logic'), meta.get('operator')
    if L and op and isinstance(cex, dict) and 'history' in cex:
        from pytableaux.lang import Operator
        logic = reg(L); tf = logic.Model.truth_function
        for rev in cex['history']:
            t = logic.Model.truth_table(Operator[op], reverse=rev)
            for tup, out in zip(t.inputs, t.outputs):
                want = getattr(tf, op)(*tup)
                if out != want or t.mapping.get(tup) != want:
                    return dict(reproduced=True, detail=f"after the calls truth_table({op}, reverse=r) for r in {cex['history']}: the table returned for reverse={rev} maps ({', '.join(v.name for v in tup)}) to {out.name}, the truth function gives {want.name}")
        return dict(reproduced=False, detail='the real truth_table agrees with the truth function on this history')
    if meta.get('kind') == 'value-set' and L:
        M = reg(L).Meta
        foreign = [repr(v) for v in [M.unassigned_value, *M.designated_values, *reg(L).Model.values] if not any(v is m for m in M.values)]
        return dict(reproduced=bool(foreign), detail=f'{L}: values handed to the truth function that are not members of Meta.values: {foreign}' if foreign else f'{L}: all are members')
    if meta.get('kind') == 'unassigned-operand' and L and op and isinstance(cex, dict) and 'args' in cex:
        logic = reg(L); u = logic.Meta.unassigned_value
        args = [u if i in cex.get('unassigned_at', []) else logic.Model.values[n] for i, n in enumerate(cex['args'])]
        try: got = getattr(logic.Model.truth_function, op)(*args).name
        except Exception as e: got = f'exception {e!r}'
        return dict(reproduced=got != cex.get('want'), detail=f'{L}.Model.truth_function.{op} on {cex["args"]} with Meta.unassigned_value at {cex.get("unassigned_at")} = {got}; table says {cex.get("want")}')
    if not (L and op and isinstance(cex, dict) and 'args' in cex):
        return dict(reproduced=None, detail='ground obligation; see meta')
    logic = reg(L)
    sem = S.spec_of(L)
    tf = logic.Model.truth_function
    args = [logic.Model.values[n] for n in cex['args']]
    try:
        got = getattr(tf, op)(*args).name
    except Exception as e:
        got = f'exception {e!r}'
    want = S.NAME[sem.op(op, *(S.VAL[n] for n in cex['args']))]
    return dict(reproduced=got != want, detail=f'{L}.Model.truth_function.{op}({", ".join(cex["args"])}) = {got}; spec says {want}',
                call=f'registry("{L}").Model.truth_function.{op}(*{cex["args"]})')
