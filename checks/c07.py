"""C07 — each logic's truth tables are the documented ones."""
from __future__ import annotations
import itertools
from fractions import Fraction
import z3
from pyvc import source
from pyvc.interp import Interp, explore, Outside, PyExc
from pyvc.world import World
from pyvc.smt import Obligation, Result
from contracts.truth import TFModel, MvalSym, ValuesModel, spec_term, num
from spec import semantics as S

DROPS = ['type annotations', 'docstrings', 'decorators (none on these functions)']

def _registry():
    from pytableaux.logics import registry
    registry.import_all()
    return registry

def _operators():
    from pytableaux.lang import Operator
    return [o for o in Operator if o.name in S.OPERATORS]

def body_paths(logic, defcls, opname, fi):
    """symbolically execute the real body of `opname` (defined in defcls) for `logic`"""
    func = defcls.__dict__[opname]
    ar = S.ARITY[opname]
    vm = ValuesModel(logic.Meta.values)
    xs = [z3.Real(f'x{i}') for i in range(ar)]
    world = World()
    def run(path):
        it = Interp(path, world)
        tf = TFModel(logic)
        for x in xs: path.assume(vm.domain(x))
        args = [tf] + [MvalSym(x, tf.vm) for x in xs]
        return it.call_source(fi, func, defcls, args, {}, recv=tf)
    return xs, vm, explore(run)

def table_obligation(logic, opname, name, ctx, entry='method'):
    from pytableaux.lang import Operator
    tfcls = type(logic.Model.truth_function)
    sem = S.spec_of(logic.Meta.name)
    if entry == 'method':
        defcls = source.defining_class(tfcls, opname)
        fi = source.of_function(defcls.__dict__[opname])
        func = defcls.__dict__[opname]
        pre_args = []
    else:   # TruthFunction.__call__(oper, *args)
        defcls = source.defining_class(tfcls, '__call__')
        fi = source.of_function(defcls.__dict__['__call__'])
        func = defcls.__dict__['__call__']
        pre_args = [Operator[opname]]
    where = ctx.under_contract(fi)
    ar = S.ARITY[opname]
    vm = ValuesModel(logic.Meta.values)
    xs = [z3.Real(f'x{i}') for i in range(ar)]
    world = World()
    def run(path):
        it = Interp(path, world)
        tf = TFModel(logic)
        for x in xs: path.assume(vm.domain(x))
        args = [tf] + pre_args + [MvalSym(x, tf.vm) for x in xs]
        return it.call_source(fi, func, defcls, args, {}, recv=tf)
    try:
        paths = explore(run)
    except Outside as e:
        return ctx.add_result(Result(name, 'unknown', detail=f'outside subset: {e}', where=where))
    want = spec_term(sem, vm, opname, xs)
    clauses = []
    got_terms = []
    for p in paths:
        if p.kind == 'cut': continue
        if p.kind == 'raise':
            clauses.append(z3.Not(p.pc))           # no exception may be reachable
            got_terms.append((p.pc, None))
            continue
        rv = p.value
        if not isinstance(rv, MvalSym):
            clauses.append(z3.Not(p.pc)); got_terms.append((p.pc, None)); continue
        clauses.append(z3.Implies(p.pc, rv.t == want))
        got_terms.append((p.pc, rv.t))
    dom = [vm.domain(x) for x in xs]
    def decode(m):
        vals = [m.eval(x, model_completion=True) for x in xs]
        names = [vm.name_of(Fraction(v.numerator_as_long(), v.denominator_as_long())) for v in vals]
        got = 'exception'
        for pc, t in got_terms:
            if z3.is_true(m.eval(pc, model_completion=True)):
                if t is not None:
                    g = m.eval(t, model_completion=True)
                    got = vm.name_of(Fraction(g.numerator_as_long(), g.denominator_as_long()))
                break
        w = S.NAME[sem.op(opname, *(S.VAL[n] for n in names))]
        return dict(args=names, got=got, want=w)
    ob = Obligation(name, z3.And(*clauses) if clauses else z3.BoolVal(False), hyps=dom, where=where,
                    meta=dict(logic=logic.Meta.name, operator=opname, defined_in=defcls.__qualname__, entry=entry,
                              callee_contracts='spec tables of the classes the calls resolve to'),
                    decode=decode, enum_vars=xs)
    return ctx.add(ob)

def real_table(logic, opname):
    tf = logic.Model.truth_function
    vals = list(logic.Model.values)
    return {tuple(v.name for v in tup): getattr(tf, opname)(*tup).name for tup in itertools.product(vals, repeat=S.ARITY[opname])}

def enum_ob(name, ok, where='', **meta):
    return Obligation(name, True if ok else False, kind='enum', where=where, meta=meta)

def run(ctx):
    reg = _registry()
    ctx.level = 'proof'
    ctx.exhaustive = True
    ctx.drop(*DROPS)
    ctx.trust('metaclass code executed at import (LogicMetaMeta.__new__, ModelsMeta, EbcMeta): results are checked (values/designated obligations), the code is not verified',
              'Mval rich comparison/floordiv dunders (models/__init__.py Mval.__eq__/__lt__/.../__floordiv__) are modelled: name comparison for str, numeric otherwise; cross-checked by the enumerated `.enum` obligations which run the real methods on every tuple',
              'builtin axioms: min/max return the first extremal argument; map/starmap apply the callee pointwise',
              'spec/semantics.py (the oracle) is hand-written from the literature and doc prose')
    ctx.assume('truth values are dyadic floats, encoded as exact z3 rationals',
               'CPython semantics of the interpreted subset as encoded by pyvc/interp.py')
    ctx.explanation = ('For every registered logic and each of the 8 truth-functional operators the real method body that '
                       'Model.truth_function.<Op> resolves to is symbolically executed over the logic\'s value sort with callee calls '
                       'replaced by the callee\'s spec table, and z3 proves body(args) == spec table for all value tuples; the same '
                       'is done through TruthFunction.__call__.  Every table is additionally enumerated on the real code (backend enum).')
    ops = _operators()
    for lname in reg:
        logic = reg(lname)
        L = logic.Meta.name
        sem = S.spec_of(L)
        M = logic.Meta
        vals_ok = [m.name for m in M.values] == [S.NAME[v] for v in sem.values]
        ctx.add(enum_ob(f'C07.{L}.values', vals_ok, got=[m.name for m in M.values], want=[S.NAME[v] for v in sem.values],
                        cex=dict(got=[m.name for m in M.values])))
        des_ok = {m.name for m in M.designated_values} == {S.NAME[v] for v in sem.designated}
        ctx.add(enum_ob(f'C07.{L}.designated', des_ok, got=sorted(m.name for m in M.designated_values), want=sorted(S.NAME[v] for v in sem.designated),
                        cex=dict(got=sorted(m.name for m in M.designated_values))))
        ctx.add(enum_ob(f'C07.{L}.unassigned', M.unassigned_value.name == S.NAME[sem.unassigned], got=M.unassigned_value.name,
                        cex=dict(got=M.unassigned_value.name)))
        # numeric order of the enum must respect the names the bodies compare with (F least, T greatest)
        nums = {m.name: float(m.value) for m in M.values}
        ctx.add(enum_ob(f'C07.{L}.encoding', nums.get('F') == 0.0 and nums.get('T') == 1.0 and all(0 <= v <= 1 for v in nums.values()) and len(set(nums.values())) == len(nums),
                        nums=nums, cex=dict(nums=nums)))
        if not vals_ok:
            continue
        for op in ops:
            table_obligation(logic, op.name, f'C07.{L}.{op.name}.table', ctx)
            table_obligation(logic, op.name, f'C07.{L}.__call__.{op.name}', ctx, entry='call')
            # F: the real method on every tuple
            rt = real_table(logic, op.name)
            st = sem.table(op.name)
            bad = [dict(args=list(k), got=rt[k], want=st[k]) for k in st if rt.get(k) != st[k]]
            tfcls = type(logic.Model.truth_function)
            fi = source.of_function(source.defining_class(tfcls, op.name).__dict__[op.name])
            ctx.add(Obligation(f'C07.{L}.{op.name}.table.enum', not bad, kind='enum', where=fi.where,
                               meta=dict(logic=L, operator=op.name, tuples=len(st), cex=(bad[0] if bad else None), cex_all=bad or None)))
        # definitional identities on the real code (C07 statement), all tuples
        tf = logic.Model.truth_function
        vals = list(logic.Model.values)
        def ident(nm, f):
            bad = []
            for tup in itertools.product(vals, repeat=2):
                try: ok = f(*tup)
                except Exception as e: ok = False
                if not ok: bad.append(dict(args=[v.name for v in tup]))
            ctx.add(Obligation(f'C07.{L}.{nm}.definition', not bad, kind='enum',
                               meta=dict(logic=L, cex=(bad[0] if bad else None), cex_all=bad or None)))
        ident('MaterialConditional', lambda a, b: tf.MaterialConditional(a, b) == tf.Disjunction(tf.Negation(a), b))
        ident('MaterialBiconditional', lambda a, b: tf.MaterialBiconditional(a, b) == tf.Conjunction(tf.MaterialConditional(a, b), tf.MaterialConditional(b, a)))
        ident('Biconditional', lambda a, b: tf.Biconditional(a, b) == tf.Conjunction(tf.Conditional(a, b), tf.Conditional(b, a)))
        if 'Assertion' not in sem.native:
            ident('Assertion', lambda a, b: tf.Assertion(a) == a)
        if 'Conditional' not in sem.native:
            ident('Conditional', lambda a, b: tf.Conditional(a, b) == tf.MaterialConditional(a, b))
        # modal extension: exactly the truth-functional tables of its base logic
        if sem.modal:
            base = _base_name(L)
            if base is not None:
                bl = reg(base)
                for op in ops:
                    same = real_table(logic, op.name) == real_table(bl, op.name)
                    ctx.add(Obligation(f'C07.{L}.same-as-base.{op.name}', same, kind='enum', meta=dict(logic=L, base=base, cex=dict(base=base))))
    ctx.replayers['C07.'] = lambda r: replay(dict(obligation=r.name, counterexample=r.cex, meta=r.meta))

def _base_name(L):
    if L in ('K', 'D', 'T', 'S4', 'S5'): return 'CFOL'
    for pre in ('S4', 'S5', 'K', 'T'):
        if L.startswith(pre) and len(L) > len(pre): return L[len(pre):]
    return None

def replay(payload):
    """re-evaluate the real truth function on the counterexample tuple"""
    reg = _registry()
    meta = payload.get('meta') or {}
    cex = payload.get('counterexample') or {}
    L, op = meta.get('logic'), meta.get('operator')
    if not (L and op and isinstance(cex, dict) and 'args' in cex):
        return dict(reproduced=None, detail='ground obligation; see meta')
    logic = reg(L)
    sem = S.spec_of(L)
    tf = logic.Model.truth_function
    args = [logic.Model.values[n] for n in cex['args']]
    try:
        got = getattr(tf, op)(*args).name
    except Exception as e:
        got = f'exception {e!r}'
    want = S.NAME[sem.op(op, *(S.VAL[n] for n in cex['args']))]
    return dict(reproduced=got != want, detail=f'{L}.Model.truth_function.{op}({", ".join(cex["args"])}) = {got}; spec says {want}',
                call=f'registry("{L}").Model.truth_function.{op}(*{cex["args"]})')
