"""C08 — model evaluation is compositional and frame-correct."""
from __future__ import annotations
import itertools, random
import z3
from pyvc import source
from pyvc.interp import Interp, Path, explore, Outside, PyExc, SymVal, Contract, GenList, LoopSpec
from pyvc.world import World
from pyvc.smt import Obligation, Result, discharge
from pyvc.par import pmap
from contracts.evalmodel import EvalModel, SentTok, eval_world
from contracts.model import ValName
from checks.structs import Holder
from spec import semantics as S

def enum_ob(name, ok, where='', **meta):
    return Obligation(name, True if ok else False, kind='enum', where=where, meta=meta)

# ------------------------------------------------------------------ _limit_best (minfloor / maxceil) by loop invariant

class IterV(SymVal):
    "an iterator over a symbolic sequence A[0..n)"
    def __init__(self, A, n, idx=0): self.A, self.n, self.idx = A, n, idx
    def sym_iter_protocol(self): return self
    def sym_len(self, it): return self.n - self.idx
    def sym_getitem(self, it, k): return self.A[self.idx + k]

def limit_best(ctx):
    import operator as opr
    from pytableaux import tools as T
    fn = T._limit_best; fi = source.of_function(fn); where = ctx.under_contract(fi)
    A = z3.Array('A', z3.IntSort(), z3.RealSort()); n = z3.Int('n')
    limit = z3.Real('limit'); default = z3.Real('default')
    for nm, better, is_max in (('maxceil', opr.gt, True), ('minfloor', opr.lt, False)):
        b = (lambda x, y: x > y) if is_max else (lambda x, y: x < y)
        le = (lambda x, y: x <= y) if is_max else (lambda x, y: x >= y)
        world = World()
        world.builtin_models[iter] = lambda it, x: x if isinstance(x, IterV) else GenList(it.iterate(x))
        def nxt(it, x, *d):
            if not isinstance(x, IterV): raise Outside('next')
            if not it.fork(x.idx < x.n): raise PyExc(StopIteration)
            v = x.A[x.idx]; x.idx = x.idx + 1
            return v
        world.builtin_models[next] = nxt
        world.builtin_models[better] = lambda it, x, y, b=b: b(x, y)
        j = z3.Int('j!inv')
        def inv(it, fr):
            m = 1 + fr.locals['_k0']
            best = fr.locals['best']
            return [('prefix-bound', z3.ForAll([j], z3.Implies(z3.And(0 <= j, j < m), le(A[j], best)))),
                    ('member', z3.Exists([j], z3.And(0 <= j, j < m, A[j] == best))),
                    ('range', z3.And(m >= 1, m <= n))]
        def havoc(it, fr):
            fr.locals['best'] = it.fresh(z3.RealSort(), 'best')
        world.loop(fi.key, 0, LoopSpec(invariant=inv, havoc=havoc, variant=lambda it, fr: n - fr.locals['_k0']))
        holder = []
        def run(path):
            it = Interp(path, world)
            path.assume(n >= 0)
            path.assume(z3.ForAll([j], z3.Implies(z3.And(0 <= j, j < n), le(A[j], limit))))     # the limit bounds the value domain
            itv = IterV(A, n)
            return it.call_source(fi, fn, None, [better, limit, itv, default, nm], {})
        try:
            prs = explore(run)
        except Outside as e:
            ctx.add_result(Result(f'C08.limit_best.{nm}.result', 'unknown', detail=f'outside subset: {e}', where=where)); continue
        hy = [n >= 0, z3.ForAll([j], z3.Implies(z3.And(0 <= j, j < n), le(A[j], limit)))]
        cl = []
        by = {}
        for pr in prs:
            for name, pc, goal, meta in pr.path.obligations:
                by.setdefault(name, []).append(z3.Implies(z3.And(*pc) if pc else z3.BoolVal(True), goal))
            if pr.kind == 'cut': continue
            if pr.kind == 'raise':
                cl.append(z3.Implies(pr.pc, z3.And(n == 0, z3.BoolVal(issubclass(pr.value.cls, ValueError))))); continue
            r = pr.value
            if r is default or (isinstance(r, z3.ExprRef) and r.eq(default)):
                cl.append(z3.Implies(pr.pc, n == 0)); continue
            cl.append(z3.Implies(pr.pc, z3.And(n > 0, z3.ForAll([j], z3.Implies(z3.And(0 <= j, j < n), le(A[j], r))), z3.Exists([j], z3.And(0 <= j, j < n, A[j] == r)))))
        ctx.add(Obligation(f'C08.limit_best.{nm}.result', z3.And(*cl), hyps=hy, where=where,
                           meta=dict(clause=f'{nm}(limit, it, default) returns the {"maximum" if is_max else "minimum"} of the whole iterable (the default iff it is empty), provided limit bounds the value domain; the early exit is sound')))
        for name, cls_ in sorted(by.items()):
            ctx.add(Obligation(f'C08.limit_best.{nm}.{name}', z3.And(*cls_), hyps=hy, where=where, meta=dict(clause='loop obligation from the sidecar invariant "best is the optimum of the prefix"')))

# ------------------------------------------------------------------ evaluator clauses per logic (interpreted on concrete families)

WORLD = 7       # the world every evaluator clause is asked about; callees under contract must receive it

def world_forwarded(m):
    """every callee under contract (value_of on parts, the base _unquantify_values / _unmodal_values) was asked about WORLD.
    Only modal logics have more than one world: elsewhere the argument is unobservable and not demanded."""
    if not m.logic.Meta.modal: return True
    return all(kw.get('world') == WORLD for _, kw in m.kw_seen)

def work_operated(lname):
    "only the truth-functional clause of value_of_operated for one logic (re-stated by C07: the value a MODEL assigns is the table's)"
    return work_logic(lname, only_operated=True)

def work_logic(lname, only_operated=False):
    from pytableaux.logics import registry
    from pytableaux.lang import Operator, Quantifier
    logic = registry(lname)
    L = logic.Meta.name
    sem = S.spec_of(L)
    results, funcs = [], {}
    vals = [ValName(S.NAME[v]) for v in sem.values]
    def note(m):
        for k, f in m.inlined.items(): funcs[k] = dict(file=f.relfile, qualname=f.qualname, lines=f'{f.lineno}-{f.end_lineno}', sha1=f.sha1)
    # truth-functional operators: value_of_operated applies the table to the operands' values
    bad = []
    for op in Operator:
        if op.name not in S.OPERATORS: continue
        for tup in itertools.product(vals, repeat=op.arity):
            parts = [SentTok() for _ in tup]
            m = EvalModel(logic, {id(p): v for p, v in zip(parts, tup)})
            s = SentTok(head=op, parts=parts)
            try:
                prs = explore(lambda path: Interp(path, eval_world(m)).call(m.sym_getattr(Interp(path, eval_world(m)), 'value_of_operated'), [s], dict(world=WORLD)))
            except Outside as e:
                results.append(Result(f'C08.{L}.operated.truth-functional', 'unknown', detail=f'outside subset: {e}')); bad = None; break
            note(m)
            want = S.NAME[sem.op(op.name, *[S.VAL[v.name] for v in tup])]
            if len(prs) != 1 or prs[0].kind != 'return' or not isinstance(prs[0].value, ValName) or prs[0].value.name != want:
                bad.append(dict(operator=op.name, args=[v.name for v in tup], got=str(prs[0].value if prs else None), want=want))
            elif not world_forwarded(m):
                bad.append(dict(operator=op.name, args=[v.name for v in tup], note=f'the operands are not evaluated at the world asked about: callees received {m.kw_seen[:3]}'))
        if bad is None: break
    if bad is not None:
        results.append(discharge(enum_ob(f'C08.{L}.operated.truth-functional', not bad, logic=L, clause='value_of_operated(op(s1..sn)) = table_op(value_of(s1), .., value_of(sn))', cex=(bad[0] if bad else None), cex_all=bad or None)))
    if only_operated: return results, funcs
    # quantifiers and modal operators over every family of size <= 3 (0 allowed for accessible worlds)
    def families(lo):
        for k in range(lo, 4):
            yield from itertools.product(vals, repeat=k)
    if logic.Meta.quantified:
        for q in Quantifier:
            bad = []
            for fam in families(1):
                m = EvalModel(logic, family=list(fam))
                s = SentTok(quantifier=q)
                try:
                    prs = explore(lambda path: (lambda it: it.call(m.sym_getattr(it, 'value_of_quantified'), [s], dict(world=WORLD)))(Interp(path, eval_world(m))))
                except Outside as e:
                    results.append(Result(f'C08.{L}.quantified.{q.name}', 'unknown', detail=f'outside subset: {e}')); bad = None; break
                note(m)
                want = S.NAME[(sem.exists if q.name == 'Existential' else sem.forall)([S.VAL[v.name] for v in fam])]
                if len(prs) != 1 or prs[0].kind != 'return' or getattr(prs[0].value, 'name', None) != want:
                    bad.append(dict(family=[v.name for v in fam], got=str(prs[0].value if prs and prs[0].kind == 'return' else (prs[0].value.cls.__name__ if prs else None)), want=want))
                elif not world_forwarded(m):
                    bad.append(dict(family=[v.name for v in fam], note=f'the instances are not evaluated at the world asked about: callees received {m.kw_seen[:3]}'))
            if bad is not None:
                results.append(discharge(enum_ob(f'C08.{L}.quantified.{q.name}', not bad, logic=L, clause='value of a quantified sentence = the logic\'s generalised disjunction/conjunction of the instance values (all families of size 1..3)',
                                                 cex=(bad[0] if bad else None), cex_all=bad or None)))
    if logic.Meta.modal:
        for op in (Operator.Possibility, Operator.Necessity):
            bad = []
            for fam in families(0):
                m = EvalModel(logic, family=list(fam))
                m.eval_world = WORLD; m.inaccessible_top = (op.name == 'Possibility')     # an inaccessible world where the operand would flip the result
                s = SentTok(head=op, parts=[SentTok()])
                try:
                    prs = explore(lambda path: (lambda it: it.call(m.sym_getattr(it, 'value_of_operated'), [s], dict(world=WORLD)))(Interp(path, eval_world(m))))
                except Outside as e:
                    results.append(Result(f'C08.{L}.modal.{op.name}', 'unknown', detail=f'outside subset: {e}')); bad = None; break
                note(m)
                want = S.NAME[(sem.poss if op.name == 'Possibility' else sem.nec)([S.VAL[v.name] for v in fam])]
                if len(prs) != 1 or prs[0].kind != 'return' or getattr(prs[0].value, 'name', None) != want:
                    bad.append(dict(family=[v.name for v in fam], got=str(prs[0].value if prs and prs[0].kind == 'return' else None), want=want,
                                    note=('the operand was evaluated at a world that is not accessible from the world asked about' if any(w.index is None for w in m.worlds_asked) else None)))
                elif any(w.index is None for w in m.worlds_asked):
                    bad.append(dict(family=[v.name for v in fam], note='the operand was evaluated at a world that is not accessible from the world asked about'))
                elif not world_forwarded(m):
                    bad.append(dict(family=[v.name for v in fam], note=f'the accessible worlds are not taken from the world asked about: callees received {m.kw_seen[:3]}'))
            if bad is not None:
                results.append(discharge(enum_ob(f'C08.{L}.modal.{op.name}', not bad, logic=L, clause='value of a modal sentence = generalised disjunction/conjunction over the accessible worlds (all families of size 0..3)',
                                                 cex=(bad[0] if bad else None), cex_all=bad or None)))
    # frame condition at finish: Access.enforce on every relation over <= 3 worlds (run on the real class; finite, complete)
    if logic.Meta.modal:
        bad = []
        worlds = [0, 1, 2]
        pairs = [(a, b) for a in worlds for b in worlds]
        for k in range(len(pairs) + 1):
            for rel in itertools.combinations(pairs, k):
                R = logic.Model.Access()
                R[0]
                for p in rel: R.add(p)
                before = {(a, b) for a in R for b in R[a]}
                ws = set(R)
                R.enforce()
                got = {(a, b) for a in R for b in R[a]}
                if sem.frame == 'serial':
                    ok = before <= got and all(any((w, v) in got for v in R) for w in R) and len(set(R) - ws) <= 1
                elif sem.frame == 'any': ok = got == before
                else: ok = got == S.closure(sem.frame, ws, before)
                if not ok: bad.append(dict(relation=[list(p) for p in rel], got=[list(p) for p in sorted(got)]))
        for c in logic.Model.Access.__mro__:
            if 'enforce' in c.__dict__ and c.__module__.startswith('pytableaux'):
                f = source.of_function(c.__dict__['enforce']); funcs[f.key] = dict(file=f.relfile, qualname=f.qualname, lines=f'{f.lineno}-{f.end_lineno}', sha1=f.sha1)
        results.append(discharge(enum_ob(f'C08.{L}.enforce.closure', not bad, logic=L, frame=sem.frame, relations=512, clause='after enforce() the access relation is exactly the closure the frame condition requires (serial: every world has a successor, at most one new world)',
                                         cex=(bad[0] if bad else None), cex_all=bad[:20] or None)))
    return results, funcs

# ------------------------------------------------------------------ straight-line lookups

def lookups(ctx):
    """value_of dispatch and value_of_atomic / opaque / predicated on the base class (ground: real models, every kind of sentence)"""
    from pytableaux.logics import registry
    from pytableaux.lang import Atomic, Predicate, Constant, Operator, Quantifier, Variable
    from pytableaux.errors import DenotationError
    bad = []
    for L in ('CPL', 'FDE', 'K3', 'K', 'KFDE', 'S5'):
        logic = registry(L)
        m = logic.Model()
        a, b = Constant(0, 0), Constant(1, 0); F = Predicate(0, 0, 1)
        vs = list(logic.Meta.values)
        m.set_atomic_value(Atomic(0, 0), vs[-1]); m.set_predicated_value(F(a), vs[0])
        opq = Quantifier.Existential(Variable(0, 0), F(Variable(0, 0))) if not logic.Meta.quantified else (Operator.Possibility(Atomic(1, 0)) if not logic.Meta.modal else None)
        if opq is not None: m.set_opaque_value(opq, vs[-1])
        m.finish()
        un = logic.Meta.unassigned_value
        checks = [(Atomic(0, 0), vs[-1]), (Atomic(3, 3), un), (F(a), vs[0])]
        if opq is not None: checks.append((opq, vs[-1]))
        for s, want in checks:
            if m.value_of(s) != want: bad.append(f'{L}: value_of({s}) = {m.value_of(s)} != {want}')
        try:
            m.value_of(F(b)); bad.append(f'{L}: value_of(F b) for a constant outside the model did not raise')
        except DenotationError: pass
        except Exception as e: bad.append(f'{L}: {type(e).__name__}')
    from pytableaux.models import BaseModel
    for nm in ('value_of', 'value_of_atomic', 'value_of_opaque', 'value_of_predicated'):
        ctx.under_contract(source.of_function(BaseModel.__dict__[nm]))
    ctx.add(enum_ob('C08.lookups', not bad, clause='atomic / opaque / predicated sentences evaluate to the stored value, the unassigned value when absent, DenotationError for a parameter outside the model', cex=dict(bad=bad[:4])))

# ------------------------------------------------------------------ bounded: whole models against the independent evaluator

def _model_chunk(job):
    lname, seed, count = job
    from pytableaux.logics import registry
    from pytableaux.lang import Atomic, Predicate, Constant, Variable, Operator, Quantifier
    from spec.evaluate import datum_of_model, Datum
    from bounded import args as A
    logic = registry(lname); L = logic.Meta.name
    sem = S.spec_of(L)
    rnd = random.Random(seed)
    n = 0; bad = []
    consts = [Constant(i, 0) for i in range(3)]
    F, G = Predicate(0, 0, 1), Predicate(1, 0, 2)
    atoms = [Atomic(i, 0) for i in range(3)]
    vals = list(logic.Meta.values)
    classical = len(sem.values) == 2
    for _ in range(count):
        worlds = list(range(rnd.randint(1, 3))) if logic.Meta.modal else [0]
        calls = []
        for w in worlds:
            for a in atoms:
                if rnd.random() < 0.6: calls.append(('atom', a, rnd.choice(vals), w))
            if logic.Meta.quantified or True:
                for c in consts[:rnd.randint(1, 3)]:
                    if rnd.random() < 0.7: calls.append(('pred', F(c), rnd.choice(vals), w))
                for c, d in itertools.product(consts[:2], repeat=2):
                    if rnd.random() < 0.3: calls.append(('pred', G(c, d), rnd.choice(vals), w))
        if logic.Meta.modal:
            for _k in range(rnd.randint(0, 4)): calls.append(('access', (rnd.choice(worlds), rnd.choice(worlds))))
        rnd.shuffle(calls)
        m = logic.Model()
        try:
            for c in calls:
                if c[0] == 'atom': m.set_atomic_value(c[1], c[2], world=c[3])
                elif c[0] == 'pred': m.set_predicated_value(c[1], c[2], world=c[3])
                else: m.R.add(c[1])
            m.finish()
        except Exception as e:
            bad.append(dict(logic=L, kind='build-exception', error=repr(e)[:100])); continue
        d = datum_of_model(m, sem)
        # frame condition
        if logic.Meta.modal and not S.frame_ok(sem.frame, d.worlds, d.R): bad.append(dict(logic=L, kind='frame', R=sorted(d.R), worlds=d.worlds))
        if set(m.frames) != set(m.R): bad.append(dict(logic=L, kind='frames-vs-R', frames=sorted(m.frames), R=sorted(m.R)))
        kinds = ['prop'] + (['modal'] if logic.Meta.modal else []) + (['fo'] if logic.Meta.quantified else []) + (['fomodal'] if logic.Meta.modal and logic.Meta.quantified else [])
        for _s in range(6):
            arg = A.random_argument(rnd, rnd.choice(kinds), depth=3, max_premises=0)
            s = arg.conclusion
            if classical and ('=' in str(s) or '!' in str(s)): continue          # identity/existence are completed by cpl.Model.finish: compared separately
            for w in d.worlds:
                n += 1
                try:
                    rv = m.value_of(s, world=w).name
                except Exception as e:
                    if type(e).__name__ == 'DenotationError': continue            # a parameter outside the model
                    bad.append(dict(logic=L, kind='exception', sentence=str(s), error=repr(e)[:100])); break
                sv = S.NAME[d.value(s, w)]
                if rv != sv:
                    bad.append(dict(logic=L, kind='value', sentence=str(s), world=w, real=rv, spec=sv)); break
    return n, bad

def bounded_models(ctx):
    from checks import rulesem as RS
    registry = RS.registry()
    names = [registry(n).Meta.name for n in registry]
    per = 40 if ctx.thorough else 8
    jobs = [(L, ctx.seed * 1000 + i, per) for i, L in enumerate(names)]
    total = 0; fails = []
    for n, bad in pmap(_model_chunk, jobs):
        total += n; fails += bad
    ctx.bounded_part(evaluations=total, distinct_nontrivial=total, rule='random models (<= 3 worlds, <= 3 constants, atoms / one- and two-place predications / access pairs set in a random order through the model API, then finish()) in all 57 logics; random sentences to depth 3 evaluated at every world by the real model and by the independent evaluator on the extracted model data; frame condition and keys(frames) == keys(R) checked',
                     bound=f'{per} models per logic x 6 sentences x worlds', samples=[dict(logic='S4K3', sentence='◇(A ∧ ¬B)')] + fails[:3], label='whole models')
    seen = set()
    for f in fails:
        key = (f['logic'], f['kind'])
        if key in seen: continue
        seen.add(key)
        name = f"C08.evaluator.{f['logic']}" if f['kind'] == 'value' else f"C08.bounded.{f['kind']}.{f['logic']}"
        ctx.bounded_failure(name, str(f)[:300], f, instance=f.get('sentence', ''))

def classical_every_world(ctx):
    """the classical completion reaches every world of the finished model -- also worlds that have no value of their own before finish():
    named only by the access relation, or created by the serial frame condition.  Run on the real model classes (finite list of shapes)."""
    from pytableaux.logics import registry
    from pytableaux.lang import Predicate, Constant, Atomic, Quantified, Variable
    a = Constant(0, 0); F = Predicate(0, 0, 1); I = Predicate.Identity; E = Predicate.Existence; x = Variable(0, 0)
    bad = []; cases = 0
    shapes = {'world named by R only': [(0, 1)], 'chain through R': [(0, 1), (1, 2)], 'no access pair given': [], 'back edge': [(0, 2), (2, 1)]}
    for L in ('K', 'D', 'T', 'S4', 'S5'):
        logic = registry(L)
        for sname, pairs in shapes.items():
            cases += 1
            m = logic.Model()
            try:
                m.set_predicated_value(F(a), 'T', world=0)
                for p in pairs: m.R.add(p)
                m.finish()
                worlds = sorted(set(m.R) | {w for p in m.R.flat() for w in p})
                for w in worlds:
                    for s_, what in ((I((a, a)), 'a=a'), (E((a,)), '!a'), (Quantified('Universal', x, I((x, x))), 'for all x: x=x')):
                        v = m.value_of(s_, world=w).name
                        if v != 'T': bad.append(f'{L}, {sname}: {what} is {v} at world {w} (worlds {worlds})')
            except Exception as e: bad.append(f'{L}, {sname}: {type(e).__name__}: {e}')
    ctx.add(enum_ob('C08.classical.completion-reaches-every-world', not bad, cases=cases, kind='every-world', cex=dict(bad=bad[:4]) if bad else None,
                    clause='after finish(), identity is reflexive and existence universal at EVERY world of the model, including worlds that only the access relation (or the serial condition) names'))

def classical_completion(ctx):
    """B: cpl.Model.finish: identity an equivalence that every extension respects, existence universal, for every
    insertion order of up to 4 set_*_value calls over 3 constants"""
    from pytableaux.logics import registry
    from pytableaux.lang import Predicate, Constant
    a, b, c = (Constant(i, 0) for i in range(3))
    F = Predicate(0, 0, 1); I = Predicate.Identity; E = Predicate.Existence
    base_calls = [I((a, b)), I((b, c)), F(a), I((b, a)), F(c), I((c, c))]
    n = 0; fails = {}
    for L in ('CPL', 'CFOL', 'K'):
        logic = registry(L)
        for k in (1, 2, 3, 4) if ctx.thorough else (1, 2, 3):
            for calls in itertools.permutations(base_calls, k):
                m = logic.Model()
                try:
                    for s in calls: m.set_predicated_value(s, 'T')
                    m.finish()
                except Exception as e:
                    fails.setdefault('exception', (L, [str(s) for s in calls], repr(e)[:80])); continue
                n += 1
                cs = sorted(m.constants)
                T = lambda s: m.value_of(s) == 'T'
                prob = None
                for x in cs:
                    if not T(I((x, x))): prob = f'{x}={x} is false'
                    if not T(E((x,))): prob = f'!{x} is false'
                for x, y in itertools.product(cs, repeat=2):
                    if T(I((x, y))) and not T(I((y, x))): prob = f'{x}={y} true but {y}={x} false'
                    if T(I((x, y))) and T(F(x)) != T(F(y)): prob = f'{x}={y} true but F{x} != F{y}'
                for x, y, z in itertools.product(cs, repeat=3):
                    if T(I((x, y))) and T(I((y, z))) and not T(I((x, z))): prob = f'{x}={y}, {y}={z} true but {x}={z} false'
                if prob:
                    key = prob.split(' ')[0][:1] + ':' + ('symmetric' if 'but' in prob and '=' in prob.split('but')[1] and 'F' not in prob else ('congruence' if 'F' in prob else 'other'))
                    if key not in fails or len(calls) < len(fails[key][1]): fails[key] = (L, [str(s) for s in calls], prob)
    ctx.bounded_part(evaluations=n, distinct_nontrivial=n, rule='classical family: every ordered selection of up to 3 (4 in thorough) set_predicated_value(.., T) calls from {a=b, b=c, Fa, b=a, Fc, c=c}, then finish(); identity must be reflexive, symmetric, transitive and a congruence for F, existence universal',
                     bound='3 logics x permutations', samples=[dict(calls=['a=b', 'Fa'])] + [dict(calls=v[1], problem=v[2]) for v in list(fails.values())[:3]], label='classical completion')
    for key, (L, calls, prob) in sorted(fails.items()):
        ctx.bounded_failure('C08.classical.identity-completion', f'{L}: after {calls} and finish(): {prob}', dict(logic=L, calls=calls, problem=prob), instance=key)

def base_family_obligations(ctx):
    """the two generators every clause above takes by contract ("the values of the instances / of the accessible worlds"), interpreted
    from the base class: BaseModel._unmodal_values yields value_of(s.lhs, world=w2) for exactly the worlds in R[world], in order;
    BaseModel._unquantify_values yields value_of(c >> s, **kw) for exactly the model's constants, in order, forwarding kw."""
    from pytableaux.models import BaseModel
    from pyvc.world import World
    class T(SymVal):
        def __init__(s, name): s.name = name
        def __repr__(s): return s.name
        def sym_truth(s, it): return True
    class Inst(T):
        def __init__(s, c, q): s.c, s.q = c, q; s.name = f'{c}>>{q}'
    class C(T):
        def sym_binop(s, it, op, other, reflected):
            if op == 'RShift' and not reflected: return Inst(s, other)
            return NotImplemented
    for name, clause in (('_unmodal_values', 'yields value_of(s.lhs, world=w2) for exactly the worlds w2 in R[world], in order'),
                         ('_unquantify_values', 'yields value_of(c >> s, **kw) for exactly the constants of the model, in order, forwarding the keywords')):
        fn = BaseModel.__dict__[name]; fi = source.of_function(fn); where = ctx.under_contract(fi)
        oname = f'C08.base.{name}'
        bad = []; cases = 0
        try:
            for k in range(0, 4):
                cases += 1
                calls = []
                lhs = T('lhs'); sent = T('sentence')
                worlds = [T(f'u{i}') for i in range(k)]; consts = [C(f'c{i}') for i in range(k)]
                class Sent(T):
                    def sym_getattr(s, it, n):
                        if n == 'lhs': return lhs
                        raise Outside(f'sentence.{n}')
                sent = Sent('sentence')
                class RM(SymVal):
                    def sym_getitem(s, it, w):
                        if w == WORLD: return GenList(list(worlds))
                        return GenList([T('another-worlds-successor')])
                    def sym_iter(s, it): return list(worlds) + [T('inaccessible')]
                class M(SymVal):
                    def sym_getattr(s, it, n):
                        if n == 'R': return RM()
                        if n == 'constants': return GenList(list(consts))
                        if n == 'value_of':
                            def vo(it, x, **kw): calls.append((x, dict(kw))); return T(f'value{len(calls)}')
                            return Contract(vo, 'Model.value_of')
                        raise Outside(f'Model.{n}')
                it = Interp(Path([]), World())
                out = it.iterate(it.call_source(fi, fn, BaseModel, [M(), sent], dict(world=WORLD)))
                if len(out) != k or len(calls) != k: bad.append(f'{k} members: {len(out)} values from {len(calls)} evaluations'); continue
                for i, (x, kw) in enumerate(calls):
                    if name == '_unmodal_values':
                        if x is not lhs or kw != dict(world=worlds[i]): bad.append(f'evaluation {i}: value_of({x}, {kw}), expected value_of(lhs, world={worlds[i]})')
                    else:
                        if not isinstance(x, Inst) or x.c is not consts[i] or x.q is not sent or kw != dict(world=WORLD): bad.append(f'evaluation {i}: value_of({x}, {kw}), expected value_of({consts[i]} >> sentence, world={WORLD})')
                    if getattr(out[i], 'name', None) != f'value{i + 1}': bad.append(f'value {i} is not the result of evaluation {i}')
            ctx.add(enum_ob(oname, not bad, where=where, clause=clause, cases=cases, cex=dict(bad=bad[:4]) if bad else None))
        except Outside as e:
            ctx.add_result(Result(oname, 'unknown', detail=f'outside subset: {e}', where=where))

def complete_frames_obligation(ctx):
    """BaseModel._complete_frames interpreted from source on scenario models (frames and the access relation are
    default-creating maps, as in the constructor): afterwards every world of R has a frame and every frame's world is in R;
    every frame assigns every atomic / opaque sentence mentioned anywhere (kept if it had a value, the unassigned value
    otherwise) and knows every predicate; a second call changes nothing"""
    from pytableaux.models import BaseModel
    from pyvc.interp import LocalDict
    fn = BaseModel.__dict__['_complete_frames']; fi = source.of_function(fn); where = ctx.under_contract(fi)
    fcn = BaseModel.__dict__['_check_not_finished']; ctx.under_contract(source.of_function(fcn))
    world = World()
    class DefMap(SymVal):
        "defaultdict-like: reading a missing key creates the default"
        def __init__(s, mk, init=None): s.mk = mk; s.d = dict(init or {}); s.touched = []
        def sym_getitem(s, it, k):
            if k not in s.d: s.d[k] = s.mk(k)
            s.touched.append(k)
            return s.d[k]
        def sym_setitem(s, it, k, v): s.d[k] = v
        def sym_iter(s, it): return list(s.d)
        def sym_contains(s, it, k): return k in s.d
        def sym_len(s, it): return len(s.d)
        def sym_getattr(s, it, n):
            if n == 'items': return Contract(lambda it: GenList(list(s.d.items())), 'dict.items')
            if n == 'values': return Contract(lambda it: GenList(list(s.d.values())), 'dict.values')
            if n == 'keys': return Contract(lambda it: GenList(list(s.d)), 'dict.keys')
            if n == 'get': return Contract(lambda it, k, default=None: s.d.get(k, default), 'dict.get')
            if n == 'setdefault': return Contract(lambda it, k, default=None: s.d.setdefault(k, default), 'dict.setdefault')
            if n == 'update':
                def upd(it, other): s.d.update(dict(other.d if isinstance(other, DefMap) else other))
                return Contract(upd, 'dict.update')
            raise Outside(f'mapping.{n}')
    class FrameM(SymVal):
        def __init__(s, atomics=None, opaques=None, preds=()):
            s.atomics = DefMapPlain(atomics or {}); s.opaques = DefMapPlain(opaques or {}); s.predicates = DefMap(lambda k: ('interp', k), {p: ('interp', p) for p in preds})
        def sym_getattr(s, it, n):
            if n in ('atomics', 'opaques', 'predicates'): return getattr(s, n)
            raise Outside(f'Frame.{n}')
    class DefMapPlain(DefMap):
        "a plain dict: reading a missing key raises"
        def __init__(s, init): super().__init__(None, init)
        def sym_getitem(s, it, k):
            if k not in s.d: raise PyExc(KeyError, (k,))
            return s.d[k]
    class Sent(SymVal):
        def __init__(s, atomics=(), predicates=()): s.a, s.p = frozenset(atomics), frozenset(predicates)
        def sym_getattr(s, it, n):
            if n == 'atomics': return s.a
            if n == 'predicates': return s.p
            raise Outside(f'Sentence.{n}')
    UN = ValName('UNASSIGNED')
    class ModelM(SymVal):
        def __init__(s, frames, rworlds, sentences, finished=False):
            s.frames = DefMap(lambda w: FrameM(), frames); s.R = DefMap(lambda w: set(), {w: set() for w in rworlds}); s.sentences = list(sentences)
            s.f = dict(_is_frame_complete=False, finished=finished, _finished=finished)
        def sym_getattr(s, it, n):
            if n in ('frames', 'R'): return getattr(s, n)
            if n == 'sentences': return GenList(s.sentences)
            if n == 'Meta': return Holder(unassigned_value=UN)
            if n in s.f: return s.f[n]
            if n == '_check_not_finished':
                from pyvc.interp import BoundSource
                return BoundSource(source.of_function(fcn), fcn, BaseModel, s)
            raise Outside(f'Model.{n}')
        def sym_setattr(s, it, n, v): s.f[n] = v
    T_, F_ = ValName('T'), ValName('F')
    scen = [
        dict(frames={0: FrameM({'a': T_}), 2: FrameM({'b': F_}, {'o': T_}, ['Q'])}, R=[0, 1], sents=[Sent(['c'], ['P'])]),
        dict(frames={0: FrameM()}, R=[0], sents=[]),
        dict(frames={0: FrameM({'a': F_}), 1: FrameM({'a': T_})}, R=[0, 1, 3], sents=[Sent(['a', 'd'], []), Sent([], ['P', 'Q'])]),
    ]
    bad = None; und = None
    for i, sc in enumerate(scen):
        m = ModelM(sc['frames'], sc['R'], sc['sents'])
        before = {w: (dict(f.atomics.d), dict(f.opaques.d)) for w, f in sc['frames'].items()}
        try:
            prs = explore(lambda path: (lambda it: (it.call_source(fi, fn, BaseModel, [m], {}, recv=m), it.call_source(fi, fn, BaseModel, [m], {}, recv=m)))(Interp(path, world)))
        except Outside as e:
            und = f'outside subset: {e}'; break
        if len(prs) != 1 or prs[0].kind != 'return': bad = dict(scenario=i, outcome=[str(p.kind) + ' ' + str(p.value)[:60] for p in prs]); break
        worlds = set(sc['frames']) | set(sc['R'])
        atoms = set().union(*[set(a) for a, o in before.values()]) | set().union(*[x.a for x in sc['sents']]) if before or sc['sents'] else set()
        opaq = set().union(*[set(o) for a, o in before.values()]) if before else set()
        preds = set().union(*[x.p for x in sc['sents']]) | {p for f in sc['frames'].values() for p in f.predicates.d} if True else set()
        probs = []
        if set(m.frames.d) != worlds: probs.append(f'frames for {sorted(m.frames.d)} but worlds {sorted(worlds)}')
        if set(m.R.d) != worlds: probs.append(f'R knows {sorted(m.R.d)} but worlds {sorted(worlds)}')
        for w, f in m.frames.d.items():
            a0, o0 = before.get(w, ({}, {}))
            if set(f.atomics.d) != atoms or any(f.atomics.d[k] != a0.get(k, UN) for k in atoms): probs.append(f'atomics at {w}: {f.atomics.d}')
            if set(f.opaques.d) != opaq or any(f.opaques.d[k] != o0.get(k, UN) for k in opaq): probs.append(f'opaques at {w}: {f.opaques.d}')
            if set(f.predicates.d) != preds: probs.append(f'predicates at {w}: {sorted(f.predicates.d)} != {sorted(preds)}')
        if m.f.get('_is_frame_complete') is not True: probs.append('_is_frame_complete not set')
        if probs: bad = dict(scenario=i, problems=probs[:4]); break
    if not bad and not und:
        m = ModelM({0: FrameM()}, [0], [], finished=True)
        prs = explore(lambda path: Interp(path, world).call_source(fi, fn, BaseModel, [m], {}, recv=m))
        if not (len(prs) == 1 and prs[0].kind == 'raise'): bad = dict(scenario='finished model', note='a finished model must refuse (IllegalStateError)')
    if und: return ctx.add_result(Result('C08.complete_frames', 'unknown', detail=und, where=where))
    ctx.add(enum_ob('C08.complete_frames', bad is None, where=where, cex=bad, scenarios=len(scen),
                    clause='after _complete_frames: frames and R cover the same worlds; each frame assigns every atomic/opaque seen anywhere (own value kept, else the unassigned value) and knows every predicate; idempotent; refused on a finished model'))

def run(ctx):
    from pytableaux.logics import registry
    ctx.level = 'other'
    ctx.drop('type annotations', 'docstrings')
    ctx.trust('truth_function follows the spec tables (C07)', 'value_of on immediate parts (instances, operands, the operand at accessible worlds) is the induction hypothesis',
              'the generator arguments of maxceil/minfloor are pure (so the early exit is unobservable)', 'spec/semantics.py (the oracle)',
              'termination of the fixpoint loops in ReflexiveTransitiveAccesss/GlobalAccess.enforce is not proved (they are run on all relations over 3 worlds)')
    ctx.assume('quantifier/modal clauses are decided for every family of instance values of size <= 3 (the property\'s own bound), by interpreting the real functions on each family',
               'CPython semantics of the interpreted subset as encoded by pyvc/interp.py')
    ctx.explanation = ('Proved: tools._limit_best for maxceil and minfloor by loop invariant ("best is the optimum of the prefix") over an SMT-array iterable: the result is the optimum of the whole iterable provided the limit '
                       'bounds the domain.  For every logic the real value_of_operated / value_of_quantified and the overrides (K3WQ, KK3WQ, MH, NH, GO, S4GO, TruthFunction.generalize) are interpreted from source on every '
                       'family of values of size <= 3 and must equal the spec generaliser; Access.enforce is run on all 512 relations over 3 worlds and compared with the spec closure.  Bounded: whole random models '
                       'against the independent evaluator; classical identity/existence completion over insertion orders.')
    limit_best(ctx)
    base_family_obligations(ctx)
    classical_every_world(ctx)
    from checks import rulesem as RS
    registry = RS.registry()
    names = [registry(n).Meta.name for n in registry]
    for res, funcs in pmap(work_logic, names):
        for r in res: ctx.add_result(r)
        ctx.functions.update(funcs)
    lookups(ctx)
    complete_frames_obligation(ctx)
    bounded_models(ctx)
    classical_completion(ctx)
    ctx.replayers['C08.'] = lambda r: replay(dict(obligation=r.name, counterexample=r.cex, meta=r.meta))

def replay(payload):
    "build the family on a real model and evaluate the real quantified / modal sentence"
    name = payload.get('obligation', '')
    cex = payload.get('counterexample') or {}
    if name.endswith('completion-reaches-every-world'):
        from pyvc.report import Ctx
        c2 = Ctx('C08', 'quick', 0); classical_every_world(c2)
        r2 = c2.results[-1]
        bad = ((r2.meta or {}).get('cex') or {}).get('bad') or []
        return dict(reproduced=bool(bad), detail='; '.join(bad[:2]) or 'identity and existence hold at every world of the finished models')
    parts = name.split('.')
    if len(parts) >= 4 and parts[2] in ('quantified', 'operated') and 'note' in cex:
        return replay_world(parts[1], parts[2], parts[3])
    if len(parts) < 4 or parts[2] not in ('quantified', 'modal') or 'family' not in cex:
        return dict(reproduced=None, detail='see counterexample / meta')
    from pytableaux.logics import registry
    from pytableaux.lang import Atomic, Predicate, Constant, Variable, Operator, Quantifier
    logic = registry(parts[1]); sem = S.spec_of(parts[1])
    fam = cex['family']
    m = logic.Model()
    if parts[2] == 'quantified':
        F = Predicate(0, 0, 1); x = Variable(0, 0)
        for i, v in enumerate(fam): m.set_predicated_value(F(Constant(i % 4, i // 4)), v)
        m.finish()
        s = Quantifier[parts[3]](x, F(x))
        got = m.value_of(s).name
        want = S.NAME[(sem.exists if parts[3] == 'Existential' else sem.forall)([S.VAL[v] for v in fam])]
    else:
        A = Atomic(0, 0)
        m.R[0]
        for i, v in enumerate(fam):
            m.R.add((0, i + 1)); m.set_atomic_value(A, v, world=i + 1)
        if cex.get('note') and 'not accessible' in cex['note']:
            # one more world that world 0 does not access (it only accesses itself), where the operand has the value that would flip the result
            w = len(fam) + 1
            m.R.add((w, w)); m.set_atomic_value(A, (list(logic.Meta.values)[-1] if parts[3] == 'Possibility' else list(logic.Meta.values)[0]).name, world=w)
        # keep the relation as given: evaluate before any frame closure would add pairs (K-style evaluation of the clause)
        m._complete_frames(); m._finished = True
        s = Operator[parts[3]](A)
        got = m.value_of(s, world=0).name
        want = S.NAME[(sem.poss if parts[3] == 'Possibility' else sem.nec)([S.VAL[v] for v in fam])]
    return dict(reproduced=got != want, detail=f'{parts[1]}: instance/world values {fam}: real value_of({s}) = {got}; spec says {want}')


def replay_world(L, kind, which):
    "a real two-world model whose worlds disagree: the clause must be evaluated at the world asked about"
    from pytableaux.logics import registry
    from pytableaux.lang import Atomic, Predicate, Constant, Variable, Operator, Quantifier
    logic = registry(L); sem = S.spec_of(L)
    m = logic.Model()
    vals = list(logic.Meta.values); lo, hi = vals[0], vals[-1]
    out = []
    if kind == 'quantified':
        F = Predicate(0, 0, 1); x = Variable(0, 0); a, b = Constant(0, 0), Constant(1, 0)
        m.R.add((0, 1))
        m.set_predicated_value(F(a), hi, world=0); m.set_predicated_value(F(b), hi, world=0)
        m.set_predicated_value(F(a), hi, world=1); m.set_predicated_value(F(b), lo, world=1)
        m.finish()
        for q in Quantifier:
            s = q(x, F(x))
            for w, fam in ((0, [hi, hi]), (1, [hi, lo])):
                got = m.value_of(s, world=w).name
                want = S.NAME[(sem.exists if q.name == 'Existential' else sem.forall)([S.VAL[v.name] for v in fam])]
                if got != want: out.append(f'value_of({s}, world={w}) = {got}, the instances at world {w} have values {[v.name for v in fam]}: spec says {want}')
    else:
        A, B = Atomic(0, 0), Atomic(1, 0)
        m.R.add((0, 1))
        m.set_atomic_value(A, hi, world=0); m.set_atomic_value(B, hi, world=0)
        m.set_atomic_value(A, lo, world=1); m.set_atomic_value(B, hi, world=1)
        m.finish()
        for op in Operator:
            if op.name not in S.OPERATORS: continue
            s = op(A) if op.arity == 1 else op(A, B)
            for w, tup in ((0, [hi, hi]), (1, [lo, hi])):
                got = m.value_of(s, world=w).name
                want = S.NAME[sem.op(op.name, *[S.VAL[v.name] for v in tup[:op.arity]])]
                if got != want: out.append(f'value_of({s}, world={w}) = {got}; table value for the operand values at world {w} is {want}')
    return dict(reproduced=bool(out), detail=f'{L}: ' + ('; '.join(out[:3]) or 'evaluated at the world asked about'))
