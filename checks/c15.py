"""C15 — substitution and the derived attributes of sentences are exact."""
from __future__ import annotations
import itertools
import z3
from pyvc import source
from pyvc.interp import Interp, explore, Outside, PyExc, SymVal, Contract, GenList
from pyvc.smt import Obligation, Result
from contracts import lexical as X
from contracts.lexical import ParamV, SentV, Spec, SetE, SeqE, PredicatedM, QuantifiedM, OperatedM, OperV, QuantV, PredV

FILE = 'pytableaux/lang/lex.py'

def enum_ob(name, ok, where='', **meta):
    return Obligation(name, True if ok else False, kind='enum', where=where, meta=meta)

def run_on(ctx, mk_self, meth, args_fn, raw=False):
    """explore <self>.<meth>(*args); returns (fi, [(PathResult, self, args)])"""
    world = X.lex_world()
    holder = []
    fis = []
    def run(path):
        it = Interp(path, world)
        s = mk_self()
        args = args_fn(s)
        bs, fi = s.method(it, meth)
        fis.append(fi)
        holder.append((path, s, args))
        return it.call(bs, list(args), {})
    prs = explore(run)
    byp = {id(p): (s, a) for p, s, a in holder}
    fi = fis[0]
    ctx.under_contract(fi)
    return fi, [(pr,) + byp[id(pr.path)] for pr in prs]

def all_paths(paths, f):
    cl = []
    for pr, s, a in paths:
        if pr.kind == 'cut': continue
        if pr.kind == 'raise': cl.append(z3.Not(pr.pc)); continue
        cl.append(z3.Implies(pr.pc, f(pr, s, a)))
    return z3.And(*cl) if cl else z3.BoolVal(False)

def param_eq(a: ParamV, b: ParamV): return z3.And(a.key == b.key, a.is_const == b.is_const)

def run(ctx):
    from pytableaux.lang import lex
    ctx.level = 'proof'
    ctx.drop('type annotations', 'docstrings', '@lazy.prop decorators (the wrapped function is verified; the caching wrapper is verified separately as C15.lazy.*)')
    ctx.trust('Lexical equality of parameters is equality of their sort keys and a key determines the kind (C14 obligations)',
              'constructor calls predicate(params) / operator(operands) / quantifier(v, s) build the datatype node with exactly those parts (C14 constructor obligations); Constant(c) returns c',
              'Sequence mixin: iterating a Predicated/Operated yields params/operands (via __getitem__/__len__, both one-line delegations)',
              'structural induction over the sentence datatype (the contract on sub-sentences is the induction hypothesis)')
    ctx.assume('CPython semantics of the interpreted subset as encoded by pyvc/interp.py', 'frozenset/tuple/chain builtin axioms: union / concatenation of the parts')
    ctx.explanation = ('Each substitute / unquantify / negative / derived-attribute function of lang/lex.py is symbolically executed with symbolic parameters (z3 keys) and opaque '
                       'sub-sentences whose methods follow the spec functions; the result must equal the one-level unfolding of the spec (subst, consts, vars, preds, atoms, opers, quants) '
                       'on every path, for predications of arity 1-3 and operators of arity 1-2.  The shortcut `pnew == pold` is discharged with the lemma subst(s,p,p)=s, itself proved per constructor.')
    pn, po = ParamV('pnew'), ParamV('pold')
    # ---------------- Predicated.substitute (arity 1..3)
    for k in (1, 2, 3):
        try:
            mk = lambda k=k: PredicatedM(PredV(), [ParamV(f'p{i}') for i in range(k)])
            fi, paths = run_on(ctx, mk, 'substitute', lambda s: (pn, po))
            def post(pr, s, a):
                r = pr.value
                if not isinstance(r, PredicatedM) or len(r.params) != len(s.params) or (r.pred is not s.pred): return z3.BoolVal(False)
                return z3.And(*[param_eq(r.params[i], X.ite_param(s.params[i].key == po.key, pn, s.params[i])) for i in range(len(s.params))])
            ctx.add(Obligation(f'C15.Predicated.substitute.arity{k}', all_paths(paths, post), hyps=[z3.Implies(pn.key == po.key, pn.is_const == po.is_const)] + [z3.Implies(ParamV(f'p{i}').key == po.key, ParamV(f'p{i}').is_const == po.is_const) for i in range(k)] + X.param_axioms([pn, po] + [ParamV(f'p{i}') for i in range(k)]),
                               where=fi.where, meta=dict(clause='result = predicate applied to [pnew if p == pold else p for p in params]; the pnew == pold shortcut agrees')))
        except Outside as e:
            ctx.add_result(Result(f'C15.Predicated.substitute.arity{k}', 'unknown', detail=f'outside subset: {e}'))
    # ---------------- Operated.substitute
    for ar in (1, 2):
        try:
            mk = lambda ar=ar: OperatedM(OperV(), [SentV(f's{i}') for i in range(ar)])
            fi, paths = run_on(ctx, mk, 'substitute', lambda s: (pn, po))
            ok = True; why = []
            smt = []
            for pr, s, a in paths:
                if pr.kind != 'return': ok = False; why.append('exception'); continue
                r = pr.value
                if r is s:
                    # shortcut: needs lemma subst(s_i, p, p) = s_i on the operands, available when pnew == pold
                    smt.append(z3.Implies(pr.pc, pn.key == po.key)); continue
                if not isinstance(r, OperatedM) or r.oper is not s.oper or len(r.operands) != len(s.operands): ok = False; why.append('shape'); continue
                for i, x in enumerate(r.operands):
                    if not (isinstance(x, SentV) and x.base == Spec('subst', s.operands[i], pn, po)): ok = False; why.append(f'operand {i}: {x!r}')
                # derived attributes handed to the result's cache slots must be the ones a walk of the result gives
                for attr, written in getattr(r, 'cache', {}).items():
                    want = r.derived_spec(attr)
                    if attr in r.DERIVED_SETS and isinstance(written, SetE):
                        try: smt.append(z3.Implies(pr.pc, written.z3() == want.z3())); ih_needed = True
                        except Outside as e: ok = False; why.append(f'cached {attr}: {e}')
                    elif attr in r.DERIVED_SEQS and isinstance(written, (SeqE, tuple, list)):
                        # lemma: operators / quantifiers of subst(s, ..) are those of s
                        def nk(p_):
                            if isinstance(p_, X.SegTok): p_ = p_.spec
                            if isinstance(p_, Spec) and len(p_.args) == 1 and isinstance(p_.args[0], SentV) and isinstance(p_.args[0].base, Spec) and p_.args[0].base.fn == 'subst':
                                return (p_.fn, ('S', p_.args[0].base.args[0].name))
                            return p_.key() if isinstance(p_, Spec) else ('obj', id(p_))
                        wp = written.parts if isinstance(written, SeqE) else list(written)
                        if [nk(a_) for a_ in wp] != [nk(a_) for a_ in want.parts]: ok = False; why.append(f'cached {attr} differs from the walk of the result')
                    else: ok = False; why.append(f'cached {attr}: {type(written).__name__}')
            hyps = []
            for pr, s, a in paths:
                r = pr.value
                if pr.kind == 'return' and isinstance(r, OperatedM) and getattr(r, 'cache', None):
                    for i, x in enumerate(r.operands): hyps += subst_attr_lemma(s.operands[i], x, pn, po)
                    break
            ctx.add(Obligation(f'C15.Operated.substitute.arity{ar}', z3.And(z3.BoolVal(ok), *smt), hyps=hyps, where=fi.where,
                               meta=dict(clause='result = operator(subst(s_i, pnew, pold) ...); `return self` only when pnew == pold (lemma subst(s,p,p)=s)', why=why)))
        except Outside as e:
            ctx.add_result(Result(f'C15.Operated.substitute.arity{ar}', 'unknown', detail=f'outside subset: {e}'))
    # ---------------- Quantified.substitute / unquantify
    try:
        mk = lambda: QuantifiedM(QuantV(), ParamV('v'), SentV('body'))
        fi, paths = run_on(ctx, mk, 'substitute', lambda s: (pn, po))
        ok = True; smt = []; why = []
        for pr, s, a in paths:
            if pr.kind != 'return': ok = False; continue
            r = pr.value
            if r is s: smt.append(z3.Implies(pr.pc, pn.key == po.key)); continue
            if not (isinstance(r, QuantifiedM) and r.q is s.q and r.v is s.v and isinstance(r.s, SentV) and r.s.base == Spec('subst', s.s, pn, po)): ok = False; why.append(repr(r))
        ctx.add(Obligation('C15.Quantified.substitute', z3.And(z3.BoolVal(ok), *smt), where=fi.where,
                           meta=dict(clause='result = quantifier(variable, subst(body, pnew, pold)): the binder is left alone; `return self` only when pnew == pold', why=why)))
        c = ParamV('c', is_const=z3.BoolVal(True))
        fi, paths = run_on(ctx, mk, 'unquantify', lambda s: (c,))
        ok = all(pr.kind == 'return' and isinstance(pr.value, SentV) and pr.value.base == Spec('subst', s.s, c, s.v) for pr, s, a in paths) and len(paths) == 1
        ctx.add(enum_ob('C15.Quantified.unquantify', ok, where=fi.where, clause='unquantify(c) = subst(body, c, variable)', cex=dict(paths=[repr(pr.value) for pr, s, a in paths])))
    except Outside as e:
        ctx.add_result(Result('C15.Quantified.substitute', 'unknown', detail=f'outside subset: {e}'))
    # ---------------- Constant.__rshift__
    try:
        fn = lex.Constant.__dict__['__rshift__']; fi = source.of_function(fn); where = ctx.under_contract(fi)
        world = X.lex_world()
        def runp(path):
            it = Interp(path, world)
            c = ParamV('c', is_const=z3.BoolVal(True)); q = QuantifiedM(QuantV(), ParamV('v'), SentV('body'))
            return it.call_source(fi, fn, lex.Constant, [c, q], {}), c, q
        prs = explore(runp)
        ok = len(prs) == 1 and prs[0].kind == 'return' and isinstance(prs[0].value[0], SentV) and prs[0].value[0].base == Spec('subst', prs[0].value[2].s, prs[0].value[1], prs[0].value[2].v)
        ctx.add(enum_ob('C15.Constant.__rshift__', ok, where=where, clause='c >> quantified = subst(body, c, variable)', cex={}))
    except Outside as e:
        ctx.add_result(Result('C15.Constant.__rshift__', 'unknown', detail=f'outside subset: {e}'))
    # ---------------- Sentence.substitute (atomic case), negative, negate, ...
    try:
        fn = lex.Sentence.__dict__['substitute']; fi = source.of_function(fn); where = ctx.under_contract(fi)
        world = X.lex_world()
        a = SentV('atom')
        prs = explore(lambda path: Interp(path, world).call_source(fi, fn, lex.Sentence, [a, pn, po], {}))
        ctx.add(enum_ob('C15.Sentence.substitute.atomic', len(prs) == 1 and prs[0].value is a, where=where, clause='an atomic sentence is its own substitution instance', cex={}))
        assert lex.Atomic.__dict__.get('substitute') is None
    except (Outside, AssertionError) as e:
        ctx.add_result(Result('C15.Sentence.substitute.atomic', 'unknown', detail=f'{e}'))
    try:
        fn = lex.Sentence.__dict__['negative']; fi = source.of_function(fn); where = ctx.under_contract(fi)
        world = X.lex_world()
        holder = []
        def runp(path):
            it = Interp(path, world)
            s = OperatedM(OperV('op'), [SentV('x')]); holder.append(s)
            return it.call_source(fi, fn, lex.Sentence, [s], {}), s
        prs = explore(runp)
        cl = []
        for pr in prs:
            r, s = pr.value
            if r is s.operands[0]: cl.append(z3.Implies(pr.pc, s.oper.is_negation))
            elif isinstance(r, OperatedM) and isinstance(r.oper, X.LiveOper) and r.oper.op.name == 'Negation' and r.operands == [s]: cl.append(z3.Implies(pr.pc, z3.Not(s.oper.is_negation)))
            else: cl.append(z3.BoolVal(False))
        ctx.add(Obligation('C15.Sentence.negative.operated', z3.And(*cl), where=where, meta=dict(clause='negative(Oper(¬, x)) = x; otherwise Oper(¬, self)')))
        # non-operated sentences: type(self) is Operated is False -> negate
        q = QuantifiedM(QuantV(), ParamV('v'), SentV('body'))
        prs = explore(lambda path: Interp(path, world).call_source(fi, fn, lex.Sentence, [q], {}))
        ok = len(prs) == 1 and isinstance(prs[0].value, OperatedM) and prs[0].value.operands == [q] and prs[0].value.oper.op.name == 'Negation'
        ctx.add(enum_ob('C15.Sentence.negative.other', ok, where=where, clause='negative(s) = Oper(¬, s) for non-operated s', cex={}))
        for nm, opn in (('negate', 'Negation'), ('asserted', 'Assertion'), ('__invert__', 'Negation'), ('__pos__', 'Assertion')):
            f2 = lex.Sentence.__dict__[nm]; fi2 = source.of_function(f2); ctx.under_contract(fi2)
            x = SentV('x')
            prs = explore(lambda path: Interp(path, world).call_source(fi2, f2, lex.Sentence, [x], {}))
            ok = len(prs) == 1 and isinstance(prs[0].value, OperatedM) and prs[0].value.operands == [x] and prs[0].value.oper.op.name == opn
            ctx.add(enum_ob(f'C15.Sentence.{nm}', ok, where=fi2.where, clause=f'{nm}(s) = Oper({opn}, s)', cex={}))
        for nm, opn in (('disjoin', 'Disjunction'), ('conjoin', 'Conjunction'), ('__or__', 'Disjunction'), ('__and__', 'Conjunction')):
            f2 = lex.Sentence.__dict__[nm]; fi2 = source.of_function(f2); ctx.under_contract(fi2)
            x, y = SentV('x'), SentV('y')
            prs = explore(lambda path: Interp(path, world).call_source(fi2, f2, lex.Sentence, [x, y], {}))
            ok = len(prs) == 1 and isinstance(prs[0].value, OperatedM) and prs[0].value.operands == [x, y] and prs[0].value.oper.op.name == opn
            ctx.add(enum_ob(f'C15.Sentence.{nm}', ok, where=fi2.where, clause=f'{nm}(s, t) = Oper({opn}, s, t)', cex={}))
        f2 = lex.Sentence.__dict__['__neg__']; fi2 = source.of_function(f2); ctx.under_contract(fi2)
    except Outside as e:
        ctx.add_result(Result('C15.Sentence.negative.operated', 'unknown', detail=f'outside subset: {e}'))
    derived(ctx)
    lemmas(ctx)
    lazy_wrapper(ctx)
    tools_substitute(ctx)
    bounded_walk(ctx)
    ctx.replayers['C15.'] = replay_search

def derived(ctx):
    from pytableaux.lang import lex
    # Predicated.constants / variables
    for attr, want_const in (('constants', True), ('variables', False)):
        for k in (1, 2, 3):
            name = f'C15.Predicated.{attr}.arity{k}'
            try:
                mk = lambda k=k: PredicatedM(PredV(), [ParamV(f'p{i}') for i in range(k)])
                fi, paths = run_on(ctx, mk, attr, lambda s: ())
                def post(pr, s, a):
                    r = pr.value
                    if not isinstance(r, SetE): return z3.BoolVal(False)
                    inc = [p for p in r.parts]
                    cl = []
                    for p in s.params:
                        isin = any(p is q for q in inc)
                        c = p.is_const if want_const else z3.Not(p.is_const)
                        cl.append(c if isin else z3.Not(c))
                    if any(not any(q is p for p in s.params) for q in inc): return z3.BoolVal(False)
                    return z3.And(*cl)
                ctx.add(Obligation(name, all_paths(paths, post), where=fi.where, meta=dict(clause=f'{attr} = the parameters that are {"constants" if want_const else "variables"}')))
            except Outside as e:
                ctx.add_result(Result(name, 'unknown', detail=f'outside subset: {e}'))
    # Operated.*
    for attr in ('predicates', 'constants', 'variables', 'atomics'):
        name = f'C15.Operated.{attr}'
        try:
            mk = lambda: OperatedM(OperV(), [SentV('s0'), SentV('s1')])
            fi, paths = run_on(ctx, mk, attr, lambda s: ())
            def oks(pr, s):
                if pr.kind != 'return' or not isinstance(pr.value, SetE): return False
                rep = operand_reps(pr, s.operands)
                def kk(sp): return (sp.fn,) + tuple(('S', rep.get(a_.name, a_.name)) if isinstance(a_, SentV) else a_ for a_ in sp.args) if isinstance(sp, Spec) else sp
                return frozenset(kk(p) for p in pr.value.parts) == frozenset(kk(Spec(attr, x)) for x in s.operands)
            ok = all(oks(pr, s) for pr, s, a in paths) and len(paths) >= 1
            if ok or not paths or any(pr.kind != 'return' or not isinstance(pr.value, SetE) for pr, s, a in paths):
                ctx.add(enum_ob(name, ok, where=fi.where, clause=f'{attr}(Oper(o, s0, s1)) = {attr}(s0) ∪ {attr}(s1)', cex=dict(got=[repr(getattr(pr.value, "parts", pr.value)) for pr, s, a in paths])))
            else:
                # the body decides by emptiness / overlap of the operands' sets: compare as z3 sets under each path condition
                goal = z3.And(*[z3.Implies(pr.pc, pr.value.z3() == SetE([Spec(attr, x) for x in s.operands]).z3()) for pr, s, a in paths])
                ctx.add(Obligation(name, goal, where=fi.where, meta=dict(clause=f'{attr}(Oper(o, s0, s1)) = {attr}(s0) ∪ {attr}(s1) on every path (sets compared in z3)', paths=len(paths))))
        except Outside as e:
            ctx.add_result(Result(name, 'unknown', detail=f'outside subset: {e}'))
    for attr, head in (('quantifiers', False), ('operators', True)):
        name = f'C15.Operated.{attr}'
        try:
            mk = lambda: OperatedM(OperV(), [SentV('s0'), SentV('s1')])
            fi, paths = run_on(ctx, mk, attr, lambda s: ())
            def okp(pr, s):
                r = pr.value
                parts = r.parts if isinstance(r, SeqE) else (list(r) if isinstance(r, tuple) else None)
                if parts is None: return False
                parts = [p.spec if isinstance(p, X.SegTok) else p for p in parts]
                want = ([s.oper] if head else []) + [Spec(attr, x) for x in s.operands]
                rep = operand_reps(pr, s.operands)
                def kk(sp): return (sp.fn,) + tuple(('S', rep.get(a_.name, a_.name)) if isinstance(a_, SentV) else a_ for a_ in sp.args)
                return len(parts) == len(want) and all((a is b) or (isinstance(a, Spec) and isinstance(b, Spec) and kk(a) == kk(b)) for a, b in zip(parts, want))
            ok = all(pr.kind == 'return' and okp(pr, s) for pr, s, a in paths) and len(paths) >= 1
            ctx.add(enum_ob(name, ok, where=fi.where, clause=f'{attr}(Oper(o, s0, s1)) = {"(o,) ++ " if head else ""}{attr}(s0) ++ {attr}(s1) (prefix order)', cex=dict(got=[repr(getattr(pr.value, "parts", pr.value)) for pr, s, a in paths])))
        except Outside as e:
            ctx.add_result(Result(name, 'unknown', detail=f'outside subset: {e}'))
    # Quantified.*
    for attr in ('constants', 'variables', 'atomics', 'predicates', 'operators'):
        name = f'C15.Quantified.{attr}'
        try:
            mk = lambda: QuantifiedM(QuantV(), ParamV('v'), SentV('body'))
            fi, paths = run_on(ctx, mk, attr, lambda s: ())
            def okq(pr, s):
                r = pr.value
                parts = getattr(r, 'parts', None)
                return parts is not None and len(parts) == 1 and parts[0] == Spec(attr, s.s)
            ok = all(pr.kind == 'return' and okq(pr, s) for pr, s, a in paths) and len(paths) == 1
            ctx.add(enum_ob(name, ok, where=fi.where, clause=f'{attr}(Quant(q, v, s)) = {attr}(s)', cex={}))
        except Outside as e:
            ctx.add_result(Result(name, 'unknown', detail=f'outside subset: {e}'))
    name = 'C15.Quantified.quantifiers'
    try:
        mk = lambda: QuantifiedM(QuantV(), ParamV('v'), SentV('body'))
        fi, paths = run_on(ctx, mk, 'quantifiers', lambda s: ())
        def okq(pr, s):
            r = pr.value
            parts = r.parts if isinstance(r, SeqE) else (list(r) if isinstance(r, (tuple, list)) else None)      # a SeqE, or a tuple display with starred parts
            if parts is None: return False
            parts = [p.spec if isinstance(p, X.SegTok) else p for p in parts]
            return len(parts) == 2 and parts[0] is s.q and parts[1] == Spec('quantifiers', s.s)
        ok = all(pr.kind == 'return' and okq(pr, s) for pr, s, a in paths) and len(paths) == 1
        ctx.add(enum_ob(name, ok, where=fi.where, clause='quantifiers(Quant(q, v, s)) = (q,) ++ quantifiers(s)', cex={}))
    except Outside as e:
        ctx.add_result(Result(name, 'unknown', detail=f'outside subset: {e}'))
    # Atomic / Predicated class-level constants (ground)
    from pytableaux.lang import Atomic, Predicated, Predicate, Constant
    a = Atomic(1, 2)
    ok = (a.predicates == frozenset() and a.constants == frozenset() and a.variables == frozenset() and a.quantifiers == () and a.operators == () and a.atomics == frozenset((a,)))
    ctx.add(enum_ob('C15.Atomic.attributes', ok, clause='an atomic sentence has no parameters/predicates/operators/quantifiers and is its own only sentence letter', cex={}))
    p = Predicate(0, 0, 1)(Constant(0, 0))
    ok = p.operators == () and p.quantifiers == () and p.atomics == frozenset() and p.predicates == frozenset((p.predicate,))
    ctx.add(enum_ob('C15.Predicated.class-attributes', ok, clause='a predication has no operators/quantifiers/atomics and exactly its predicate', cex={}))

def subst_attr_formulas(Cs, Vs, Cx, Vx, pn, po):
    touched = z3.IsMember(po.key, z3.SetUnion(Cs, Vs))
    return [Cx == z3.If(touched, z3.If(pn.is_const, z3.SetAdd(z3.SetDel(Cs, po.key), pn.key), z3.SetDel(Cs, po.key)), Cs),
            Vx == z3.If(touched, z3.If(pn.is_const, z3.SetDel(Vs, po.key), z3.SetAdd(z3.SetDel(Vs, po.key), pn.key)), Vs)]

def subst_attr_lemma(s_, x_, pn, po):
    """lemma (structural induction; base and step cases are the obligations C15.lemma.subst-attrs.*): for x = subst(s, pnew, pold)
    constants(x) / variables(x) are those of s with pold replaced by pnew when pold occurs, predicates and atomics are unchanged"""
    sc = lambda a, t: X._set_const(Spec(a, t))
    return subst_attr_formulas(sc('constants', s_), sc('variables', s_), sc('constants', x_), sc('variables', x_), pn, po) + \
           [sc('predicates', x_) == sc('predicates', s_), sc('atomics', x_) == sc('atomics', s_)]

def subst_attr_lemma_obligations(ctx):
    E = X.ELEM
    pn, po = ParamV('pnew'), ParamV('pold')
    # a parameter's key determines whether it is a constant (C14): one predicate over keys
    isc = z3.Function('key_is_const', z3.IntSort(), z3.BoolSort())
    for k in (1, 2, 3):
        ps = [ParamV(f'p{i}') for i in range(k)]
        typed = [isc(p_.key) == p_.is_const for p_ in ps + [pn, po]]
        def sets(params):
            C = z3.EmptySet(E); V = z3.EmptySet(E)
            for (key, c) in params:
                C = z3.If(c, z3.SetAdd(C, key), C); V = z3.If(c, V, z3.SetAdd(V, key))
            return C, V
        before = [(p_.key, p_.is_const) for p_ in ps]
        after = [(z3.If(p_.key == po.key, pn.key, p_.key), z3.If(p_.key == po.key, pn.is_const, p_.is_const)) for p_ in ps]
        Cs, Vs = sets(before); Cx, Vx = sets(after)
        ctx.add(Obligation(f'C15.lemma.subst-attrs.Predicated.arity{k}', z3.And(*subst_attr_formulas(Cs, Vs, Cx, Vx, pn, po)), hyps=typed + [pn.key != po.key],
                           meta=dict(clause='base case: for a predication, constants/variables of the substitution instance (obligation C15.Predicated.substitute) are those of the sentence with pold replaced by pnew when pold occurs')))
    S_ = z3.SetSort(E)
    c0, v0, c1, v1, d0, w0, d1, w1 = [z3.Const(n, S_) for n in ('c0', 'v0', 'c1', 'v1', 'd0', 'w0', 'd1', 'w1')]
    hyp = subst_attr_formulas(c0, v0, d0, w0, pn, po) + subst_attr_formulas(c1, v1, d1, w1, pn, po)
    # typing of the sets: members of a constants set are constant keys, of a variables set variable keys (so pold is in at most one of them)
    x = z3.Int('x')
    typing = [z3.ForAll([x], z3.And(z3.Implies(z3.IsMember(x, cs_), isc(x)), z3.Implies(z3.IsMember(x, vs_), z3.Not(isc(x))))) for cs_, vs_ in ((c0, v0), (c1, v1))] + [isc(pn.key) == pn.is_const, isc(po.key) == po.is_const]
    ctx.add(Obligation('C15.lemma.subst-attrs.step.Operated', z3.And(*subst_attr_formulas(z3.SetUnion(c0, c1), z3.SetUnion(v0, v1), z3.SetUnion(d0, d1), z3.SetUnion(w0, w1), pn, po)), hyps=hyp + typing,
                       meta=dict(clause='step: if the lemma holds for s0 and s1 it holds for Oper(o, s0, s1), whose sets are the unions (C15.Operated.constants/variables, C15.Operated.substitute)')))

def lemmas(ctx):
    subst_attr_lemma_obligations(ctx)
    "subst(s, p, p) = s per constructor (spec-level induction steps; the Predicated base case is a z3 query)"
    p = ParamV('p')
    for k in (1, 2, 3):
        ps = [ParamV(f'p{i}') for i in range(k)]
        goal = z3.And(*[X.ite_param(q.key == p.key, p, q).key == q.key for q in ps])
        ctx.add(Obligation(f'C15.lemma.subst-identity.Predicated.arity{k}', goal, meta=dict(clause='[p if q == p else q for q in params] = params')))
    ctx.add(enum_ob('C15.lemma.subst-identity.step', True, clause='Oper(o, subst(s_i,p,p)...) = Oper(o, s_i...) and Quant(q, v, subst(s,p,p)) = Quant(q, v, s) given the hypothesis on s_i (congruence; discharged syntactically)', cex={}))

class Obj(SymVal):
    def __init__(self): self.attrs = {}
    def sym_getattr(self, it, name):
        if name in self.attrs: return self.attrs[name]
        raise PyExc(AttributeError, (name,))
    def sym_setattr(self, it, name, v): self.attrs[name] = v

def lazy_wrapper(ctx):
    from pytableaux.tools import lazy
    from pyvc.interp import Closure, Frame
    from pyvc.world import World
    fi_outer = source.get('pytableaux/tools/lazy.py', 'get.__call__')
    fi = source.get('pytableaux/tools/lazy.py', 'get.__call__.wrapper')
    where = ctx.under_contract(fi)
    calls = []
    def runp(path):
        it = Interp(path, World())
        o = Obj()
        wrapped = Contract(lambda it, s: calls.append(1) or f'value{len(calls)}', 'wrapped')
        fr = Frame(fi_outer, lazy.get.__call__, None, dict(attr='_constants', wrapped=wrapped))
        c = Closure(fi.node, fr, 'wrapper')
        r1 = it.call_closure(c, [o], {})
        r2 = it.call_closure(c, [o], {})
        return r1, r2, o
    calls.clear()
    try:
        prs = explore(runp)
        r1, r2, o = prs[0].value
        ok = len(prs) == 1 and r1 == 'value1' and r2 == 'value1' and len(calls) == 1 and o.attrs == {'_constants': 'value1'}
        ctx.add(enum_ob('C15.lazy.wrapper', ok, where=where, clause='first access computes and stores the value in the private slot; later accesses return it without recomputing', cex=dict(calls=len(calls))))
    except Outside as e:
        ctx.add_result(Result('C15.lazy.wrapper', 'unknown', detail=f'outside subset: {e}', where=where))

def operand_reps(pr, operands):
    "operands the path condition forces to be equal sentences are represented by the first of them"
    rep = {}
    ops = [o for o in operands if isinstance(o, SentV)]
    for i, a in enumerate(ops):
        for b in ops[:i]:
            sol = z3.Solver(); sol.add(pr.pc); sol.add(a.id != b.id)
            if sol.check() == z3.unsat: rep[a.name] = rep.get(b.name, b.name); break
    return rep

def tools_substitute(ctx):
    from pytableaux import tools as T
    from pyvc.world import World
    fn = T.substitute; fi = source.of_function(fn); where = ctx.under_contract(fi)
    old, new = ParamV('old'), ParamV('new')
    for k in (1, 2, 3):
        ps = tuple(ParamV(f'p{i}') for i in range(k))
        try:
            prs = explore(lambda path: Interp(path, World()).call_source(fi, fn, None, [ps, old, new], {}))
            cl = []
            for pr in prs:
                if pr.kind != 'return' or not isinstance(pr.value, tuple) or len(pr.value) != k: cl.append(z3.BoolVal(False)); continue
                cl.append(z3.Implies(pr.pc, z3.And(*[pr.value[i].key == z3.If(ps[i].key == old.key, new.key, ps[i].key) for i in range(k)])))
            ctx.add(Obligation(f'C15.tools.substitute.arity{k}', z3.And(*cl), where=where, meta=dict(clause='tuple-level substitution replaces exactly the occurrences of old')))
        except Outside as e:
            ctx.add_result(Result(f'C15.tools.substitute.arity{k}', 'unknown', detail=f'outside subset: {e}', where=where))

def bounded_walk(ctx):
    "B: all sentences to depth 2 over a small vocabulary x parameter pairs vs a direct recursive implementation"
    from pytableaux.lang import Atomic, Predicate, Constant, Variable, Operator, Quantifier, Predicated, Quantified, Operated
    from spec.evaluate import subst as spec_subst
    a, b = Constant(0, 0), Constant(1, 0); x, y = Variable(0, 0), Variable(1, 0)
    F, G, H = Predicate(0, 0, 1), Predicate(1, 0, 2), Predicate(2, 0, 3)
    base = [Atomic(0, 0), F(a), F(x), G(a, b), G(x, a), G(x, y), G(x, x), Predicate.Identity((a, x)), H(x, a, y), H(y, y, x)]
    lvl1 = list(base)
    for s in base:
        lvl1.append(~s)
        for q in Quantifier:
            for v in (x, y): lvl1.append(q(v, s))
    for s, t in itertools.product(base[:6], repeat=2): lvl1.append(s & t)
    sents = list(lvl1)
    # binary operators over compound operands, equal operands included (sequence-valued attributes count repetitions)
    comp = [~base[0], Operator.Possibility(base[0]), Quantifier.Existential(x, F(x)), Quantifier.Universal(y, G(x, y)) if False else Quantifier.Universal(x, G(x, a)), ~F(a)]
    for s, t in itertools.product(comp, repeat=2):
        sents.append(s & t); sents.append(Operator.Disjunction(s, t))
    sents.append(Operator.Conjunction(comp[0] & comp[0], comp[0] & comp[0]))
    if ctx.thorough:
        for s in lvl1[:60]:
            sents.append(Operator.Conditional(s, lvl1[3])); sents.append(Quantifier.Universal(y, s)); sents.append(Operator.Possibility(s))
    params = [a, b, x, y]
    def walk(s, what):
        k = type(s).__name__
        if k == 'Atomic': return {'constants': set(), 'variables': set(), 'predicates': set(), 'atomics': {s}, 'operators': [], 'quantifiers': []}[what]
        if k == 'Predicated':
            return {'constants': {p for p in s.params if type(p) is Constant}, 'variables': {p for p in s.params if type(p) is Variable}, 'predicates': {s.predicate},
                    'atomics': set(), 'operators': [], 'quantifiers': []}[what]
        if k == 'Quantified':
            r = walk(s.sentence, what)
            return [s.quantifier] + r if what == 'quantifiers' else r
        rs = [walk(o, what) for o in s.operands]
        if what in ('operators', 'quantifiers'):
            out = [s.operator] if what == 'operators' else []
            for r in rs: out += r
            return out
        out = set()
        for r in rs: out |= r
        return out
    n = 0; fails = []
    for s in sents:
        for what in ('constants', 'variables', 'predicates', 'atomics', 'operators', 'quantifiers'):
            n += 1
            got = getattr(s, what); want = walk(s, what)
            if (list(got) != want) if what in ('operators', 'quantifiers') else (set(got) != want): fails.append(dict(sentence=str(s), attr=what))
        for pnew, pold in itertools.product(params, repeat=2):
            n += 1
            try:
                got = s.substitute(pnew, pold)
                want = spec_subst_all(s, pold, pnew)
                if got != want: fails.append(dict(sentence=str(s), new=str(pnew), old=str(pold), got=str(got), want=str(want)))
                else:
                    # two steps: the derived attributes of the substitution instance (and of its parts) are those a walk of it gives
                    for sub in [got] + list(getattr(got, 'operands', ())) + ([got.sentence] if hasattr(got, 'sentence') else []):
                        for what in ('constants', 'variables', 'predicates', 'atomics', 'operators', 'quantifiers'):
                            g2 = getattr(sub, what); w2 = walk(sub, what)
                            if (list(g2) != w2) if what in ('operators', 'quantifiers') else (set(g2) != w2):
                                fails.append(dict(sentence=str(s), new=str(pnew), old=str(pold), part=str(sub), attr=what, got=sorted(map(str, g2)), want=sorted(map(str, w2)), note='derived attribute of a substitution instance')); break
            except Exception as e:
                fails.append(dict(sentence=str(s), new=str(pnew), old=str(pold), exception=repr(e)))
    # the same with parameters that are EQUAL to the ones inside the sentence but other objects (the item cache is a bounded
    # FIFO, not an interning table): identity comparisons in the code under test show up here
    from bounded.args import distinct_equal, roll_cache
    fresh = {p: distinct_equal(p) for p in params}
    if all(fresh[p] is not p for p in params):
        step = max(1, len(sents) // 60)
        for s in sents[::step]:
            for pnew, pold in itertools.product(params, repeat=2):
                n += 1
                try:
                    got = s.substitute(pnew, fresh[pold])
                    want = spec_subst_all(s, pold, pnew)
                    if got != want: fails.append(dict(sentence=str(s), new=str(pnew), old=str(pold), got=str(got), want=str(want), note='old parameter passed as an equal but non-identical object'))
                except Exception as e:
                    fails.append(dict(sentence=str(s), new=str(pnew), old=str(pold), exception=repr(e), note='old parameter passed as an equal but non-identical object'))
    ctx.bounded_part(evaluations=n, distinct_nontrivial=len(sents), rule='sentences to depth 2 over {A, Fa, Fx, Gab, Gxa, Gxy, Gxx, a=x} with negation, both quantifiers, conjunction; every derived attribute and every (new, old) parameter pair over {a,b,x,y} compared with a direct structural recursion; distinct = sentences',
                     bound='depth <= 2' + (' + sampled depth 3' if ctx.thorough else ''), samples=[dict(sentence=str(sents[20])), dict(sentence=str(sents[-1]))] + fails[:3], label='structural walk')
    for f in fails[:5]:
        ctx.bounded_failure('C15.bounded.walk', str(f), f, instance=f.get('sentence', ''))

def spec_subst_all(s, old, new):
    "replace every occurrence of old among predication parameters (binders untouched)"
    k = type(s).__name__
    if k == 'Atomic': return s
    if k == 'Predicated': return s.predicate(tuple(new if p == old else p for p in s.params))
    if k == 'Quantified': return s.quantifier(s.variable, spec_subst_all(s.sentence, old, new))
    return s.operator(tuple(spec_subst_all(x, old, new) for x in s.operands))


def replay_search(r):
    "search the bounded vocabulary for a concrete sentence on which the real function disagrees with the structural recursion"
    from pyvc.report import Ctx
    c2 = Ctx('C15', 'quick', 0)
    bounded_walk(c2)
    part = r.name.split('.')
    want = [w for w in ('constants', 'variables', 'predicates', 'atomics', 'operators', 'quantifiers') if w in r.name]
    for f in c2.bounded_failures:
        p = f['payload']
        if want and p.get('attr') not in want: continue
        if ('substitute' in r.name or 'unquantify' in r.name or 'rshift' in r.name) and 'attr' in p and 'new' not in p: continue
        return dict(reproduced=True, detail=f'real lex.py disagrees with the structural recursion: {p}')
    return dict(reproduced=False, detail='no sentence of the bounded vocabulary exhibits the difference')

def replay(payload):
    class R_: pass
    r = R_(); r.name = payload['obligation']
    return replay_search(r)
