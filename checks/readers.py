"""C13 — the prefix readers of lang/parsing.py (DefaultParser._read*, PolishParser._read_operated) under contract.

Every reader is interpreted from source over the symbolic ParseContext of contracts/parsing.py (SMT-array input, integer
pos, uninterpreted table functions).  Inside a reader the *other* readers are replaced by their contract, and the
obligation of each reader is that very contract (modular, consistent):

    reader(context) either raises a ParseError (or a subclass), leaving nothing to say about the context,
                    or returns with  pos_old (<|<=) pos_new <= len(input)  and the bound-variable set unchanged;
    nothing else escapes: no KeyError / IndexError / TypeError / ValueError / AttributeError on any path.

Preconditions are the facts the dispatching caller established (e.g. `_read_atomic` runs only when the current symbol
is in the table with type Atomic); a callee used outside its precondition raises KeyError in the model, so a caller
that forgets to establish it fails its own obligation.  The two `while` loops get sidecar invariants and variants.
"""
from __future__ import annotations
import types
import z3
from pyvc import source
from pyvc.interp import Interp, explore, Outside, PyExc, SymVal, Contract, BoundSource, GenList, LoopSpec, LocalList, ExcValue
from pyvc.smt import Obligation, Result
from contracts import parsing as PM
from contracts.parsing import CtxM, CharV, CTypeV, VarV, SentVars, BoundSet, CT, INTAB, type_code, DIGIT

FILE = 'pytableaux/lang/parsing.py'

# ------------------------------------------------------------------ tokens

class ValTok(SymVal):
    "context.value(char): the table item value (an index, an Operator, a Quantifier, a system predicate name)"
    def __init__(self, ch): self.ch = ch
    def sym_call(self, it, args, kw):
        # a Quantifier applied to (variable, sentence) / anything callable stored in the table: builds a sentence
        return SentTok(it)
    def sym_truth(self, it): return True

class CoordsTok(SymVal):
    "BiCoords(index, subscript)"
    def __init__(self, index, sub): self.index, self.sub = index, sub
    def sym_iter(self, it): return [self.index, self.sub]
    def sym_len(self, it): return 2
    def sym_truth(self, it): return True

class SentTok(SentVars):
    "a sentence built by a reader: only the set of its variables matters (unbind asks for it)"
    n = 0
    def __init__(self, it):
        SentTok.n += 1
        super().__init__(z3.Const(f'sent{SentTok.n}.vars!{id(self) % 9973}', z3.SetSort(z3.IntSort())))
    def sym_truth(self, it): return True

class ParamTok(VarV):
    def __init__(self, it): super().__init__(it.fresh_int('param.key'))
    def sym_truth(self, it): return True

class PredTok(SymVal):
    def __init__(self, it, arity=None, coords=None):
        self.coords = coords
        self.arity = arity if arity is not None else it.fresh_int('arity')
        if arity is None: it.assume(self.arity >= 1)
    def sym_getattr(self, it, name):
        if name == 'arity': return self.arity
        raise Outside(f'Predicate.{name}')
    def sym_call(self, it, args, kw):
        it.iterate(args[0]) if args and not isinstance(args[0], (AbsSeq, ParamTok, RestTok)) else None
        return SentTok(it)
    def sym_truth(self, it): return True

class OperTok(SymVal):
    def __init__(self, it):
        self.arity = 1 if it.fork(it.fresh_bool('oper_is_unary')) else 2        # operators are unary or binary (Operator enum)
    def sym_getattr(self, it, name):
        if name == 'arity': return self.arity
        if name == 'name': return '<operator>'
        raise Outside(f'Operator.{name}')
    def sym_call(self, it, args, kw):
        for a in args:
            if not isinstance(a, (SentTok, AbsSeq, RestTok)): it.iterate(a)        # an operand generator is consumed (the readers run here)
        return SentTok(it)

class RestTok(SymVal):
    "all the elements of an abstract sequence, where it is star-unpacked into a call or a tuple display"
    def __init__(self, seq): self.seq = seq
    def sym_truth(self, it): return True

class AbsSeq(SymVal):
    "a sequence of parameters of unknown length"
    def __init__(self, it): self.n = it.fresh_int('nparams'); it.assume(self.n >= 0)
    def sym_len(self, it): return self.n
    def sym_truth(self, it): return self.n > 0
    def sym_iter(self, it): return [RestTok(self)]

class AbsStr(SymVal):
    "a string assembled from table values: its content is unknown (int() may accept or reject it)"
    def sym_truth(self, it): return it.fork(it.fresh_bool('str_nonempty'))
    def sym_int(self, it):
        if it.fork(it.fresh_bool('int_rejects')): raise PyExc(ValueError, ('invalid literal',))
        v = it.fresh_int('subscript'); it.assume(v >= 0); return v

class AbsList(SymVal):
    "the digit buffer after an arbitrary number of iterations"
    def sym_iter(self, it): return [AbsStr()]
    def sym_getattr(self, it, name):
        if name == 'append': return Contract(lambda it, x: None, 'deque.append')
        raise Outside(f'deque.{name}')

class TableV2(SymVal):
    def sym_getitem(self, it, ch):
        if ch is None: raise PyExc(KeyError, (None,))
        if not isinstance(ch, CharV): raise Outside('table[<non-char>]')
        if not it.fork(INTAB(ch.code)): raise PyExc(KeyError, ())
        class E(SymVal):
            def sym_getitem(s, it, k):
                if k == 0: return CTypeV2(CT(ch.code))
                if k == 1: return ValTok(ch)
                raise PyExc(IndexError, ())
        return E()

class CTypeV2(CTypeV):
    "a table item type; calling it builds the item (Constant(coords) / Variable(coords))"
    def sym_call(self, it, args, kw): return ParamTok(it)
    def __hash__(self): return id(self)

class MethodMap(SymVal):
    "DefaultParser._methodmap: item type -> reader name (the live mapping, looked up by type code)"
    def __init__(self, live): self.live = dict(live)
    def sym_getitem(self, it, k):
        if k is None: raise PyExc(KeyError, (None,))
        if not isinstance(k, CTypeV): raise Outside('methodmap key')
        for cls, name in self.live.items():
            if it.fork(k.code == type_code(cls)): return name
        raise PyExc(KeyError, ())

class Opts(SymVal):
    def sym_getitem(self, it, k):
        if k == 'auto_preds': return it.fork(it.fresh_bool('auto_preds'))
        raise Outside(f'opts[{k!r}]')

class Store(SymVal):
    """parser.predicates, one object per parser: get(coords) finds a predicate or raises KeyError and then the symbol is known to be
    missing from THIS store; add(p) succeeds for a predicate built from coordinates this store reported missing (nothing was added
    since: one add per reader call), and may raise the store's ValueError (value conflict) for any other predicate"""
    def __init__(self): self.missing = []
    def is_missing(self, coords):
        return any(coords is m or (isinstance(coords, CoordsTok) and isinstance(m, CoordsTok) and coords.index is m.index and coords.sub is m.sub) for m in self.missing)
    def sym_truth(self, it): return True
    def sym_getattr(self, it, name):
        if name == 'get':
            def get(it, coords):
                if it.fork(it.fresh_bool('pred_known')): return PredTok(it)
                self.missing.append(coords)
                raise PyExc(KeyError, ())
            return Contract(get, 'Predicates.get')
        if name == 'add':
            def add(it, p_):
                src = getattr(p_, 'coords', None)
                if src is not None and self.is_missing(src): return None
                if it.fork(it.fresh_bool('add_conflicts')): raise PyExc(ValueError, ('value conflict',))
                return None
            return Contract(add, 'Predicates.add')
        raise Outside(f'Predicates.{name}')

# ------------------------------------------------------------------ the parser model

STANDARD_READERS = ('_read_operated', '_read_infix_predicated', '_read_from_paren_open')
READERS = ('_read', '_read_atomic', '_read_predicated', '_read_quantified', '_read_predicate', '_read_params', '_read_params_auto',
           '_read_parameter', '_read_subscript', '_read_coords', '_read_operated')
STRICT = {'_read_infix_predicated', '_read_from_paren_open', '_read', '_read_atomic', '_read_predicated', '_read_quantified', '_read_predicate', '_read_parameter', '_read_coords', '_read_operated'}

def parse_error_classes():
    from pytableaux.errors import ParseError, UndefinedPredicateError
    return ParseError, UndefinedPredicateError

def precondition(name, c):
    "what the dispatching caller has established when it enters the reader"
    from pytableaux.lang import Atomic, Quantifier, Operator, Variable
    cur = c.input.A[c.pos]
    have = z3.And(c.pos < c.input.n, INTAB(cur))
    if name in ('_read_atomic',): return [have, CT(cur) == type_code(Atomic)]
    if name == '_read_quantified': return [have, CT(cur) == type_code(Quantifier)]
    if name == '_read_operated': return [have, CT(cur) == type_code(Operator)]
    if name in ('_read_predicated', '_read_predicate'):
        from pytableaux.lang import Predicate
        return [have, z3.Or(CT(cur) == type_code(Predicate), CT(cur) == type_code(Predicate.System))]
    if name == '_read_coords': return [have]
    if name == '_read_from_paren_open':
        from pytableaux.lang import Marking
        return [have, CT(cur) == type_code(Marking.paren_open)]
    if name == '_read_infix_predicated':
        from pytableaux.lang import Constant
        return [have, z3.Or(CT(cur) == type_code(Constant), CT(cur) == type_code(Variable))]
    return [c.pos <= c.input.n]

class ParserM(SymVal):
    def __init__(self, parsercls, under_test):
        self.cls, self.under_test = parsercls, under_test
        self.inlined = {}
        self.store = Store()
    def _callee(self, name):
        PE, UPE = parse_error_classes()
        pm = self
        def effect(it, c, strict):
            "the callee consumed input: pos moves forward, stays within the input; the bound set is as before"
            p1 = it.fresh_int('pos')
            it.assume(z3.And((p1 > c.pos) if strict else (p1 >= c.pos), p1 <= c.input.n))
            c.pos = p1
        def maybe_fail(it, cls=None):
            if it.fork(it.fresh_bool(f'{name}_fails')): raise PyExc(cls or PE, ('<parse error>',))
        def need(it, c):
            "precondition of the callee: violated -> the KeyError the real code would raise"
            for g in precondition(name, c):
                if not it.fork(g): raise PyExc(KeyError, (f'{name} entered outside its precondition',))
        if name in ('_read', '_read_atomic', '_read_quantified', '_read_operated', '_read_predicated', '_read_infix_predicated', '_read_from_paren_open'):
            def f(it, c):
                need(it, c); maybe_fail(it); effect(it, c, True); return SentTok(it)
            return Contract(f, f'{name} (contract)')
        if name == '_read_coords':
            def f(it, c):
                need(it, c); maybe_fail(it); effect(it, c, True); return CoordsTok(it.fresh_int('index'), it.fresh_int('sub'))
            return Contract(f, '_read_coords (contract)')
        if name == '_read_subscript':
            def f(it, c):
                maybe_fail(it); effect(it, c, False); v = it.fresh_int('sub'); it.assume(v >= 0); return v
            return Contract(f, '_read_subscript (contract)')
        if name == '_read_parameter':
            def f(it, c):
                maybe_fail(it); effect(it, c, True); return ParamTok(it)
            return Contract(f, '_read_parameter (contract)')
        if name == '_read_params':
            def f(it, c, num):
                maybe_fail(it); effect(it, c, False); return AbsSeq(it)
            return Contract(f, '_read_params (contract)')
        if name == '_read_params_auto':
            def f(it, c):
                maybe_fail(it); effect(it, c, False); return AbsSeq(it)
            return Contract(f, '_read_params_auto (contract)')
        if name == '_read_predicate':
            def f(it, c):
                need(it, c)
                if it.fork(it.fresh_bool('undefined_predicate')):
                    effect(it, c, True)          # the symbol was consumed before the lookup failed
                    ct = CoordsTok(it.fresh_int('index'), it.fresh_int('sub'))
                    pm.store.missing.append(ct)  # ... in the parser's own store (postcondition checked on _read_predicate itself)
                    raise PyExc(UPE, (ct, '<msg>'))
                maybe_fail(it); effect(it, c, True); return PredTok(it)
            return Contract(f, '_read_predicate (contract)')
        raise Outside(f'parser.{name}')
    def sym_getattr(self, it, name):
        if name == '_methodmap': return MethodMap(self.cls._methodmap)
        if name == 'opts': return Opts()
        if name == 'predicates': return self.store
        if name in READERS or name in STANDARD_READERS:
            if name == self.under_test:
                for c in self.cls.__mro__:
                    if name in c.__dict__ and isinstance(c.__dict__[name], types.FunctionType):
                        fi = source.of_function(c.__dict__[name]); self.inlined[fi.key] = fi
                        return BoundSource(fi, c.__dict__[name], c, self)
                raise Outside(f'{name} not found')
            return self._callee(name)
        from pyvc.interp import private_helper
        ok_, v_ = private_helper(it, self.cls, name, self, self.inlined)
        if ok_: return v_
        raise Outside(f'parser.{name}')
    def sym_truth(self, it): return True

class CtxR(CtxM):
    "ParseContext with callable table values; context.predicates is the store of the parser that opened it (obligations C13.store.*)"
    store = None
    def __init__(self, pfx='c'):
        super().__init__(pfx); self.table = TableV2()
    def sym_getattr(self, it, name):
        if name == 'predicates' and self.store is not None: return self.store
        return super().sym_getattr(it, name)

def readers_world(parsercls):
    from pytableaux.lang import parsing as P, lex
    from pytableaux.lang import Atomic, Variable, Predicate, Operator
    from collections import deque
    w = PM.parsing_world()
    w.builtin_models[deque] = lambda it, xs=(), maxlen=None: LocalList(it.iterate(xs))
    w.builtin_models[str] = lambda it, x='': (AbsStr() if isinstance(x, SymVal) or isinstance(x, z3.ExprRef) else str(x))
    w.builtin_models[tuple] = lambda it, x=(): (x if isinstance(x, AbsSeq) else tuple(it.iterate(x)))
    base_int = w.builtin_models[int]
    w.builtin_models[int] = lambda it, x=0: (x.sym_int(it) if isinstance(x, AbsStr) else base_int(it, x))
    w.contract(Atomic, lambda it, coords: SentTok(it), name='Atomic(coords) (constructor: coordinates read from the table are valid)')
    w.contract(Variable, lambda it, coords: ParamTok(it), name='Variable(coords)')
    w.contract(P.BiCoords, lambda it, i, s: CoordsTok(i, s), name='BiCoords(index, subscript)')
    def predicate(it, *a):
        # Predicate(index, subscript, arity) raises ValueError for an unusable arity; Predicate(<system name>) finds the system predicate
        if len(a) >= 3 and it.fork(it.fresh_bool('predicate_ctor_rejects')): raise PyExc(ValueError, ('arity',))
        return PredTok(it, a[2] if len(a) >= 3 and isinstance(a[2], z3.ArithRef) else None, coords=CoordsTok(a[0], a[1]) if len(a) >= 3 else None)
    w.contract(Predicate, predicate, name='Predicate(...) (constructor: ValueError for an unusable spec)')
    w.contract(Operator, lambda it, v: OperTok(it), name='Operator(value) (enum lookup of a table value of type Operator)')
    orig = w.call_builtin_method
    def cbm(it, f, args, kw):
        if isinstance(f.__self__, str) and f.__name__ == 'join': it.iterate(args[0]); return AbsStr()
        return orig(it, f, args, kw)
    w.call_builtin_method = cbm
    def exc_attr(it, what, args):
        if what == ('getattr', 'coords') and isinstance(args[0], ExcValue) and args[0].args: return args[0].args[0]
        if what == ('len',) and isinstance(args[0], tuple) and any(isinstance(x, RestTok) for x in args[0]):
            # (first, *rest): the display's length is the explicit items plus the abstract sequence's length
            return sum(1 for x in args[0] if not isinstance(x, RestTok)) + sum(x.seq.n for x in args[0] if isinstance(x, RestTok))
        return NotImplemented
    w.attr_hooks.append(exc_attr)
    orig_contains = w.native_contains
    def contains(container, x, it):
        if isinstance(x, CTypeV) and isinstance(container, (frozenset, set, tuple, list)):
            return it.fork(z3.Or(*[x.code == type_code(k) for k in container])) if container else False
        if x is None and isinstance(container, (frozenset, set)): return False
        return orig_contains(container, x, it)
    w.native_contains = contains
    # loops
    fi = source.get(FILE, 'DefaultParser._read_subscript')
    def on_entry(it, fr): fr.locals['_pos0'] = fr.locals['context'].pos; fr.locals['_bound0'] = fr.locals['context'].bound.S
    def inv(it, fr):
        c = fr.locals['context']
        return [('range', z3.And(fr.locals['_pos0'] <= c.pos, c.pos <= c.input.n)), ('bound', c.bound.S == fr.locals['_bound0'])]
    def havoc(it, fr):
        fr.locals['context'].pos = it.fresh_int('pos'); fr.locals['digits'] = AbsList()
    import ast as _ast
    def _names(st): return {n.id for n in _ast.walk(st) if isinstance(n, _ast.Name)}
    def _calls(st): return {n.func.attr for n in _ast.walk(st) if isinstance(n, _ast.Call) and isinstance(n.func, _ast.Attribute)}
    w.loop(fi.key, 0, LoopSpec(invariant=inv, havoc=havoc, variant=lambda it, fr: fr.locals['context'].input.n - fr.locals['context'].pos, on_entry=on_entry),
           shape=lambda f, st: isinstance(st, _ast.While) and 'digits' in _names(st) and 'advance' in _calls(st) and 'append' in _calls(st))
    fi2 = source.get(FILE, 'DefaultParser._read_params_auto')
    def havoc2(it, fr): fr.locals['context'].pos = it.fresh_int('pos')
    w.loop(fi2.key, 0, LoopSpec(invariant=inv, havoc=havoc2, variant=lambda it, fr: fr.locals['context'].input.n - fr.locals['context'].pos, on_entry=on_entry),
           shape=lambda f, st: isinstance(st, _ast.While) and any(isinstance(n, _ast.Yield) for n in _ast.walk(st)) and 'context' in _names(st) | {a.arg for a in f.node.args.posonlyargs + f.node.args.args})
    fi3 = source.get(FILE, 'StandardParser._read_from_paren_open')
    def on_entry3(it, fr): on_entry(it, fr)
    def inv3(it, fr):
        c = fr.locals['context']; L_ = fr.locals['length']; d = fr.locals['depth']
        return [('state', z3.And(c.pos == fr.locals['_pos0'], c.bound.S == fr.locals['_bound0'])),
                ('scan', z3.And(L_ >= 1, d >= 0, c.pos + L_ <= c.input.n))]
    def havoc3(it, fr):
        fr.locals['depth'] = it.fresh_int('depth'); fr.locals['length'] = it.fresh_int('length')
        fr.locals['oper'] = OperTok2(it) if it.fork(it.fresh_bool('oper_found')) else None
        fr.locals['oper_pos'] = it.fresh_int('oper_pos') if fr.locals['oper'] is not None else None
    w.loop(fi3.key, 0, LoopSpec(invariant=inv3, havoc=havoc3, variant=lambda it, fr: fr.locals['context'].input.n - fr.locals['context'].pos - fr.locals['length'] + 1, on_entry=on_entry3),
           shape=lambda f, st: isinstance(st, _ast.While) and isinstance(st.test, _ast.Name) and st.test.id == 'depth' and {'length', 'oper', 'oper_pos'} <= _names(st))
    return w

class OperTok2(SymVal):
    "an Operator whose arity is a symbolic 1 or 2 (compared, never iterated over)"
    def __init__(self, it): self.arity = it.fresh_int('arity'); it.assume(z3.Or(self.arity == 1, self.arity == 2))
    def sym_getattr(self, it, name):
        if name == 'arity': return self.arity
        if name == 'name': return '<operator>'
        raise Outside(f'Operator.{name}')
    def sym_call(self, it, args, kw): return SentTok(it)
    def sym_is(self, it, o): return self is o
    def sym_truth(self, it): return True


# ------------------------------------------------------------------ which store the readers work on

class _Rec(SymVal):
    "an object whose attribute writes are recorded"
    def __init__(s, **attrs): s.attrs = dict(attrs); s.written = {}
    def sym_setattr(s, it, name, v): s.written[name] = v; s.attrs[name] = v
    def sym_getattr(s, it, name):
        if name in s.attrs: return s.attrs[name]
        raise PyExc(AttributeError, (name,))
    def sym_truth(s, it): return True
    def sym_is(s, it, o): return s is o
    def sym_isinstance(s, it, cls): return False

class _T(SymVal):
    def __init__(s, name): s.name = name
    def __repr__(s): return s.name
    def sym_truth(s, it): return True
    def sym_is(s, it, o): return s is o
    def sym_isinstance(s, it, cls): return False

def store_obligations(ctx):
    """the readers' contracts speak of ONE predicate store: the parser's.  ParseContext.__init__ keeps the store it is given (the same
    object, not a snapshot), and DefaultParser.__call__ opens the context on the parser's own table and store and reads from it."""
    from pytableaux.lang import parsing as P
    from pytableaux.lang import Predicates
    from pytableaux.tools import qsetf
    fn = P.ParseContext.__dict__['__init__']; fi = source.of_function(fn); where = ctx.under_contract(fi)
    name = 'C13.store.ParseContext.__init__.keeps-the-given-store'
    try:
        w = PM.parsing_world()
        fresh = lambda what: (lambda it, *a, **k: _T(f'<new {what}>'))
        for ctor, what in ((Predicates, 'Predicates'), (Predicates.Frozen, 'Predicates.Frozen'), (qsetf, 'qsetf')):
            w.contract(ctor, fresh(what), name=f'{what}(...) (constructor: a new collection)')
        for b in (tuple, list, set, frozenset, dict): w.builtin_models[b] = fresh(b.__name__)
        inp, tab, st = _T('input'), _T('table'), _T('store')
        def run(path):
            it = Interp(path, w); me = _Rec()
            it.call_source(fi, fn, P.ParseContext, [me, inp, tab, st], {})
            return me
        prs = explore(run)
        bad = []
        for pr in prs:
            if pr.kind != 'return': bad.append(f'path ends with {pr.kind}'); continue
            me = pr.value
            for attr, want in (('input', inp), ('table', tab), ('predicates', st)):
                if me.attrs.get(attr) is not want: bad.append(f'self.{attr} is {me.attrs.get(attr)!r}, not the {want!r} it was given')
        ctx.add(Obligation(name, not bad and len(prs) >= 1, kind='enum', where=where, meta=dict(paths=len(prs), cex=dict(bad=bad[:4]) if bad else None,
                           clause='after ParseContext(input, table, predicates): self.input / self.table / self.predicates are the very objects given (the store is shared with the parser, so a predicate declared while parsing is seen by the next lookup)')))
    except Outside as e:
        ctx.add_result(Result(name, 'unknown', detail=f'outside subset: {e}', where=where))
    fn2 = P.DefaultParser.__dict__['__call__']; fi2 = source.of_function(fn2); where2 = ctx.under_contract(fi2)
    name2 = 'C13.store.DefaultParser.__call__.context-on-own-store'
    try:
        w = PM.parsing_world()
        made = []
        class CM(SymVal):
            def __init__(s, args): s.args = args; s.entered = _T('context')
            def sym_getattr(s, it, n):
                if n == '__enter__': return Contract(lambda it: s.entered, 'ParseContext.__enter__ (returns the opened context)')
                if n == '__exit__': return Contract(lambda it, *a: None, 'ParseContext.__exit__')
                raise Outside(f'ParseContext.{n}')
        def mk(it, *a):
            cm = CM(a); made.append(cm); return cm
        w.contract(P.ParseContext, mk, name='ParseContext(input, table, predicates)')
        inp, tab, st, res = _T('input'), _T('table'), _T('store'), _T('sentence')
        bad = []
        def run(path):
            del made[:]
            it = Interp(path, w); reads = []
            me = _Rec(table=tab, predicates=st, _read=Contract(lambda it, c: (reads.append(c), res)[1], 'self._read'))
            r = it.call_source(fi2, fn2, P.DefaultParser, [me, inp], {})
            return r, list(made), reads, me
        prs = explore(run)
        for pr in prs:
            if pr.kind != 'return': bad.append(f'path ends with {pr.kind}'); continue
            r, mades, reads, me = pr.value
            if me.written: bad.append(f'writes parser attributes {sorted(me.written)}')
            if len(mades) != 1 or len(mades[0].args) != 3 or mades[0].args[0] is not inp or mades[0].args[1] is not tab or mades[0].args[2] is not st:
                bad.append(f'context opened on {[tuple(map(repr, m.args)) for m in mades]}, not on (input, self.table, self.predicates)')
            elif len(reads) != 1 or reads[0] is not mades[0].entered or r is not res: bad.append('does not return self._read(<the opened context>)')
        ctx.add(Obligation(name2, not bad and len(prs) >= 1, kind='enum', where=where2, meta=dict(paths=len(prs), cex=dict(bad=bad[:4]) if bad else None,
                           clause='parser(input) for a string opens exactly one ParseContext(input, self.table, self.predicates) and returns self._read(context) of the opened context')))
    except Outside as e:
        ctx.add_result(Result(name2, 'unknown', detail=f'outside subset: {e}', where=where2))

def replay_store(r):
    "a predicate first used (and so declared) earlier in the same input must be seen by the later uses"
    from pytableaux.lang import Parser, Predicates
    from pytableaux.errors import ParseError
    out = []
    for notn, texts in (('polish', ('KFmFmn', 'KFmnFm', 'KGmGm')), ('standard', ('Fm & Fmn', 'Fmn & Fm'))):
        for text in texts:
            p = Parser(notn, Predicates())
            try: p(text)
            except ParseError: pass
            except Exception as e: out.append(f'{notn} {text!r}: {type(e).__name__}: {e}')
    return dict(reproduced=bool(out), detail='; '.join(out[:4]) or 'inputs that re-use an auto-declared predicate end with a sentence or a ParseError')

# ------------------------------------------------------------------ obligations

def reader_obligations(ctx):
    from pytableaux.lang.parsing import DefaultParser, PolishParser
    from pytableaux.lang.parsing import StandardParser
    PE, UPE = parse_error_classes()
    for pcls, name in [(PolishParser, n_) for n_ in READERS] + [(StandardParser, n_) for n_ in STANDARD_READERS]:
        oname = f'C13.reader.{name}' if pcls is PolishParser else f'C13.reader.standard.{name}'
        world = readers_world(pcls)
        holder = []
        extra_args = {'_read_params': [0, 1, 2, 3]}.get(name, [None])
        paths = []; und = None; fi0 = None
        for extra in extra_args:
            def run(path, extra=extra):
                it = Interp(path, world)
                c = CtxR('c')
                for h in c.wf(): path.assume(h)
                path.assume(c.pos <= c.input.n)
                for g in precondition(name, c): path.assume(g)
                pm = ParserM(pcls, name)
                c.store = pm.store
                old = dict(pos=c.pos, bound=c.bound.S)
                f = pm.sym_getattr(it, name)
                holder.append((path, c, old, pm))
                args = [c] + ([extra] if extra is not None else [])
                r = it.call(f, args, {})
                if name in ('_read_params', '_read_params_auto'): r = it.iterate(r)        # generators: run to exhaustion
                return r
            try:
                prs = explore(run)
            except Outside as e:
                und = f'outside subset: {e}'; break
            byp = {id(p): (c, o, pm) for p, c, o, pm in holder}
            for pr in prs: paths.append((pr,) + byp[id(pr.path)])
        if und:
            ctx.add_result(Result(oname, 'unknown', detail=und)); continue
        where = ''
        for pr, c, old, pm in paths:
            for f in list(pm.inlined.values()) + list(c.inlined.values()):
                ctx.under_contract(f)
                if f.qualname.endswith(name): where = f.where
        c0 = CtxR('c')
        hyps = c0.wf() + [c0.pos <= c0.input.n] + precondition(name, c0)
        cl = []; escapes = []
        for pr, c, old, pm in paths:
            if pr.kind == 'cut': continue
            if pr.kind == 'raise':
                ok = issubclass(pr.value.cls, PE)
                if name == '_read_predicate' and issubclass(pr.value.cls, UPE):
                    ok = bool(pr.value.eargs) and pm.store.is_missing(pr.value.eargs[0])
                    if not ok: escapes.append('UndefinedPredicateError for a symbol the parser\'s own store was not asked about')
                cl.append(z3.Implies(pr.pc, z3.BoolVal(ok)))
                if not ok: escapes.append(pr.value.cls.__name__)
            else:
                moved = (c.pos > old['pos']) if name in STRICT else (c.pos >= old['pos'])
                extra_post = z3.BoolVal(True)
                if name == '_read_parameter':
                    # closedness: a variable that is returned was bound at the time (check_bound)
                    from pytableaux.lang import Variable
                    pv = pr.value
                    isvar = CT(c.input.A[old['pos']]) == type_code(Variable)
                    extra_post = z3.Implies(isvar, z3.IsMember(pv.key, old['bound'])) if isinstance(pv, VarV) else z3.BoolVal(False)
                cl.append(z3.Implies(pr.pc, z3.And(moved, c.pos <= c.input.n, c.bound.S == old['bound'], extra_post)))
        ctx.add(Obligation(oname, z3.And(*cl) if cl else z3.BoolVal(False), hyps=hyps, where=where,
                           meta=dict(reader=name, paths=len(paths), escaping=sorted(set(escapes)),
                                     clause=('a returned variable was bound; ' if name == '_read_parameter' else '') + 'raises only ParseError (subclasses); on return pos moved forward' + (' strictly' if name in STRICT else '') + ', stays within the input, and the bound-variable set is as before')))
        # loop obligations recorded along the paths
        by = {}
        for pr, c, old, pm in paths:
            for nm, pc, goal, meta in pr.path.obligations:
                by.setdefault(nm, []).append(z3.Implies(z3.And(*pc) if pc else z3.BoolVal(True), goal))
        for nm, cls_ in sorted(by.items()):
            if 'chomp' in nm: continue          # chomp's own loop is C13.ParseContext.*
            if pcls is not PolishParser and 'StandardParser' not in nm: continue
            ctx.add(Obligation(f'C13.reader.{nm}', z3.And(*cls_), hyps=hyps, where=where, meta=dict(clause='loop obligation generated from the sidecar invariant/variant')))
    ctx.replayers['C13.reader.'] = replay_reader

def replay_reader(r):
    "the exhaustive short strings and the structured family against the real parser: any exception other than ParseError"
    from bounded import parsing as BP
    from spec import notation as N
    import itertools
    bad = []
    for notation in ('polish', 'standard'):
        for s in itertools.islice(BP.exhaustive_strings(notation, 3), 0, 9000):
            for preds, auto in (({}, True), ({(0, 0): 1}, False)):
                x = BP.real_parse(notation, s, preds, auto)
                if x[0] == 'exception': bad.append(f'{notation} {s!r}: {x[1]}')
                d = BP.compare(notation, s, preds, auto)
                if d: bad.append(f'{notation} {s!r}: {d}')
            if len(bad) > 2: break
    return dict(reproduced=bool(bad), detail='; '.join(bad[:3]) or 'no string of length <= 3 makes the real parser misbehave')
