"""C01 — a 'valid' verdict is sound in every logic.  Hypotheses of the paper lemma L-SOUND (DESIGN.md §4),
each a contract on one real function, generated and discharged for every registered logic."""
from __future__ import annotations
import random
import z3
from pyvc import source
from pyvc.interp import Interp, explore, Outside, PyExc, SymVal, Contract, GenList
from pyvc.smt import Obligation, Result, discharge
from pyvc.par import pmap
from checks import rulesem as RS, structs
from contracts import rules as R
from contracts.rules import STerm, Param, WorldTok, NodeVal, Atom
from spec import semantics as S, evaluate as E

def enum_ob(name, ok, where='', **meta):
    return Obligation(name, True if ok else False, kind='enum', where=where, meta=meta)

# ------------------------------------------------------------------ trunk

class ArgTok(SymVal):
    def __init__(self, premises, conclusion): self.premises, self.conclusion = premises, conclusion
    def sym_getattr(self, it, name):
        if name == 'premises': return tuple(self.premises)
        if name == 'conclusion': return self.conclusion
        raise Outside(f'Argument.{name}')
class SysCls(SymVal):
    def __init__(self, logic): self.logic = logic
    def sym_getattr(self, it, name):
        if name == 'modal': return bool(self.logic.Meta.modal)
        raise Outside(f'System.{name}')
class LazyFilter(SymVal):
    "itertools.filterfalse / filter over a sequence: evaluated item by item by the consumer"
    def __init__(self, pred, items, keep): self.pred, self.items, self.keep = pred, items, keep
    def sym_iter(self, it): return [x for x in self.items if bool(it.truth(it.call(self.pred, [x], {}))) == self.keep]
class TrunkBranch(SymVal):
    "records appended nodes; `b += x` runs the real Branch.__iadd__ (interpreted) over append/extend contracts"
    def __init__(self): self.nodes = []
    def sym_getattr(self, it, name):
        if name == 'append':
            def append(it, n): self.nodes.append(n); return self
            return Contract(append, 'Branch.append')
        if name == 'extend':
            def extend(it, ns):
                if isinstance(ns, LazyFilter):           # a lazy filter is pulled one item at a time, between the appends
                    for x in ns.items:
                        if bool(it.truth(it.call(ns.pred, [x], {}))) == ns.keep: self.nodes.append(x)
                else: self.nodes += it.iterate(ns)
                return self
            return Contract(extend, 'Branch.extend')
        if name in ('has', '__contains__'):
            def has(it, m):
                mp = getattr(m, 'props', None)
                if mp is None: raise Outside('Branch.has of a non-node')
                same = lambda a, b: (a is b) or (repr(a) == repr(b) and type(a) is type(b))
                return any(all(k in n.props and same(n.props[k], v) for k, v in mp.items() if v is not None) for n in self.nodes)
            return Contract(has, 'Branch.has (a node with these properties is on the branch)')
        raise Outside(f'Branch.{name}')
    def sym_binop(self, it, op, other, reflected):
        if op == 'Add' and not reflected:
            from pytableaux.proof.common import Branch
            fi = source.get('pytableaux/proof/common.py', 'Branch.__iadd__')
            return it.call_source(fi, Branch.__dict__['__iadd__'], Branch, [self, other], {}, recv=self)
        return NotImplemented

def trunk_obligation(logic, funcs):
    L = logic.Meta.name
    sem = S.spec_of(L)
    sysc = logic.System
    fn = None
    for c in sysc.__mro__:
        if 'build_trunk' in c.__dict__: fn, defc = c.__dict__['build_trunk'].__func__, c; break
    fi = source.of_function(fn)
    funcs[fi.key] = dict(file=fi.relfile, qualname=fi.qualname, lines=f'{fi.lineno}-{fi.end_lineno}', sha1=fi.sha1)
    world = R.make_world()
    import itertools as _it
    world.builtin_models[_it.filterfalse] = lambda it, pred, xs: LazyFilter(pred, it.iterate(xs), False)
    world.builtin_models[filter] = lambda it, pred, xs: LazyFilter(pred, it.iterate(xs), True)
    bad = []
    P = [Atom(f'P{i}') for i in range(3)]
    # premise lists of length 0..3, and lists in which a premise is repeated or is the conclusion (an argument keeps repetitions)
    for k, prem_ in ((0, []), (1, P[:1]), (2, P[:2]), (3, P[:3]), ('2-repeated', [P[0], P[0]]), ('3-repeated', [P[0], P[1], P[0]]), ('conclusion-among-premises', [P[0], 'C'])):
        concl = Atom('C'); prem = [concl if x == 'C' else x for x in prem_]
        def run(path):
            it = Interp(path, world)
            b = TrunkBranch()
            # NodeVal iteration for `b += sdwnode(...)` (a single node is a Mapping: iterating yields keys) is not what the code relies on:
            it.call_source(fi, fn, defc, [SysCls(logic), b, ArgTok(prem, concl)], {})
            return b
        try:
            prs = explore(run)
        except Outside as e:
            return Result(f'C01.trunk.{L}', 'unknown', detail=f'outside subset: {e}', where=fi.where)
        if len(prs) != 1 or prs[0].kind != 'return':
            bad.append(f'k={k}: {[p.kind for p in prs]}'); continue
        got = [(repr(n.props.get('sentence')), n.props.get('designated'), repr(n.props.get('world')) if n.props.get('world') is not None else None) for n in prs[0].value.nodes]
        w0 = '0' if logic.Meta.modal else None
        if len(sem.values) == 2:
            want = [(repr(p), None, w0) for p in prem] + [(repr(concl.neg()), None, w0)]
        else:
            want = [(repr(p), True, w0) for p in prem] + [(repr(concl), False, w0)]
        if got != want: bad.append(f'k={k}: trunk {got} != {want}')
    # M satisfies the trunk  <=>  M designates every premise and not the conclusion (finite-sort query)
    zs = RS.ZSem(sem)
    p, c = z3.Int('p'), z3.Int('c')
    if len(sem.values) == 2:
        trunk_sat = z3.And(zs.is_true(p), zs.is_true(zs.op('Negation', c)))
    else:
        trunk_sat = z3.And(zs.des(p), z3.Not(zs.des(c)))
    cm = z3.And(zs.des(p), z3.Not(zs.des(c)))
    ob = Obligation(f'C01.trunk.{L}', z3.And(z3.BoolVal(not bad), trunk_sat == cm), hyps=[zs.dom(p), zs.dom(c)], where=fi.where,
                    meta=dict(logic=L, clause='trunk = premises (designated/true) then conclusion (undesignated/negated) at world 0 iff modal; satisfied exactly by countermodels', bad=bad))
    return discharge(ob)

# ------------------------------------------------------------------ identity rule

def identity_obligation(logic, funcs):
    """cpl.IdentityIndiscernability._get_node_targets: from a=b at w and P(..a..) at w' it adds P(..b..) at w.
    Forward-sound only if w' = w (identity is interpreted per world).  The body is interpreted with one other
    predicated node at an *arbitrary* world."""
    from pytableaux.proof import rules as PR, helpers as H, common as C
    L = logic.Meta.name
    rc = None
    for r in RS.rule_classes(logic):
        if r.__name__ == 'IdentityIndiscernability': rc = r
    if rc is None: return None
    fn = None
    for c in rc.__mro__:
        if '_get_node_targets' in c.__dict__: fn, defc = c.__dict__['_get_node_targets'], c; break
    fi = source.of_function(fn)
    funcs[fi.key] = dict(file=fi.relfile, qualname=fi.qualname, lines=f'{fi.lineno}-{fi.end_lineno}', sha1=fi.sha1)
    world = identity_world()
    a, b, c_ = Param('const', 'a'), Param('const', 'b'), Param('const', 'c')
    from pytableaux.lang import Predicate
    wI = WorldTok('w') if logic.Meta.modal else None
    bad = []; targets_seen = 0
    for other_world in ([WorldTok('w'), WorldTok('w2')] if logic.Meta.modal else [None]):
        for other_params in ((a,), (b,), (c_, a), (b, b)):
            ident = PredTerm(Predicate.Identity, (a, b))
            other = PredTerm('F', other_params)
            pi = dict(sentence=ident); po = dict(sentence=other)
            if wI is not None: pi['world'] = wI; po['world'] = other_world
            cls = C.SentenceWorldNode if wI is not None else C.SentenceNode
            ni, no = NodeVal(cls, pi), NodeVal(cls, po)
            def run(path):
                it = Interp(path, world)
                rm = IdentRuleModel(rc, logic, helpers={H.PredNodes: PredNodesModel([ni, no])})
                br = R.BranchTok()
                return it.iterate(it.call_source(fi, fn, defc, [rm, ni, br], {}, recv=rm))
            try:
                prs = explore(run)
            except Outside as e:
                return Result(f'C01.identity.{L}.forward', 'unknown', detail=f'outside subset: {e}', where=fi.where)
            for pr in prs:
                if pr.kind != 'return': bad.append(f'exception {pr.value}'); continue
                for t in pr.value:
                    targets_seen += 1
                    (g,) = t['adds']; (nd,) = g
                    s_new = nd.props['sentence']
                    # sound iff the substituted predication is about the same world as both premises and swaps exactly a<->b
                    want_params = tuple(b if p == a else p for p in other_params) if a in other_params else tuple(a if p == b else p for p in other_params)
                    if not (isinstance(s_new, PredTerm) and s_new.pred == 'F' and s_new.params == want_params):
                        bad.append(f'adds {s_new!r} from {other!r}')
                    if nd.props.get('world') != other_world or other_world != wI:
                        bad.append(f'identity at {wI!r} and {other!r} at {other_world!r} yield {s_new!r} at {nd.props.get("world")!r}')
    if targets_seen == 0: bad.append('no target on any path (vacuous)')
    return discharge(Obligation(f'C01.identity.{L}.forward', not bad, kind='enum', where=fi.where,
                                meta=dict(logic=L, clause='a=b at w and P(..a..) at w\' may add P(..b..) only when w\' = w, at that world', cex=dict(bad=sorted(set(bad))[:4]))))

class BranchHolding(R.BranchTok):
    "a branch on which exactly the given (sentence, world) pairs are present: has() is decided, not abstract"
    def __init__(self, present): super().__init__(); self.present = list(present)
    def sym_getattr(self, it, name):
        if name == 'has':
            def has(it, node):
                # Branch.has(mapping): some node agrees with every property the mapping GIVES -- a lookup without a world matches a node at any world
                s_, w_ = node.props.get('sentence'), node.props.get('world')
                return any(s_ == ps and (w_ is None or w_ == pw) for ps, pw in self.present)
            return Contract(has, 'Branch.has')
        return super().sym_getattr(it, name)

def identity_scenarios(logic, funcs):
    """cpl.IdentityIndiscernability._get_node_targets interpreted for the node a=b on a branch whose predicated nodes are
    {a=b (this node), a=b (a second node), b=a, F(a), G(c,b)} at one world, for EVERY iteration order of the PredNodes set and
    two branch contents.  -> (per-order target sets, expected set per content, where) or a Result when outside the subset"""
    from pytableaux.proof import helpers as H, common as C
    from pytableaux.lang import Predicate
    import itertools as _it
    L = logic.Meta.name
    rc = None
    for r in RS.rule_classes(logic):
        if r.__name__ == 'IdentityIndiscernability': rc = r
    if rc is None: return None
    for c in rc.__mro__:
        if '_get_node_targets' in c.__dict__: fn, defc = c.__dict__['_get_node_targets'], c; break
    fi = source.of_function(fn)
    funcs[fi.key] = dict(file=fi.relfile, qualname=fi.qualname, lines=f'{fi.lineno}-{fi.end_lineno}', sha1=fi.sha1)
    world = identity_world()
    a, b, c_ = Param('const', 'a'), Param('const', 'b'), Param('const', 'c')
    w = WorldTok('w') if logic.Meta.modal else None
    cls = C.SentenceWorldNode if w is not None else C.SentenceNode
    def node(s):
        pr = dict(sentence=s)
        if w is not None: pr['world'] = w
        return NodeVal(cls, pr)
    I = Predicate.Identity
    ni = node(PredTerm(I, (a, b)))
    others = [node(PredTerm(I, (a, b))), node(PredTerm(I, (b, a))), node(PredTerm('F', (a,))), node(PredTerm('G', (c_, b)))]
    full = {(repr(PredTerm('F', (b,))), repr(w)), (repr(PredTerm('G', (c_, a))), repr(w))}
    contents = {'empty': [], 'F(b) present': [(PredTerm('F', (b,)), w)]}
    if w is not None: contents['F(b) present at another world only'] = [(PredTerm('F', (b,)), WorldTok('w2'))]      # does not excuse F(b) at w
    out = {}
    for cname, present in contents.items():
        want = full - {(repr(s_), repr(w_)) for s_, w_ in present if w_ == w}
        per_order = {}
        for perm in _it.permutations(range(5)):
            nodes = [([ni] + others)[i] for i in perm]
            def run(path, nodes=nodes, present=present):
                it = Interp(path, world)
                rm = IdentRuleModel(rc, logic, helpers={H.PredNodes: PredNodesModel(nodes)})
                return it.iterate(it.call_source(fi, fn, defc, [rm, ni, BranchHolding(present)], {}, recv=rm))
            try:
                prs = explore(run)
            except Outside as e:
                return Result(f'identity.{L}', 'unknown', detail=f'outside subset: {e}', where=fi.where)
            got = set()
            for pr in prs:
                if pr.kind != 'return': got.add(('exception', str(pr.value))); continue
                for t in pr.value:
                    (g,) = t['adds']; (nd,) = g
                    got.add((repr(nd.props['sentence']), repr(nd.props.get('world'))))
            per_order[perm] = got
        out[cname] = (per_order, want)
    return out, fi.where

def identity_order_obligations(logic, funcs, prefix):
    """-> Results.  <prefix>.identity.<L>.complete: in every iteration order the node a=b is offered exactly the substitution
    instances missing from the branch; <prefix>.identity.<L>.order-insensitive: the offered set is the same in every order"""
    L = logic.Meta.name
    r = identity_scenarios(logic, funcs)
    if r is None: return []
    if isinstance(r, Result):
        return [Result(f'{prefix}.identity.{L}.complete', 'unknown', detail=r.detail, where=r.where)]
    out, where = r
    names = {0: 'a=b (the node itself)', 1: 'a=b (second node)', 2: 'b=a', 3: 'F(a)', 4: 'G(c,b)'}
    bad_c = bad_o = None
    for cname, (per_order, want) in out.items():
        sets = {}
        for perm, got in per_order.items():
            sets.setdefault(frozenset(got), perm)
            if got != want and bad_c is None:
                bad_c = dict(branch=cname, order=[names[i] for i in perm], offered=sorted(map(list, got)), wanted=sorted(map(list, want)))
        if len(sets) > 1 and bad_o is None:
            (s1, p1), (s2, p2) = list(sets.items())[:2]
            bad_o = dict(branch=cname, order_1=[names[i] for i in p1], offered_1=sorted(map(list, s1)), order_2=[names[i] for i in p2], offered_2=sorted(map(list, s2)))
    res = []
    res.append(discharge(Obligation(f'{prefix}.identity.{L}.complete', bad_c is None, kind='enum', where=where,
               meta=dict(logic=L, orders=120, clause='IdentityIndiscernability offers a=b every substitution instance at its world that is not yet on the branch, whatever the order of the PredNodes set', cex=bad_c))))
    res.append(discharge(Obligation(f'{prefix}.identity.{L}.order-insensitive', bad_o is None, kind='enum', where=where,
               meta=dict(logic=L, orders=120, clause='the set of targets IdentityIndiscernability offers does not depend on the iteration order of the (hash-ordered) PredNodes set', cex=bad_o))))
    return res

class PredTerm(STerm):
    "predicated sentence P(params)"
    def __init__(self, pred, params):
        super().__init__('pred', pred, tuple(params)); self.pred, self.params = pred, tuple(params)
    def __repr__(self): return f'{getattr(self.pred, "name", self.pred)}({",".join(map(repr, self.params))})'
    def sym_getattr(self, it, name):
        if name == 'params': return self.params
        if name == 'predicate': return PredSym(self.pred)
        if name == 'constants': return frozenset(p for p in self.params if p.kind == 'const')
        if name == 'variables': return frozenset(p for p in self.params if p.kind == 'var')
        if name == 'predicates': return frozenset([PredSym(self.pred)])
        if name == 'atomics': return frozenset()
        return super().sym_getattr(it, name)
    def sym_iter(self, it): return list(self.params)
    def sym_type(self, it):
        from pytableaux.lang import Predicated
        return Predicated
class PredSym(SymVal):
    def __init__(self, p): self.p = p
    def __eq__(self, o): return isinstance(o, PredSym) and o.p == self.p
    def __hash__(self): return hash(('predsym', getattr(self.p, 'name', self.p)))
    def sym_call(self, it, args, kw):
        params = it.iterate(args[0]) if len(args) == 1 and not isinstance(args[0], Param) else list(args)
        return PredTerm(self.p, params)
    def sym_compare(self, it, op, other, reflected):
        o = other.p if isinstance(other, PredSym) else other
        if op == 'Eq': return self.p == o
        if op == 'NotEq': return self.p != o
        raise Outside('ordering of predicates')
class PredNodesModel(SymVal):
    def __init__(self, nodes): self.nodes = nodes
    def sym_getitem(self, it, branch): return GenList(self.nodes)
class IdentRuleModel(R.RuleModel):
    def _sentence(self, it, node):
        return node.props.get('sentence')       # BaseSentenceRule.sentence: filter has predicate=Identity, not negated
    def sym_getattr(self, it, name):
        if name == 'predicate':
            from pytableaux.lang import Predicate
            return PredSym(Predicate.Identity)
        return super().sym_getattr(it, name)

def identity_world():
    from pytableaux import tools as T
    w = R.make_world()
    def subst(it, coll, old, new):
        # contract of tools.substitute on tuples (C15): replace every occurrence of old by new
        return tuple(new if x == old else x for x in it.iterate(coll))
    w.builtin_models[T.substitute] = subst
    orig_contains = w.native_contains
    def contains(container, x, it):
        if isinstance(x, Param) and isinstance(container, tuple): return any(x == i for i in container)
        return orig_contains(container, x, it)
    w.native_contains = contains
    return w

# ------------------------------------------------------------------ per-logic worker

def work_logic(lname):
    logic = RS.registry()(lname)
    L = logic.Meta.name
    results, funcs = [], {}
    results.append(trunk_obligation(logic, funcs))
    r = identity_obligation(logic, funcs)
    if r is not None: results.append(r)
    # forward exactness of every expansion rule
    for rc in RS.rule_classes(logic):
        kind = RS.classify(rc)
        if kind in ('closure', 'access', 'predicate', 'other'): continue
        sc = RS.schema(logic, rc)
        for fi in sc.funcs: funcs[fi.key] = dict(file=fi.relfile, qualname=fi.qualname, lines=f'{fi.lineno}-{fi.end_lineno}', sha1=fi.sha1)
        name = f'C01.rule.{L}.{rc.__name__}.forward'
        where = sc.funcs[-1].where if sc.funcs else ''
        if sc.error:
            results.append(Result(name, 'unknown', detail=sc.error, where=where)); continue
        try:
            obs = RS.exactness(sc, f'C01.rule.{L}.{rc.__name__}', where)
        except Outside as e:
            results.append(Result(name, 'unknown', detail=f'outside subset: {e}', where=where)); continue
        for ob in obs:
            if ob.name.endswith('.forward'): results.append(discharge(ob))
    # closure soundness (C05 generator)
    from checks import c05
    res5, f5 = c05.work_logic(lname)
    funcs.update(f5)
    for r5 in res5:
        tail = r5.name.split('.', 2)[2]
        if tail.startswith('closes-only-if-unsat') or tail.startswith('no-cross-world-closure') or tail.startswith('classical.'):
            r5.name = f'C01.closure.{L}.{tail}'
            results.append(r5)
    return results, funcs

# ------------------------------------------------------------------ bounded end-to-end cross-check

def _sound_chunk(job):
    lname, argstrs, opts = job
    from pytableaux.lang import Argument
    from bounded import prover as P, args as A_
    logic = RS.registry()(lname)
    sem = S.spec_of(logic.Meta.name)
    out = []; n = 0
    for i, astr in enumerate(argstrs):
        arg = Argument(astr)
        if i % 5 == 4: arg = A_.hostile(arg)         # every fifth argument: no two equal sentences/parameters share an object
        o, tab = P.outcome(logic, arg, **opts[i % len(opts)])
        n += 1
        if o == 'valid':
            ok, cm = E.tt_valid(sem, arg.premises, arg.conclusion)
            if not ok: out.append(dict(logic=logic.Meta.name, argument=astr, options=opts[i % len(opts)], countermodel=cm))
        elif o.startswith('exception'):
            out.append(dict(logic=logic.Meta.name, argument=astr, options=opts[i % len(opts)], exception=o))
    return n, out

def bounded_soundness(ctx):
    from bounded import args as A
    from checks.c03 import OPTS
    rnd = random.Random(ctx.seed + 1)
    names = [RS.registry()(n).Meta.name for n in RS.registry()]
    per = 120 if ctx.thorough else 25
    jobs = []
    for L in names:
        sample = [A.random_argument(rnd, 'prop', depth=3, max_premises=2).argstr() for _ in range(per)]
        jobs.append((L, sample, OPTS))
    total = 0; fails = []
    for n, out in pmap(_sound_chunk, jobs):
        total += n; fails += out
    ctx.bounded_part(evaluations=total, distinct_nontrivial=len({(j[0], a) for j in jobs for a in j[1]}),
                     rule='seeded random propositional arguments x 57 logics x rotated option combinations; a valid verdict is compared with an exhaustive truth-table countermodel search over spec/; distinct = (logic, argument)',
                     bound=f'{per} arguments per logic, depth <= 3, 3 letters', samples=[dict(logic=j[0], argument=j[1][0]) for j in jobs[:3]] + fails[:2], label='valid-vs-truth-table')
    for f in fails:
        ctx.bounded_failure(f"C01.sound.{f['logic']}", f"valid verdict with a truth-table countermodel: {f}", f, instance=f['argument'])

QUANT_FAMILY = ['VxFx', 'SxFx', 'NVxFx', 'NSxFx', 'VxNFx', 'SxNFx', 'NVxNFx', 'NSxNFx', 'VxNNFx', 'NVxNNFx', 'SxNNFx', 'Fm', 'NFm', 'NNFm']

def _quant_chunk(job):
    L, pairs = job
    from pytableaux.lang import Argument
    from bounded import prover as P
    from spec import evaluate as E
    logic = RS.registry()(L); sem = S.spec_of(L)
    n = 0; out = []
    for prem, concl in pairs:
        astr = f'{concl}:{prem}'
        arg = Argument(astr)
        o = P.outcome(logic, arg)[0]
        n += 1
        if o != 'valid': continue
        d = E.small_countermodel(sem, arg.premises, arg.conclusion, max_worlds=1, max_domain=2, budget=20_000)
        if d is not None: out.append(dict(logic=L, argument=astr, countermodel=str(getattr(d, 'summary', lambda: d)())[:200]))
    return n, out

def bounded_quantified_soundness(ctx):
    """one-premise arguments over quantified, negated-quantified and doubly negated forms of one predication (the quantifier rules meet
    bodies that are themselves negations): a valid verdict is checked against an independent search over models with <= 3 elements"""
    names = [RS.registry()(n).Meta.name for n in RS.registry() if RS.registry()(n).Meta.quantified]
    pairs = [(p, c) for p in QUANT_FAMILY for c in QUANT_FAMILY if p != c]
    total = 0; fails = []
    for n, out in pmap(_quant_chunk, [(L, pairs) for L in names]):
        total += n; fails += out
    ctx.bounded_part(evaluations=total, distinct_nontrivial=len(pairs) * len(names), rule='every ordered pair of distinct members of {∀xFx, ∃xFx, their negations, the same over ¬Fx and ¬¬Fx, Fm, ¬Fm, ¬¬Fm} as premise / conclusion in every quantified logic; a valid verdict is compared with an independent search for a countermodel with at most 3 elements (1 world)',
                     bound=f'{len(pairs)} arguments x {len(names)} logics', samples=[dict(logic='G3', argument='SxFx:NVxNFx')] + fails[:3], label='quantified valid-vs-small-models')
    seen = set()
    for f in fails:
        if f['logic'] in seen: continue
        seen.add(f['logic'])
        ctx.bounded_failure(f"C01.sound.quantified.{f['logic']}", f"valid verdict with a small countermodel: {f}", f, instance=f['argument'])

def run(ctx):
    ctx.level = 'other'
    ctx.drop('type annotations', 'docstrings')
    ctx.trust('paper lemma L-SOUND (DESIGN.md §4): trunk exactness + forward exactness of every rule + freshness + closure soundness + the _apply contract + "valid iff completed and no open branch" imply that a valid verdict excludes a countermodel, for every option value and iteration order (no obligation mentions either)',
              'C06 (freshness) and C17 (verdict) obligations are discharged by their own checks and are premises here',
              'Branch.extend is the MutableSequence mixin over append (Branch.__iadd__ itself is interpreted under build_trunk)', 'spec/semantics.py (the oracle)',
              'sentence constructors as free datatype (C15); tools.substitute replaces every occurrence (C15)')
    ctx.assume('quantifier/modal forward exactness uses the value-set abstraction (see C04)', 'CPython semantics of the interpreted subset as encoded by pyvc/interp.py')
    ctx.explanation = ('Hypotheses of L-SOUND as obligations on the real code, per logic: System.build_trunk (interpreted; trunk nodes and their satisfaction = countermodel), '
                       'forward exactness of every operator/quantifier/modal rule (schemas interpreted from source, z3 vs spec), the identity rule (interpreted with a '
                       'second predication at an arbitrary world), closure soundness incl. no cross-world closure, AdzHelper._apply.  Whole-proof soundness is the paper '
                       'lemma over these; a bounded truth-table cross-check on random propositional arguments is labelled bounded.')
    names = [RS.registry()(n).Meta.name for n in RS.registry()]
    for res, funcs in pmap(work_logic, names):
        for r in res: ctx.add_result(r)
        ctx.functions.update(funcs)
    structs.adz_apply_obligations(ctx, 'C01')
    # premise: instantiation (Quantified.unquantify / substitute) replaces exactly the occurrences of the bound variable (C15)
    from checks import c15 as _c15
    ctx.restate(_c15.run, 'C15.', 'C01.subst.', keep=lambda n: 'substitute' in n or 'unquantify' in n or 'rshift' in n)
    # premise: the helper caches the rule bodies read (WorldIndex, NodeConsts, NodesWorlds, FilterNodeCache ...) describe THIS branch: listeners interpreted from source, forks copy and never alias
    from checks import helpers_ob as _hob
    _hob.helper_obligations(ctx, 'C01')
    # freshness premise of L-SOUND, under C01's own names: a witness constant / world handed out by the branch is new to it
    from checks import c06
    c06.append_obligations(ctx, 'C01.fresh', only=('fresh-constant', 'fresh-world'))
    ctx.replayers['C01.fresh.'] = c06.replay_history
    c06.bounded_histories(ctx, 'C01.fresh', depth=3)
    # verdict premise of L-SOUND, under C01's own names: valid is defined exactly on completed tableaux with an argument and means "no open branch"
    from checks import c17
    ctx.restate(c17.verdict_obligations, 'C17.verdict.', 'C01.verdict.')
    # premise: branch.find returns only nodes that are on the branch and meet the lookup (closure hooks)
    from checks import index_ob
    index_ob.index_obligations(ctx, 'C01.index')
    index_ob.register_replayers(ctx, 'C01.index')
    bounded_soundness(ctx)
    bounded_quantified_soundness(ctx)
    from checks import c04
    ctx.replayers['C01.rule.'] = lambda r: c04.replay(dict(obligation=r.name, counterexample=r.cex, meta=r.meta))
    ctx.replayers['C01.identity.'] = replay_identity
    ctx.replayers['C01.'] = lambda r: dict(reproduced=None, detail='see counterexample / meta')

def replay_identity(r):
    "the cross-world substitution on the real prover: a=b, ◇Fa |- Fb"
    from pytableaux.lang import Argument
    from pytableaux.proof import Tableau
    L = r.meta.get('logic')
    arg = Argument('Fn:Imn:MFm')
    t = Tableau(L, arg).build()
    return dict(reproduced=bool(t.valid), detail=f'{L}: argument Fn:Imn:MFm (a=b, possibly Fa |- Fb) is reported valid={t.valid}; it has the countermodel w0: a=b, not Fa, not Fb; w0 R w1; w1: Fa',
                call=f'Tableau("{L}", Argument("Fn:Imn:MFm")).build().valid')

def replay(payload):
    if payload.get('kind') == 'bounded' and 'history' in (payload.get('input') or {}):
        from checks import c06
        return c06.replay(payload)
    if payload.get('kind') == 'bounded':
        from pytableaux.lang import Argument
        from bounded import prover as P
        f = payload['input']
        logic = RS.registry()(f['logic']); sem = S.spec_of(f['logic'])
        arg = Argument(f['argument'])
        o, _ = P.outcome(logic, arg, **f['options'])
        ok, cm = E.tt_valid(sem, arg.premises, arg.conclusion)
        return dict(reproduced=(o == 'valid' and not ok) or o.startswith('exception'), detail=f"{f['logic']} {f['argument']}: prover {o}; truth-table valid={ok} countermodel={cm}")
    class R_: pass
    r = R_(); r.name = payload['obligation']; r.meta = payload.get('meta') or {}; r.cex = payload.get('counterexample')
    if r.name.startswith('C01.identity.'): return replay_identity(r)
    if r.name.startswith('C01.rule.'):
        from checks import c04
        return c04.replay(payload)
    return dict(reproduced=None, detail='see counterexample / meta')
