"""Independent evaluator: the recursive semantics Sem_L(M, s, w) over plain data, and truth-table validity.

A *model datum* is plain data, not a pytableaux model:
    worlds: list[int];  R: set[(int,int)];  domain: list[constant];  atom: {(world, atomic) -> value};
    pred: {(world, predicate, params) -> value};  opaque: {(world, sentence) -> value}
Values are the bit pairs of spec.semantics.  Sentences are real pytableaux lexical objects, walked through their
public structural attributes only (type, operator, operands, quantifier, variable, sentence, predicate, params).
"""
from __future__ import annotations
from itertools import product
from . import semantics as S

def _kind(s):
    return type(s).__name__        # Atomic | Predicated | Quantified | Operated

def subst(s, var, const):
    "independent substitution of a constant for the free occurrences of var (no capture: constants are closed)"
    k = _kind(s)
    if k == 'Atomic': return s
    if k == 'Predicated':
        return s.predicate(tuple(const if p == var else p for p in s.params))
    if k == 'Quantified':
        if s.variable == var: return s
        return s.quantifier(s.variable, subst(s.sentence, var, const))
    if k == 'Operated':
        return s.operator(tuple(subst(x, var, const) for x in s.operands))
    raise TypeError(k)

class Datum:
    def __init__(self, sem, worlds=(0,), R=(), domain=(), atom=None, pred=None, opaque=None):
        self.sem, self.worlds, self.R, self.domain = sem, list(worlds), set(R), list(domain)
        self.atom, self.pred, self.opaque = atom or {}, pred or {}, opaque or {}
    def value(self, s, w=0):
        sem = self.sem
        k = _kind(s)
        if (w, s) in self.opaque: return self.opaque[(w, s)]
        if k == 'Atomic': return self.atom.get((w, s), sem.unassigned)
        if k == 'Predicated':
            return self.pred.get((w, s.predicate, tuple(s.params)), sem.unassigned)
        if k == 'Operated':
            name = s.operator.name
            if name in ('Possibility', 'Necessity'):
                if not sem.modal: return self.opaque.get((w, s), sem.unassigned)
                vs = [self.value(s.lhs, v) for v in self.worlds if (w, v) in self.R]
                return sem.poss(vs) if name == 'Possibility' else sem.nec(vs)
            return sem.op(name, *[self.value(x, w) for x in s.operands])
        if k == 'Quantified':
            if not sem.quantified: return self.opaque.get((w, s), sem.unassigned)
            vs = [self.value(subst(s.sentence, s.variable, c), w) for c in self.domain]
            return sem.exists(vs) if s.quantifier.name == 'Existential' else sem.forall(vs)
        raise TypeError(k)
    def designates(self, s, w=0): return self.value(s, w) in self.sem.designated
    def is_countermodel(self, premises, conclusion, w=0):
        return all(self.designates(p, w) for p in premises) and not self.designates(conclusion, w)

def atoms_of(sentences):
    out = []
    def walk(s):
        k = _kind(s)
        if k == 'Atomic':
            if s not in out: out.append(s)
        elif k == 'Operated':
            for x in s.operands: walk(x)
        else:
            raise ValueError('not a propositional sentence')
    for s in sentences: walk(s)
    return out

def tt_valid(sem, premises, conclusion):
    """truth-table validity of a quantifier-free, modality-free argument: every assignment of the logic's values
    designating all premises designates the conclusion.  Returns (valid, countermodel assignment or None)."""
    ats = atoms_of(list(premises) + [conclusion])
    for vals in product(sem.values, repeat=len(ats)):
        d = Datum(sem, atom={(0, a): v for a, v in zip(ats, vals)})
        if d.is_countermodel(premises, conclusion):
            return False, {str(a): S.NAME[v] for a, v in zip(ats, vals)}
    return True, None

def datum_of_model(model, sem):
    "read a real (finished) pytableaux model into plain data through its public attributes"
    worlds = sorted(set(model.frames) | set(model.R))
    R = {(a, b) for a in model.R for b in model.R[a]}
    atom, pred, opaque = {}, {}, {}
    for w, fr in model.frames.items():
        for a, v in fr.atomics.items(): atom[(w, a)] = S.VAL[v.name]
        for s, v in fr.opaques.items(): opaque[(w, s)] = S.VAL[v.name]
        for p, interp in fr.predicates.items():
            for params, v in interp.items(): pred[(w, p, tuple(params))] = S.VAL[v.name]
    return Datum(sem, worlds, R, sorted(model.constants), atom, pred, opaque)
