"""Independent evaluator: the recursive semantics Sem_L(M, s, w) over plain data, and truth-table validity.

A *model datum* is plain data, not a pytableaux model:
    worlds: list[int];  R: set[(int,int)];  domain: list[constant];  atom: {(world, atomic) -> value};
    pred: {(world, predicate, params) -> value};  opaque: {(world, sentence) -> value}
Values are the bit pairs of spec.semantics.  Sentences are real pytableaux lexical objects, walked through their
public structural attributes only (type, operator, operands, quantifier, variable, sentence, predicate, params).
"""
from __future__ import annotations
from itertools import product
from . import semantics as S

def _kind(s):
    return type(s).__name__        # Atomic | Predicated | Quantified | Operated

def subst(s, var, const):
    "independent substitution of a constant for the free occurrences of var (no capture: constants are closed)"
    k = _kind(s)
    if k == 'Atomic': return s
    if k == 'Predicated':
        return s.predicate(tuple(const if p == var else p for p in s.params))
    if k == 'Quantified':
        if s.variable == var: return s
        return s.quantifier(s.variable, subst(s.sentence, var, const))
    if k == 'Operated':
        return s.operator(tuple(subst(x, var, const) for x in s.operands))
    raise TypeError(k)

class Datum:
    def __init__(self, sem, worlds=(0,), R=(), domain=(), atom=None, pred=None, opaque=None):
        self.sem, self.worlds, self.R, self.domain = sem, list(worlds), set(R), list(domain)
        self.atom, self.pred, self.opaque = atom or {}, pred or {}, opaque or {}
    def value(self, s, w=0):
        sem = self.sem
        k = _kind(s)
        if (w, s) in self.opaque: return self.opaque[(w, s)]
        if k == 'Atomic': return self.atom.get((w, s), sem.unassigned)
        if k == 'Predicated':
            return self.pred.get((w, s.predicate, tuple(s.params)), sem.unassigned)
        if k == 'Operated':
            name = s.operator.name
            if name in ('Possibility', 'Necessity'):
                if not sem.modal: return self.opaque.get((w, s), sem.unassigned)
                vs = [self.value(s.lhs, v) for v in self.worlds if (w, v) in self.R]
                return sem.poss(vs) if name == 'Possibility' else sem.nec(vs)
            return sem.op(name, *[self.value(x, w) for x in s.operands])
        if k == 'Quantified':
            if not sem.quantified: return self.opaque.get((w, s), sem.unassigned)
            vs = [self.value(subst(s.sentence, s.variable, c), w) for c in self.domain]
            return sem.exists(vs) if s.quantifier.name == 'Existential' else sem.forall(vs)
        raise TypeError(k)
    def designates(self, s, w=0): return self.value(s, w) in self.sem.designated
    def is_countermodel(self, premises, conclusion, w=0):
        return all(self.designates(p, w) for p in premises) and not self.designates(conclusion, w)

def atoms_of(sentences):
    out = []
    def walk(s):
        k = _kind(s)
        if k == 'Atomic':
            if s not in out: out.append(s)
        elif k == 'Operated':
            for x in s.operands: walk(x)
        else:
            raise ValueError('not a propositional sentence')
    for s in sentences: walk(s)
    return out

def tt_valid(sem, premises, conclusion):
    """truth-table validity of a quantifier-free, modality-free argument: every assignment of the logic's values
    designating all premises designates the conclusion.  Returns (valid, countermodel assignment or None)."""
    ats = atoms_of(list(premises) + [conclusion])
    for vals in product(sem.values, repeat=len(ats)):
        d = Datum(sem, atom={(0, a): v for a, v in zip(ats, vals)})
        if d.is_countermodel(premises, conclusion):
            return False, {str(a): S.NAME[v] for a, v in zip(ats, vals)}
    return True, None

def datum_of_model(model, sem):
    "read a real (finished) pytableaux model into plain data through its public attributes"
    worlds = sorted(set(model.frames) | set(model.R))
    R = {(a, b) for a in model.R for b in model.R[a]}
    atom, pred, opaque = {}, {}, {}
    for w, fr in model.frames.items():
        for a, v in fr.atomics.items(): atom[(w, a)] = S.VAL[v.name]
        for s, v in fr.opaques.items(): opaque[(w, s)] = S.VAL[v.name]
        for p, interp in fr.predicates.items():
            for params, v in interp.items(): pred[(w, p, tuple(params))] = S.VAL[v.name]
    return Datum(sem, worlds, R, sorted(model.constants), atom, pred, opaque)

def small_countermodel(sem, premises, conclusion, max_worlds=2, max_domain=2, budget=200_000):
    """independent search for a countermodel among small models: worlds <= max_worlds with every relation in the logic's frame
    class, a domain of the argument's constants padded to at least one and at most max_domain + constants, every assignment
    of the logic's values to the atoms / unary and binary predications that occur.  -> Datum or None (None also when the
    budget of candidate models is exhausted: not a proof of validity)."""
    sents = list(premises) + [conclusion]
    atoms, preds, consts = [], [], []
    def walk(s):
        k = _kind(s)
        if k == 'Atomic':
            if s not in atoms: atoms.append(s)
        elif k == 'Predicated':
            if s.predicate not in preds and not getattr(s.predicate, 'is_system', False): preds.append(s.predicate)
            for p in s.params:
                if type(p).__name__ == 'Constant' and p not in consts: consts.append(p)
        elif k == 'Quantified': walk(s.sentence)
        else:
            for x in s.operands: walk(x)
    for s in sents: walk(s)
    if any(getattr(p, 'is_system', False) for s in sents for p in _preds(s)): return None      # identity / existence: not searched here
    from pytableaux.lang import Constant
    tried = 0
    for nd in range(max(1, len(consts)), max(1, len(consts)) + max_domain):
        domain = list(consts)
        i = 0
        while len(domain) < nd:
            c = Constant(i % 4, 7 + i // 4); i += 1
            if c not in domain: domain.append(c)
        for nw in range(1, (max_worlds if sem.modal else 1) + 1):
            worlds = list(range(nw))
            pairs = [(a, b) for a in worlds for b in worlds]
            rels = [set()] if not sem.modal else [set(r) for k in range(len(pairs) + 1) for r in __import__('itertools').combinations(pairs, k) if S.frame_ok(sem.frame, worlds, set(r))]
            keys = [('a', w, a) for w in worlds for a in atoms]
            for w in worlds:
                for p in preds:
                    for tup in product(domain, repeat=p.arity): keys.append(('p', w, p, tup))
            if len(sem.values) ** len(keys) * len(rels) > budget: continue
            for R in rels:
                for vals in product(sem.values, repeat=len(keys)):
                    tried += 1
                    atom = {}; pred = {}
                    for k, v in zip(keys, vals):
                        if k[0] == 'a': atom[(k[1], k[2])] = v
                        else: pred[(k[1], k[2], k[3])] = v
                    d = Datum(sem, worlds, R, domain, atom, pred)
                    if d.is_countermodel(premises, conclusion): return d
    return None

def _preds(s):
    k = _kind(s)
    if k == 'Predicated': return [s.predicate]
    if k == 'Quantified': return _preds(s.sentence)
    if k == 'Operated': return [p for x in s.operands for p in _preds(x)]
    return []
