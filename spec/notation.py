"""Independent reference parsers and renderers for the two notations, written from the documented grammar
(doc/ and the symbol tables' *documented alphabets*), not from lang/parsing.py.

AST:  ('atom', i, s) | ('pred', (i, s, arity), params) | ('quant', 'Existential'|'Universal', ('var', i, s), body)
      | ('op', OperatorName, operands)          params: ('const', i, s) | ('var', i, s)
System predicates: Identity = (-1, 0, 2), Existence = (-2, 0, 1).

Whitespace may occur between any two symbols (also between the digits of a subscript); a subscript is the
maximal run of digits after a symbol (0 if none).
"""
from __future__ import annotations

POLISH = dict(
    ops={'T': 'Assertion', 'N': 'Negation', 'K': 'Conjunction', 'A': 'Disjunction', 'C': 'MaterialConditional', 'E': 'MaterialBiconditional',
         'U': 'Conditional', 'B': 'Biconditional', 'M': 'Possibility', 'L': 'Necessity'},
    quants={'S': 'Existential', 'V': 'Universal'}, system={'J': (-2, 0, 1), 'I': (-1, 0, 2)},
    vars='xyzv', consts='mnos', preds='FGHO', atoms='abcde')
STANDARD = dict(
    ops={'*': 'Assertion', '~': 'Negation', '&': 'Conjunction', 'V': 'Disjunction', '>': 'MaterialConditional', '<': 'MaterialBiconditional',
         '$': 'Conditional', '%': 'Biconditional', 'P': 'Possibility', 'N': 'Necessity'},
    quants={'X': 'Existential', 'L': 'Universal'}, system={'!': (-2, 0, 1), '=': (-1, 0, 2)},
    vars='xyzv', consts='abcd', preds='FGHO', atoms='ABCDE')
ARITY = dict(Assertion=1, Negation=1, Possibility=1, Necessity=1, Conjunction=2, Disjunction=2, MaterialConditional=2, MaterialBiconditional=2, Conditional=2, Biconditional=2)
MAX_DIGITS = 4300           # CPython's int() limit; longer subscripts are malformed input (ParseError)

class Reject(Exception): pass

class _P:
    def __init__(self, text, tab, preds, auto):
        self.t, self.tab, self.preds, self.auto = text, tab, dict(preds), auto
        self.i = 0; self.bound = []
        self.ws()
    def ws(self):
        while self.i < len(self.t) and self.t[self.i] == ' ': self.i += 1
    def cur(self): return self.t[self.i] if self.i < len(self.t) else None
    def adv(self): self.i += 1; self.ws()
    def sub(self):
        ds = ''
        while self.cur() is not None and self.cur() in '0123456789':
            ds += self.cur(); self.adv()
        if len(ds) > MAX_DIGITS: raise Reject('subscript too long')
        return int(ds) if ds else 0
    def coords(self, alphabet):
        i = alphabet.index(self.cur()); self.adv()
        return (i, self.sub())
    def param(self):
        c = self.cur()
        if c is not None and c in self.tab['consts']: return ('const',) + self.coords(self.tab['consts'])
        if c is not None and c in self.tab['vars']:
            v = ('var',) + self.coords(self.tab['vars'])
            if v not in self.bound: raise Reject('unbound variable')
            return v
        raise Reject('parameter expected')
    def is_param(self): return self.cur() is not None and (self.cur() in self.tab['consts'] or self.cur() in self.tab['vars'])
    def predicate(self):
        "-> (spec or None, bicoords)"
        c = self.cur()
        if c in self.tab['system']:
            self.adv(); return self.tab['system'][c], None
        bc = self.coords(self.tab['preds'])
        if bc in self.preds: return (bc[0], bc[1], self.preds[bc]), bc
        if not self.auto: raise Reject('undefined predicate')
        return None, bc
    def finish_pred(self, spec, bc, first=()):
        if spec is not None:
            params = list(first)
            while len(params) < spec[2]: params.append(self.param())
            return ('pred', spec, tuple(params))
        params = list(first)
        while self.is_param(): params.append(self.param())
        if len(params) == 0: raise Reject('zero-ary predicate')
        self.preds[bc] = len(params)
        return ('pred', (bc[0], bc[1], len(params)), tuple(params))
    def quantified(self):
        q = self.tab['quants'][self.cur()]; self.adv()
        c = self.cur()
        if c is None or c not in self.tab['vars']: raise Reject('variable expected')
        v = ('var',) + self.coords(self.tab['vars'])
        if v in self.bound: raise Reject('rebound variable')
        self.bound.append(v)
        body = self.sentence()
        if v not in free_or_bound_occurrences(body): raise Reject('vacuous quantifier')
        self.bound.remove(v)
        return ('quant', q, v, body)

def free_or_bound_occurrences(s):
    "variables occurring as parameters anywhere in s"
    k = s[0]
    if k == 'atom': return set()
    if k == 'pred': return {p for p in s[2] if p[0] == 'var'}
    if k == 'quant': return free_or_bound_occurrences(s[3])
    out = set()
    for x in s[2]: out |= free_or_bound_occurrences(x)
    return out

class PolishRef(_P):
    def sentence(self):
        c = self.cur()
        if c is None: raise Reject('unexpected end')
        t = self.tab
        if c in t['ops']:
            o = t['ops'][c]; self.adv()
            return ('op', o, tuple(self.sentence() for _ in range(ARITY[o])))
        if c in t['atoms']: return ('atom',) + self.coords(t['atoms'])
        if c in t['quants']: return self.quantified()
        if c in t['preds'] or c in t['system']:
            spec, bc = self.predicate()
            return self.finish_pred(spec, bc)
        raise Reject('unexpected symbol')

class StandardRef(_P):
    def sentence(self):
        c = self.cur()
        if c is None: raise Reject('unexpected end')
        t = self.tab
        if c == '(':
            self.adv()
            lhs = self.sentence()
            o = t['ops'].get(self.cur())
            if o is None or ARITY[o] != 2: raise Reject('binary operator expected')
            self.adv()
            rhs = self.sentence()
            if self.cur() != ')': raise Reject('close paren expected')
            self.adv()
            return ('op', o, (lhs, rhs))
        if c in t['ops']:
            o = t['ops'][c]
            if ARITY[o] != 1: raise Reject('prefix binary operator')
            self.adv()
            return ('op', o, (self.sentence(),))
        if c in t['atoms']: return ('atom',) + self.coords(t['atoms'])
        if c in t['quants']: return self.quantified()
        if c in t['preds'] or c in t['system']:
            spec, bc = self.predicate()
            return self.finish_pred(spec, bc)
        if self.is_param():
            first = self.param()
            c2 = self.cur()
            if c2 is None or not (c2 in t['preds'] or c2 in t['system']): raise Reject('predicate expected after parameter')
            spec, bc = self.predicate()
            if spec is not None and spec[2] < 2: raise Reject('infix unary predicate')
            s = self.finish_pred(spec, bc, (first,))
            if len(s[2]) < 2: raise Reject('infix unary predicate')
            return s
        raise Reject('unexpected symbol')

def parse(notation, text, preds=None, auto=True):
    """-> ('ok', ast, preds_after) | ('error', reason).  preds: {(index, subscript): arity}.
    A failed parse leaves no trace in the result (the real parser may already have auto-declared predicates; that is
    compared separately)."""
    tab = POLISH if notation == 'polish' else STANDARD
    cls = PolishRef if notation == 'polish' else StandardRef
    def attempt(t):
        p = cls(t, tab, preds or {}, auto)
        s = p.sentence()
        p.ws()
        if p.i != len(t): raise Reject('trailing input')
        return s, p.preds
    try:
        s, ps = attempt(text)
        return ('ok', s, ps)
    except Reject as e:
        if notation == 'standard':
            try:
                s, ps = attempt('(' + text + ')')
                return ('ok', s, ps)
            except Reject:
                pass
        return ('error', str(e))
    except (ValueError, IndexError) as e:
        return ('error', f'{type(e).__name__}')

def to_ast(s):
    "real pytableaux sentence -> AST (through public structural attributes)"
    k = type(s).__name__
    if k == 'Atomic': return ('atom', s.index, s.subscript)
    if k == 'Predicated':
        return ('pred', tuple(s.predicate.spec), tuple((('const' if type(p).__name__ == 'Constant' else 'var'), p.index, p.subscript) for p in s.params))
    if k == 'Quantified': return ('quant', s.quantifier.name, ('var', s.variable.index, s.variable.subscript), to_ast(s.sentence))
    if k == 'Operated': return ('op', s.operator.name, tuple(to_ast(x) for x in s.operands))
    raise TypeError(k)

def render(notation, s):
    "AST -> canonical string (no whitespace; subscripts as digits; polish: prefix; standard: parenthesised infix, prefix predication)"
    tab = POLISH if notation == 'polish' else STANDARD
    inv_ops = {v: k for k, v in tab['ops'].items()}; inv_q = {v: k for k, v in tab['quants'].items()}; inv_sys = {v: k for k, v in tab['system'].items()}
    def sub(n): return str(n) if n else ''
    def par(p): return (tab['consts'] if p[0] == 'const' else tab['vars'])[p[1]] + sub(p[2])
    def r(s):
        k = s[0]
        if k == 'atom': return tab['atoms'][s[1]] + sub(s[2])
        if k == 'pred':
            head = inv_sys[s[1]] if s[1] in inv_sys else tab['preds'][s[1][0]] + sub(s[1][1])
            if notation == 'standard' and s[1] in inv_sys and s[1][2] == 2:
                return par(s[2][0]) + head + par(s[2][1])
            return head + ''.join(par(p) for p in s[2])
        if k == 'quant': return inv_q[s[1]] + par(s[2]) + r(s[3])
        o = inv_ops[s[1]]
        if notation == 'polish' or len(s[2]) == 1: return o + ''.join(r(x) for x in s[2])
        return '(' + r(s[2][0]) + o + r(s[2][1]) + ')'
    return r(s)

def closed_wellformed(s, bound=()):
    "every variable occurrence bound exactly once by an enclosing quantifier, no vacuous/re-bound quantifier, arity respected"
    k = s[0]
    if k == 'atom': return True
    if k == 'pred': return len(s[2]) == s[1][2] and all(p[0] == 'const' or p in bound for p in s[2])
    if k == 'quant':
        if s[2] in bound: return False
        if s[2] not in free_or_bound_occurrences(s[3]): return False
        return closed_wellformed(s[3], tuple(bound) + (s[2],))
    return len(s[2]) == ARITY[s[1]] and all(closed_wellformed(x, bound) for x in s[2])
