"""Independent oracle: the semantics of the registered logics.

Written from the literature and from the *defining prose* of doc/logics/*.rst — never from the tables that
Sphinx generates out of the code.  Truth values are the four Belnap values represented as (told-true,
told-false) bit pairs; three- and two-valued logics use subsets.

  T = (1,0)  F = (0,1)  B = (1,1) "both"  N = (0,0) "neither"

Sources per table (the `source` attribute of each class):
  FDE    Belnap 1977 / Dunn 1976; Priest, Introduction to Non-Classical Logic (2nd ed.) ch. 8: the four values form
         the lattice F < N,B < T with N, B incomparable; ∧ = meet, ∨ = join, ¬ swaps the bits.
  K3     Kleene strong tables = FDE restricted to {F,N,T};  LP (Priest 1979) = FDE restricted to {F,B,T}.
  CPL    restriction to {F,T}.
  L3     Łukasiewicz 1920: x → y = min(1, 1 − x + y) on F=0, N=½, T=1.
  RM3    Sobociński / Anderson–Belnap: x → y = F if x > y; B if x = y = B; T otherwise (F < B < T).
  K3W    Bochvar internal / weak Kleene: N is infectious.
  B3E    Bochvar external: assertion *A = T iff A = T else F;  A $ B := ~*A V *B  (doc/logics/b3e.rst).
  G3     Gödel 3: ¬x = T iff x = F else F;  x → y = T if x ≤ y else y.
  MH, NH Caret 2017 "Hybridized Paracomplete and Paraconsistent Logics".
  GO     doc/logics/go.rst (Gappy Object-Language): crunch(x) = T iff x = T else F; ∧/∨ = min/max of crunched
         values; A $ B := (A > B) V (~(A V ~A) & ~(B V ~B)).
  P3     Post 1921: cyclic negation T→N→F→T;  ∨ = max;  A ∧ B := ¬(¬A ∨ ¬B).
Defined operators everywhere (doc include material_defines.rst, C07 statement):
  A > B := ~A V B,  A < B := (A > B) & (B > A),  Biconditional := Conditional both ways conjoined,
  Conditional := material conditional and Assertion := identity where not native.
"""
from __future__ import annotations
from functools import reduce
from itertools import product

T, F, B, N = (1, 0), (0, 1), (1, 1), (0, 0)
NAME = {T: 'T', F: 'F', B: 'B', N: 'N'}
VAL = {v: k for k, v in NAME.items()}
ORDER4 = (F, N, B, T)        # listing order only (the code's Meta.values order)

OPERATORS = ('Assertion', 'Negation', 'Conjunction', 'Disjunction', 'MaterialConditional', 'MaterialBiconditional',
             'Conditional', 'Biconditional')
ARITY = dict(Assertion=1, Negation=1, Conjunction=2, Disjunction=2, MaterialConditional=2, MaterialBiconditional=2,
             Conditional=2, Biconditional=2, Possibility=1, Necessity=1)

def neg(a): return (a[1], a[0])
def meet(a, b): return (a[0] & b[0], a[1] | b[1])
def join(a, b): return (a[0] | b[0], a[1] & b[1])

class Sem:
    "Belnap–Dunn lattice semantics; restricts to K3, LP, CPL"
    source = 'Belnap-Dunn lattice'
    native = ('Negation', 'Conjunction', 'Disjunction')
    def __init__(self, name, values, designated, frame='none', quantified=True):
        self.name, self.values, self.designated = name, tuple(values), tuple(designated)
        self.frame = frame                  # none | any | serial | reflexive | preorder | equivalence
        self.modal = frame != 'none'
        self.quantified = quantified
        self.unassigned = N if N in values else F
    # operators
    def Assertion(s, a): return a
    def Negation(s, a): return neg(a)
    def Conjunction(s, a, b): return meet(a, b)
    def Disjunction(s, a, b): return join(a, b)
    def MaterialConditional(s, a, b): return s.Disjunction(s.Negation(a), b)
    def MaterialBiconditional(s, a, b): return s.Conjunction(s.MaterialConditional(a, b), s.MaterialConditional(b, a))
    def Conditional(s, a, b): return s.MaterialConditional(a, b)
    def Biconditional(s, a, b): return s.Conjunction(s.Conditional(a, b), s.Conditional(b, a))
    def op(s, name, *args): return getattr(s, name)(*args)
    # generalised disjunction / conjunction over a (possibly empty for modal) family of values
    def exists(s, vs): return reduce(join, vs, F)
    def forall(s, vs): return reduce(meet, vs, T)
    def poss(s, vs): return s.exists(vs)
    def nec(s, vs): return s.forall(vs)
    def is_des(s, v): return v in s.designated
    def table(s, opname):
        return {tuple(NAME[x] for x in tup): NAME[s.op(opname, *tup)] for tup in product(s.values, repeat=ARITY[opname])}

class L3(Sem):
    source = 'Lukasiewicz 1920'
    native = Sem.native + ('Conditional',)
    def Conditional(s, a, b):
        num = {F: 0, N: 1, T: 2}
        return {0: F, 1: N, 2: T}[min(2, 2 - num[a] + num[b])]

class RM3(Sem):
    source = 'Sobocinski / Anderson-Belnap RM3'
    native = Sem.native + ('Conditional',)
    def Conditional(s, a, b):
        o = {F: 0, B: 1, T: 2}
        if o[a] > o[b]: return F
        if a == B and b == B: return B
        return T

class K3W(Sem):
    source = 'Bochvar internal (weak Kleene)'
    def Conjunction(s, a, b): return N if N in (a, b) else meet(a, b)
    def Disjunction(s, a, b): return N if N in (a, b) else join(a, b)

class K3WQ(K3W):
    source = 'doc/logics/k3wq.rst: quantifiers as generalised weak-Kleene disjunction/conjunction'
    def exists(s, vs): return N if N in vs else (T if T in vs else F)
    def forall(s, vs): return N if N in vs else (F if F in vs else T)

class B3E(K3W):
    source = 'Bochvar external'
    native = Sem.native + ('Assertion', 'Conditional')
    def Assertion(s, a): return T if a == T else F
    def Conditional(s, a, b): return s.Disjunction(s.Negation(s.Assertion(a)), s.Assertion(b))

class G3(Sem):
    source = 'Goedel 3-valued'
    native = Sem.native + ('Conditional',)
    def Negation(s, a): return T if a == F else F
    def Conditional(s, a, b):
        o = {F: 0, N: 1, T: 2}
        return T if o[a] <= o[b] else b

class MH(Sem):
    source = 'Caret 2017 (paracomplete hybrid)'
    native = Sem.native + ('Conditional',)
    def Disjunction(s, a, b): return F if (a, b) == (N, N) else join(a, b)
    def Conditional(s, a, b): return F if (a == T and b != T) else T
    def exists(s, vs):     # doc/logics/mh.rst
        S = set(vs)
        if T in S: return T
        if N in S and F in S: return N
        return F

class NH(Sem):
    source = 'Caret 2017 (paraconsistent hybrid)'
    native = Sem.native + ('Conditional',)
    def Conjunction(s, a, b): return T if (a, b) == (B, B) else meet(a, b)
    def Conditional(s, a, b): return F if (a != F and b == F) else T
    def forall(s, vs):     # doc/logics/nh.rst
        S = set(vs)
        if F in S: return F
        if B in S and T in S: return B
        return T

class GO(Sem):
    source = 'doc/logics/go.rst'
    native = Sem.native + ('Assertion', 'Conditional')
    def crunch(s, a): return T if a == T else F
    def Assertion(s, a): return s.crunch(a)
    def Conjunction(s, a, b): return meet(s.crunch(a), s.crunch(b))
    def Disjunction(s, a, b): return join(s.crunch(a), s.crunch(b))
    def Conditional(s, a, b):
        gap = lambda x: s.Negation(s.Disjunction(x, s.Negation(x)))
        return s.Disjunction(s.MaterialConditional(a, b), s.Conjunction(gap(a), gap(b)))
    def exists(s, vs): return reduce(join, [s.crunch(v) for v in vs], F)
    def forall(s, vs): return reduce(meet, [s.crunch(v) for v in vs], T)

class P3(Sem):
    source = 'Post 1921'
    def Negation(s, a): return {T: N, N: F, F: T}[a]
    def Disjunction(s, a, b):
        o = {F: 0, N: 1, T: 2}
        return a if o[a] >= o[b] else b
    def Conjunction(s, a, b): return s.Negation(s.Disjunction(s.Negation(a), s.Negation(b)))

V4, V3K, V3L, V2 = (F, N, B, T), (F, N, T), (F, B, T), (F, T)
_BASE = dict(
    FDE=(Sem, V4, (B, T)), K3=(Sem, V3K, (T,)), LP=(Sem, V3L, (B, T)), CPL=(Sem, V2, (T,)),
    L3=(L3, V3K, (T,)), RM3=(RM3, V3L, (B, T)), K3W=(K3W, V3K, (T,)), K3WQ=(K3WQ, V3K, (T,)),
    B3E=(B3E, V3K, (T,)), G3=(G3, V3K, (T,)), MH=(MH, V3K, (T,)), NH=(NH, V3L, (B, T)),
    GO=(GO, V3K, (T,)), P3=(P3, V3K, (T,)))
_FRAME = {'K': 'any', 'D': 'serial', 'T': 'reflexive', 'S4': 'preorder', 'S5': 'equivalence'}

def spec_of(name: str) -> Sem:
    """The oracle for a registered logic name.  A modal logic <P><Base> has by definition the
    truth-functional part of <Base> and the frame class of <P>."""
    n = name.upper()
    if n in _BASE:
        cls, vals, des = _BASE[n]
        return cls(n, vals, des, 'none', quantified=(n not in ('CPL', 'P3')))
    if n == 'CFOL':
        return Sem(n, V2, (T,), 'none')
    if n in _FRAME:
        return Sem(n, V2, (T,), _FRAME[n])
    for pre in ('S4', 'S5', 'K', 'T'):
        if n.startswith(pre) and n[len(pre):] in _BASE:
            cls, vals, des = _BASE[n[len(pre):]]
            return cls(n, vals, des, _FRAME[pre])
    raise KeyError(name)

def frame_ok(frame: str, worlds, R) -> bool:
    "does the relation R (set of pairs) over `worlds` satisfy the frame condition?"
    R = set(R); W = list(worlds)
    if frame in ('none', 'any'): return True
    if frame == 'serial': return all(any((w, v) in R for v in W) for w in W)
    refl = all((w, w) in R for w in W)
    if frame == 'reflexive': return refl
    trans = all((a, c) in R for (a, b) in R for (b2, c) in R if b == b2)
    if frame == 'preorder': return refl and trans
    symm = all((b, a) in R for (a, b) in R)
    if frame == 'equivalence': return refl and trans and symm
    raise ValueError(frame)

def closure(frame: str, worlds, R):
    "least relation ⊇ R with the frame property over `worlds` (reflexive / preorder / equivalence)"
    R = set(R); W = set(worlds) | {w for p in R for w in p}
    if frame in ('reflexive', 'preorder', 'equivalence'): R |= {(w, w) for w in W}
    if frame in ('preorder', 'equivalence'):
        ch = True
        while ch:
            ch = False
            if frame == 'equivalence':
                for (a, b) in list(R):
                    if (b, a) not in R: R.add((b, a)); ch = True
            for (a, b) in list(R):
                for (b2, c) in list(R):
                    if b == b2 and (a, c) not in R: R.add((a, c)); ch = True
    return R
