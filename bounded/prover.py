"""Run the real prover and classify the outcome (bounded stand-ins)."""
from __future__ import annotations

HARD_SECONDS = 20

def outcome(logic, arg, **opts):
    """-> (cls, tableau) with cls in: valid | invalid | limit | exception:<Type>
    'limit' = premature (step/time limit) or some open branch carries a quit flag (world/constant limit)."""
    from pytableaux.proof import Tableau
    own_limit = 'max_steps' not in opts
    opts.setdefault('max_steps', 1500)
    opts.setdefault('build_timeout', 1500)
    from pyvc.par import hard_timeout, HardTimeout
    try:
        # the tableau's own build_timeout is only consulted between steps: a hard wall-clock guard covers a single step that
        # does not return
        guard = None
        with hard_timeout(HARD_SECONDS) as guard:
            t = Tableau(logic, arg, **opts).build()
    except HardTimeout:
        return 'harness-limit', None
    except Exception as e:
        if guard is not None and guard.fired: return 'harness-limit', None         # the alarm was replaced by an exception of the code under test
        if type(e).__name__ == 'ProofTimeoutError' and own_limit: return 'harness-limit', None
        return f'exception:{type(e).__name__}', None
    if t.premature: return ('harness-limit' if own_limit else 'limit'), t
    if t.valid: return 'valid', t
    flagged = [b for b in t.open if any(n.get('is_flag') and n.get('flag') == 'quit' for n in b)]
    if len(flagged) == len(t.open): return 'limit', t
    return 'invalid', t

def limit_free_open(t):
    return [b for b in t.open if not any(n.get('is_flag') and n.get('flag') == 'quit' for n in b)]

def branch_model_failures(logic, t, sem):
    """C02: every limit-free open branch's own model satisfies every node of the branch (checked with the
    *independent* evaluator on the model data) and is a countermodel.  -> list of failures"""
    from spec.evaluate import datum_of_model
    from spec import semantics as S
    out = []
    arg = t.argument
    for b in limit_free_open(t):
        m = b.model
        if m is None:
            m = logic.Model(); m.read_branch(b)
        d = datum_of_model(m, sem)
        for n in b:
            if n.get('world1') is not None:
                if (n['world1'], n['world2']) not in d.R: out.append(('access', (n['world1'], n['world2']), None)); break
                continue
            s = n.get('sentence')
            if s is None: continue
            w = n.get('world') or 0
            try:
                v = d.value(s, w)
                rv = m.value_of(s, world=w)
            except Exception as e:
                out.append(('exception', str(s), repr(e))); break
            des = n.get('designated')
            ok = (v == S.T) if des is None else ((v in sem.designated) == des)
            if not ok:
                out.append(('node', f'{s} des={des} w={w}', S.NAME[v])); break
            if rv.name != S.NAME[v]:
                out.append(('evaluator', f'{s} w={w}', f'real={rv.name} spec={S.NAME[v]}')); break
        else:
            if not d.is_countermodel(arg.premises, arg.conclusion): out.append(('not-countermodel', arg.argstr(), None))
            elif not m.is_countermodel_to(arg): out.append(('is_countermodel_to-disagrees', arg.argstr(), None))
    return out
