"""Argument generators for the bounded stand-ins (exhaustive small propositional arguments; seeded random
propositional / modal / first-order arguments)."""
from __future__ import annotations
import itertools, random

def _lang():
    from pytableaux.lang import Atomic, Operator, Quantifier, Predicate, Constant, Variable, Argument
    return Atomic, Operator, Quantifier, Predicate, Constant, Variable, Argument

TF_OPS1 = ('Negation', 'Assertion')
TF_OPS2 = ('Conjunction', 'Disjunction', 'MaterialConditional', 'MaterialBiconditional', 'Conditional', 'Biconditional')

def prop_sentences(n_conn, atoms):
    """all sentences with exactly n_conn connectives over the atoms (memoised by size)"""
    Atomic, Operator, *_ = _lang()
    memo = {0: list(atoms)}
    def gen(n):
        if n in memo: return memo[n]
        out = []
        for o in TF_OPS1:
            for x in gen(n - 1): out.append(Operator[o](x))
        for o in TF_OPS2:
            for k in range(0, n):
                for x in gen(k):
                    for y in gen(n - 1 - k): out.append(Operator[o](x, y))
        memo[n] = out
        return out
    return gen(n_conn)

def exhaustive_prop_arguments(max_conn, n_atoms=2, max_premises=1):
    """all arguments whose total number of connectives is <= max_conn, over n_atoms letters"""
    Atomic, Operator, Q, P, C, V, Argument = _lang()
    atoms = [Atomic(i, 0) for i in range(n_atoms)]
    by = {n: prop_sentences(n, atoms) for n in range(max_conn + 1)}
    for total in range(max_conn + 1):
        for nc in range(total + 1):
            for concl in by[nc]:
                rest = total - nc
                if rest == 0:
                    yield Argument(concl)
                if max_premises >= 1:
                    for p in by[rest]:
                        if rest == 0 and p is not atoms[0] and p is not atoms[1 % n_atoms]: continue
                        yield Argument(concl, (p,))

def random_sentence(rnd, depth, atoms, ops1, ops2, leaf=None):
    Atomic, Operator, *_ = _lang()
    if depth == 0 or rnd.random() < 0.25:
        return leaf(rnd) if leaf else rnd.choice(atoms)
    if rnd.random() < 0.45:
        return Operator[rnd.choice(ops1)](random_sentence(rnd, depth - 1, atoms, ops1, ops2, leaf))
    return Operator[rnd.choice(ops2)](random_sentence(rnd, depth - 1, atoms, ops1, ops2, leaf), random_sentence(rnd, depth - 1, atoms, ops1, ops2, leaf))

def random_argument(rnd, kind='prop', depth=3, max_premises=2):
    """kind: prop | modal | fo | fomodal"""
    Atomic, Operator, Quantifier, Predicate, Constant, Variable, Argument = _lang()
    atoms = [Atomic(i, 0) for i in range(3)]
    ops1 = list(TF_OPS1[:1])
    if rnd.random() < 0.2: ops1.append('Assertion')
    ops2 = list(TF_OPS2)
    if 'modal' in kind: ops1 += ['Possibility', 'Necessity']
    leaf = None
    if 'fo' in kind:
        F, G = Predicate(0, 0, 1), Predicate(1, 0, 2)
        consts = [Constant(i, 0) for i in range(3)]
        x, y = Variable(0, 0), Variable(1, 0)
        def closed(rnd):
            r = rnd.random()
            if r < 0.3: return F(rnd.choice(consts))
            if r < 0.4: return G(rnd.choice(consts), rnd.choice(consts))
            if r < 0.5: return rnd.choice(atoms)
            if r < 0.55: return Predicate.Identity((rnd.choice(consts), rnd.choice(consts)))
            q = rnd.choice(list(Quantifier))
            body_leaf = lambda rnd: rnd.choice([F(x), F(x), G(x, rnd.choice(consts)), G(rnd.choice(consts), x), F(rnd.choice(consts))])
            body = random_sentence(rnd, rnd.randint(0, 2), atoms, ops1, ops2, body_leaf)
            if x not in body.variables: body = Operator.Conjunction(F(x), body)
            return q(x, body)
        leaf = closed
    mk = lambda: random_sentence(rnd, rnd.randint(1, depth), atoms, ops1, ops2, leaf)
    return Argument(mk(), [mk() for _ in range(rnd.randint(0, max_premises))])

_roll = [10_000]
def roll_cache():
    """evict everything from the lexical item cache using public constructors only (the cache is a bounded FIFO, not an
    interning table): afterwards every construction yields a new object.  No-op when the cache outlives 20000 constructions."""
    from pytableaux.lang import Atomic, Constant
    _roll[0] += 1
    spec = (3, _roll[0])
    probe = Constant(spec)               # the newest entry: once it is gone, so is everything older
    for _ in range(20_000):
        _roll[0] += 1
        Atomic(_roll[0] % 5, _roll[0])
        if Constant(spec) is not probe: return True
    return False

def distinct_equal(item):
    "an object equal to the lexical item, rebuilt bottom-up after the cache rolled over: no part of it is shared with the original"
    roll_cache()
    return _rebuild(item)

def _rebuild(item):
    from pytableaux.lang import Operated, Quantified, Predicated, Predicate
    if isinstance(item, Operated): return Operated(item.operator, tuple(_rebuild(x) for x in item.operands))
    if isinstance(item, Quantified): return Quantified(item.quantifier, _rebuild(item.variable), _rebuild(item.sentence))
    if isinstance(item, Predicated): return Predicated(item.predicate if item.predicate.is_system else _rebuild(item.predicate), tuple(_rebuild(x) for x in item.params))
    return type(item)(item.spec)

def hostile(arg):
    """the same argument with every sentence rebuilt bottom-up after the item cache rolled over: equal sentences and equal
    parameters in different premises are different objects (what a long-running session sees once the bounded cache evicts)"""
    from pytableaux.lang import Argument
    return Argument(distinct_equal(arg.conclusion), [distinct_equal(p) for p in arg.premises])
