"""Bounded stand-ins for C12/C13: the real parsers/writers against the reference grammar of spec/notation.py."""
from __future__ import annotations
import itertools, random
from spec import notation as N

REDUCED = dict(
    polish=['a', 'b', 'F', 'G', 'm', 'n', 'x', 'y', 'N', 'K', 'M', 'S', 'V', 'I', 'J', '1', '0', ' ', '?', '('],
    standard=['A', 'B', 'F', 'G', 'a', 'b', 'x', 'y', '~', '&', 'V', 'P', 'X', 'L', '=', '!', '(', ')', '1', '0', ' ', '?'])

HARD_SECONDS = 3

def real_parse(notation, text, preds=None, auto=True):
    """-> ('ok', ast, preds_after) | ('error', 'ParseError') | ('exception', TypeName)"""
    from pytableaux.lang import Parser, Predicates, Predicate
    from pytableaux.errors import ParseError
    store = Predicates([Predicate(i, s, a) for (i, s), a in (preds or {}).items()])
    p = Parser(notation, store, auto_preds=auto)
    from pyvc.par import hard_timeout, HardTimeout
    guard = None
    try:
        with hard_timeout(HARD_SECONDS) as guard: s = p(text)        # a changed tree may not return (scan-ahead loops)
    except HardTimeout:
        return ('exception', 'does-not-return', {})
    except ParseError:
        if guard is not None and guard.fired: return ('exception', 'does-not-return', {})      # the parser's own __exit__ replaced the alarm
        return ('error', 'ParseError', {tuple(q.bicoords): q.arity for q in p.predicates if not q.is_system})
    except RecursionError:
        return ('exception', 'RecursionError', {})
    except Exception as e:
        return ('exception', type(e).__name__, {})
    return ('ok', N.to_ast(s), {tuple(q.bicoords): q.arity for q in p.predicates if not q.is_system})

def compare(notation, text, preds=None, auto=True):
    "-> None or a description of the disagreement"
    r = real_parse(notation, text, preds, auto)
    w = N.parse(notation, text, preds, auto)
    if r[0] == 'exception': return f'raises {r[1]}'
    if r[0] != w[0]: return f'real {r[0]} vs grammar {w[0]} ({w[1] if w[0] == "error" else ""})'
    if r[0] == 'ok':
        if r[1] != w[1]: return f'denotation differs: real {r[1]} vs grammar {w[1]}'
        if not N.closed_wellformed(r[1]): return f'returned sentence is not closed/well-formed: {r[1]}'
        if r[2] != w[2]: return f'predicate store after parse differs: {r[2]} vs {w[2]}'
    return None

def exhaustive_strings(notation, maxlen):
    al = REDUCED[notation]
    for n in range(0, maxlen + 1):
        for t in itertools.product(al, repeat=n):
            yield ''.join(t)

def random_ast(rnd, notation, depth, bound=(), preds=None):
    "a random closed well-formed AST whose predicates respect one arity per symbol (preds is updated)"
    preds = preds if preds is not None else {}
    tab = N.POLISH if notation == 'polish' else N.STANDARD
    def sub(): return rnd.choice([0, 0, 0, 1, 2, 10, 123])
    def param():
        if bound and rnd.random() < 0.5: return rnd.choice(bound)
        return ('const', rnd.randrange(4), sub())
    r = rnd.random()
    if depth == 0 or r < 0.2:
        k = rnd.random()
        if k < 0.35: return ('atom', rnd.randrange(5), sub())
        if k < 0.5: return ('pred', (-1, 0, 2), (param(), param()))
        if k < 0.6: return ('pred', (-2, 0, 1), (param(),))
        bc = (rnd.randrange(4), rnd.choice([0, 0, 1]))
        ar = preds.setdefault(bc, rnd.randint(1, 3))
        return ('pred', (bc[0], bc[1], ar), tuple(param() for _ in range(ar)))
    if r < 0.4:
        free = [('var', i, s) for i in range(4) for s in (0, 1)]
        cand = [v for v in free if v not in bound]
        v = rnd.choice(cand)
        # body must mention v
        for _ in range(20):
            body = random_ast(rnd, notation, depth - 1, tuple(bound) + (v,), preds)
            if v in N.free_or_bound_occurrences(body): break
        else:
            body = ('pred', (-2, 0, 1), (v,))
        return ('quant', rnd.choice(['Existential', 'Universal']), v, body)
    o = rnd.choice(list(N.ARITY))
    return ('op', o, tuple(random_ast(rnd, notation, depth - 1, bound, preds) for _ in range(N.ARITY[o])))

def ast_to_sentence(s):
    from pytableaux.lang import Atomic, Predicate, Constant, Variable, Operator, Quantifier
    k = s[0]
    if k == 'atom': return Atomic(s[1], s[2])
    mk = lambda p: (Constant if p[0] == 'const' else Variable)(p[1], p[2])
    if k == 'pred':
        pred = {(-1, 0, 2): Predicate.Identity, (-2, 0, 1): Predicate.Existence}.get(s[1]) or Predicate(*s[1])
        return pred(tuple(mk(p) for p in s[2]))
    if k == 'quant': return Quantifier[s[1]](mk(s[2]), ast_to_sentence(s[3]))
    return Operator[s[1]](tuple(ast_to_sentence(x) for x in s[2]))

def decorate(rnd, text):
    "insert blanks between characters (never inside nothing: any position is a token boundary or inside a subscript)"
    out = []
    for ch in text:
        out.append(ch)
        if rnd.random() < 0.3: out.append(' ' * rnd.randint(1, 2))
    return (' ' if rnd.random() < 0.3 else '') + ''.join(out)

def scope_family(depth=2):
    """ASTs built WITHOUT regard to scoping (free, vacuous, re-bound and sibling-bound variables all occur): every tree of the
    given depth over 8 leaves, negation, three quantifier prefixes and conjunction, plus one more unary layer.  Rendered, they
    are inputs on which accept/reject is decided by the binding discipline alone."""
    x, y, m = ('var', 0, 0), ('var', 1, 0), ('const', 0, 0)
    F, G = (0, 0, 1), (1, 0, 2)
    leaves = [('atom', 0, 0), ('pred', F, (x,)), ('pred', F, (y,)), ('pred', F, (m,)), ('pred', G, (x, y)), ('pred', G, (x, m)),
              ('pred', (-1, 0, 2), (x, x)), ('pred', (-1, 0, 2), (y, m))]
    def unary(t):
        return [('op', 'Negation', (t,)), ('quant', 'Universal', x, t), ('quant', 'Universal', y, t), ('quant', 'Existential', x, t)]
    level = list(leaves)
    for _ in range(depth):
        nxt = list(leaves)
        for t in level: nxt += unary(t)
        for a in level:
            for b in level: nxt.append(('op', 'Conjunction', (a, b)))
        level = nxt
    seen = set()
    for t in level:
        if t not in seen: seen.add(t); yield t
    for t in level:
        for u in unary(t):
            if u not in seen: seen.add(u); yield u
