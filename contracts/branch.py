"""Class models for proof/common.py Branch (C06, C16) over z3 sets and integers.

Constants are encoded by their position in the order of `Constant` items: key = 4*subscript + index
(Constant.TYPE.maxi == 3; `CoordsItem.next` is the successor in that order — obligations C06.next.*).
"""
from __future__ import annotations
import z3
from pyvc.interp import SymVal, Outside, PyExc, Contract, GenList

IntSet = z3.SetSort(z3.IntSort())

class SetVal(SymVal):
    "a python set/frozenset of ints (worlds) or constants (by key); mutable wrapper around a z3 set term"
    def __init__(self, t, elem='int', frozen=False):
        self.t, self.elem, self.frozen = t, elem, frozen
    def _lift(self, x):
        if isinstance(x, ConstKey): return x.k
        if isinstance(x, z3.ArithRef): return x
        if isinstance(x, int) and not isinstance(x, bool): return z3.IntVal(x)
        raise Outside(f'set element {type(x).__name__}')
    def _wrap(self, k):
        return ConstKey(k) if self.elem == 'const' else k
    def sym_contains(self, it, x):
        return z3.IsMember(self._lift(x), self.t)
    def sym_len(self, it):
        n = it.fresh_int('len')
        it.assume(n >= 0)
        it.assume((n == 0) == (self.t == z3.EmptySet(z3.IntSort())))
        return n
    def sym_truth(self, it):
        return self.t != z3.EmptySet(z3.IntSort())
    def sym_minmax(self, it, is_min, default):
        if not it.fork(self.t != z3.EmptySet(z3.IntSort())):
            if default is not NotImplemented: return default
            raise PyExc(ValueError, ('max() arg is an empty sequence',))
        m = it.fresh_int('min' if is_min else 'max')
        x = z3.Int('x!q')
        it.assume(z3.IsMember(m, self.t))
        it.assume(z3.ForAll([x], z3.Implies(z3.IsMember(x, self.t), (m <= x) if is_min else (x <= m))))
        return self._wrap(m)
    def sym_minmax_key(self, it, is_min, default, keyf):
        "max/min by a key: some element whose key bounds every element's key (CPython returns the first such; any is allowed here)"
        import ast
        if not it.fork(self.t != z3.EmptySet(z3.IntSort())):
            if default is not NotImplemented: return default
            raise PyExc(ValueError, ('max() arg is an empty sequence',))
        m = it.fresh_int('min' if is_min else 'max')
        x = z3.Int('x!q')
        it.assume(z3.IsMember(m, self.t))
        if self.elem == 'const': it.assume(m >= 0)
        km, kx = keyf(self._wrap(m)), keyf(self._wrap(x))
        c = it.compare(ast.LtE, km, kx) if is_min else it.compare(ast.LtE, kx, km)
        c = z3.BoolVal(c) if isinstance(c, bool) else c
        it.assume(z3.ForAll([x], z3.Implies(z3.And(z3.IsMember(x, self.t), x >= 0), c)))
        return self._wrap(m)
    def sym_getattr(self, it, name):
        if name == 'update' and not self.frozen:
            def update(it, other):
                if not isinstance(other, SetVal): raise Outside('set.update(<non-set>)')
                self.t = z3.SetUnion(self.t, other.t)
            return Contract(update, 'set.update')
        if name == 'add' and not self.frozen:
            def add(it, x): self.t = z3.SetAdd(self.t, self._lift(x))
            return Contract(add, 'set.add')
        if name == 'copy':
            return Contract(lambda it: SetVal(self.t, self.elem, self.frozen), 'set.copy')
        raise Outside(f'set.{name}')
    def sym_frozenset(self, it): return SetVal(self.t, self.elem, True)
    def sym_is(self, it, other): return self is other

class ConstKey(SymVal):
    "a Constant, by its position in the constant order"
    def __init__(self, k): self.k = k
    def sym_getattr(self, it, name):
        if name == 'next':
            # contract of CoordsItem.next for Constant (proved: C06.next.*)
            return Contract(lambda it: ConstKey(self.k + 1), 'Constant.next')
        # coordinates of the constant at position k of the order (subscript-major: key = 4*subscript + index, C06.order)
        if name == 'index': return self.k % 4
        if name == 'subscript': return self.k / 4
        if name == 'spec': return (self.k % 4, self.k / 4)
        if name == 'sort_tuple': raise Outside('Constant.sort_tuple')
        raise Outside(f'Constant.{name}')
    def sym_compare(self, it, op, other, reflected):
        if not isinstance(other, ConstKey): raise Outside('compare constant with non-constant')
        a, b = (other.k, self.k) if reflected else (self.k, other.k)
        return dict(Eq=a == b, NotEq=a != b, Lt=a < b, LtE=a <= b, Gt=a > b, GtE=a >= b)[op]
    def sym_is(self, it, other):
        return isinstance(other, ConstKey) and self.k == other.k

class SentSym(SymVal):
    "the sentence of a symbolic node: only its constant set matters here"
    def __init__(self, consts): self.consts = consts
    def sym_getattr(self, it, name):
        if name == 'constants': return SetVal(self.consts, 'const', frozen=True)
        raise Outside(f'Sentence.{name}')

class NodeSym(SymVal):
    """an arbitrary node: its class membership is three symbolic booleans, its sentence constants and its
    worlds are arbitrary finite sets (the class hierarchy facts Modal ⊇ WorldNode, AccessNode are not needed)"""
    def __init__(self, pfx='node'):
        self.is_sentence = z3.Bool(f'{pfx}.is_sentence')
        self.is_modal = z3.Bool(f'{pfx}.is_modal')
        self.is_closure = z3.Bool(f'{pfx}.is_closure')
        self.consts = z3.Const(f'{pfx}.consts', IntSet)
        self.worlds = z3.Const(f'{pfx}.worlds', IntSet)
    def sym_isinstance(self, it, cls):
        from pytableaux.proof import common as C
        if cls is C.Node: return True
        if cls is C.SentenceNode: return self.is_sentence
        if cls is C.Modal: return self.is_modal
        if cls is C.ClosureNode: return self.is_closure
        raise Outside(f'isinstance(node, {cls})')
    def sym_getitem(self, it, k):
        ks = str(getattr(k, 'value', k))
        if ks == 'sentence': return SentSym(self.consts)
        raise Outside(f'node[{ks}]')
    def sym_getattr(self, it, name):
        if name == 'worlds':
            return Contract(lambda it: SetVal(self.worlds, 'int', frozen=True), 'Node.worlds')
        raise Outside(f'Node.{name}')
    def sym_truth(self, it): return True

class Opaque(SymVal):
    "a field whose content is irrelevant here; only listed methods may be called (frame: they touch nothing else)"
    def __init__(self, label, methods): self.label, self.methods = label, methods; self.copy_of = None; self.copy_kw = None
    def sym_getattr(self, it, name):
        if name in self.methods:
            def m(it, *a, **k):
                it.path.notes.setdefault('calls', []).append(f'{self.label}.{name}')
                r = self.methods[name]
                out = r(it, *a, **k) if callable(r) else r
                if name == 'copy' and isinstance(out, Opaque): out.copy_of, out.copy_kw = self, dict(k)      # the result is a copy of THIS object's content
                return out
            return Contract(m, f'{self.label}.{name}')
        raise Outside(f'{self.label}.{name}')

class BranchObj(SymVal):
    FIELDS = ('_constants', '_nextconst', '_worlds', '_nextworld', '_nodes', '_index', '_ticked', '_parent', '_origin', '_model', 'worlds', 'constants', 'events')
    def __init__(self, pfx='b', fresh=True):
        self.f = {}
        self.pfx = pfx
        if fresh:
            self.f['_constants'] = SetVal(z3.Const(f'{pfx}._constants', IntSet), 'const')
            self.f['_nextconst'] = ConstKey(z3.Int(f'{pfx}._nextconst'))
            self.f['_worlds'] = SetVal(z3.Const(f'{pfx}._worlds', IntSet), 'int')
            self.f['_nextworld'] = z3.Int(f'{pfx}._nextworld')
            self.f['_nodes'] = Opaque('qset', dict(append=None, copy=lambda it: Opaque('qset', dict(append=None))))
            self.f['_index'] = Opaque('Index', dict(add=None, copy=lambda it: Opaque('Index', dict(add=None))))
            self.f['_ticked'] = Opaque('set', dict(copy=lambda it: Opaque('set', {})))
            self.f['events'] = Opaque('events', dict(copy=lambda it, **kw: Opaque('events', {})))
        self.closed = z3.Bool(f'{pfx}.closed')
        self.written = []
    def sym_getattr(self, it, name):
        if name in self.f: return self.f[name]
        if name == 'closed': return self.closed          # property Branch.closed: contract in C16
        if name == 'Index':
            return Contract(lambda it, keys: Opaque('Index', dict(add=None, copy=lambda it: Opaque('Index', dict(add=None)))), 'Branch.Index')
        if name == 'INDEX_KEYS':
            from pytableaux.proof.common import Branch
            return Branch.INDEX_KEYS
        if name == 'emit':
            # trusted: EventEmitter.emit calls listeners; no listener writes the private fields (C06.frame scan)
            return Contract(lambda it, *a, **k: None, 'EventEmitter.emit', trusted=True)
        if name in self.FIELDS: raise PyExc(AttributeError, (name,))
        from pyvc.interp import private_helper
        from pytableaux.proof.common import Branch
        ok, v = private_helper(it, Branch, name, self, getattr(self, 'inlined', None))
        if ok: return v
        raise Outside(f'Branch.{name}')
    def sym_setattr(self, it, name, v):
        if name == 'parent':
            self.f['_parent'] = v; return               # property setter: touches _parent/_origin only
        if name not in self.FIELDS: raise Outside(f'write to Branch.{name}')
        self.written.append(name)
        self.f[name] = v
    def sym_truth(self, it): return True
    def sym_type(self, it): return BranchCls()

class BranchCls(SymVal):
    def sym_getattr(self, it, name):
        if name == '__new__':
            return Contract(lambda it, cls: BranchObj('copy', fresh=False), 'object.__new__')
        raise Outside(f'type(branch).{name}')

def inv_fresh(b: BranchObj):
    x = z3.Int('x!inv')
    return [('fresh-constant', z3.Not(z3.IsMember(b.f['_nextconst'].k, b.f['_constants'].t))),
            ('fresh-world', z3.ForAll([x], z3.Implies(z3.IsMember(x, b.f['_worlds'].t), x < b.f['_nextworld'])))]

def wf(b: BranchObj, node: NodeSym = None):
    "type invariants: keys and worlds are non-negative"
    x = z3.Int('x!wf')
    out = [b.f['_nextconst'].k >= 0, b.f['_nextworld'] >= 0,
           z3.ForAll([x], z3.Implies(z3.IsMember(x, b.f['_constants'].t), x >= 0)),
           z3.ForAll([x], z3.Implies(z3.IsMember(x, b.f['_worlds'].t), x >= 0))]
    if node is not None:
        out += [z3.ForAll([x], z3.Implies(z3.IsMember(x, node.consts), x >= 0)),
                z3.ForAll([x], z3.Implies(z3.IsMember(x, node.worlds), x >= 0))]
    return out
