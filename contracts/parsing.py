"""Class model of lang/parsing.py ParseContext (C13): the input is an SMT array of code points with a length,
`pos` an integer, the symbol table two uninterpreted functions (in_table, ctype) over code points."""
from __future__ import annotations

def _new_private(model, name):
    "a private helper the model has no contract for (e.g. extracted by a refactoring): interpreted from source"
    from pyvc.interp import is_private_name
    return is_private_name(name) and name not in getattr(model, 'NO_INLINE', ())
import types
import z3
from pyvc import source
from pyvc.interp import SymVal, Outside, PyExc, Contract, BoundSource, LoopSpec

CT = z3.Function('ctype', z3.IntSort(), z3.IntSort())         # code point -> type code
INTAB = z3.Function('in_table', z3.IntSort(), z3.BoolSort())
WS = 7            # type code of Marking.whitespace (any distinct constant)
DIGIT = 8

_CODES = {}
def type_code(obj):
    "an injective code per table item type (assigned on first use; 7 and 8 are reserved)"
    from pytableaux.lang import Marking
    if obj is Marking.whitespace: return WS
    if obj is Marking.digit: return DIGIT
    try: key = obj if isinstance(obj, type) else (type(obj).__name__, getattr(obj, 'name', str(obj)))
    except Exception: key = str(obj)
    if key not in _CODES: _CODES[key] = 100 + len(_CODES)
    return _CODES[key]

class CharV(SymVal):
    def __init__(self, code): self.code = code
    def sym_truth(self, it): return True
class StrV(SymVal):
    def __init__(self, A, n): self.A, self.n = A, n
    def sym_getitem(self, it, i):
        if isinstance(i, int): i = z3.IntVal(i)
        if not isinstance(i, z3.ArithRef): raise Outside('string slice')
        if not it.fork(z3.And(i >= -self.n, i < self.n)): raise PyExc(IndexError, ('string index out of range',))
        j = z3.If(i < 0, i + self.n, i)
        return CharV(self.A[j])
    def sym_len(self, it): return self.n
class CTypeV(SymVal):
    def __init__(self, code): self.code = code
    def sym_is(self, it, other):
        if isinstance(other, CTypeV): return self.code == other.code
        if other is None: return False
        return self.code == type_code(other)
    def sym_truth(self, it): return True
class EntryV(SymVal):
    def __init__(self, ch): self.ch = ch
    def sym_getitem(self, it, k):
        if k == 0: return CTypeV(CT(self.ch.code))
        if k == 1: return ('value', self.ch)
        raise PyExc(IndexError, ())
class TableV(SymVal):
    def sym_getitem(self, it, ch):
        if ch is None: raise PyExc(KeyError, (None,))
        if not isinstance(ch, CharV): raise Outside('table[<non-char>]')
        if not it.fork(INTAB(ch.code)): raise PyExc(KeyError, ())
        return EntryV(ch)

class CtxM(SymVal):
    INLINE = ('current', 'next', 'has_current', 'has_next', 'assert_end', 'advance', 'chomp', 'type', 'value', 'assert_current', 'assert_current_is',
              'assert_current_in', 'bind', 'check_bound', 'unbind', 'close', 'open')
    def __init__(self, pfx='c'):
        from pytableaux.lang.parsing import ParseContext
        self.cls = ParseContext
        self.input = StrV(z3.Array(f'{pfx}.input', z3.IntSort(), z3.IntSort()), z3.Int(f'{pfx}.n'))
        self.pos = z3.Int(f'{pfx}.pos')
        self.bound = BoundSet(z3.Const(f'{pfx}.bound', z3.SetSort(z3.IntSort())))
        self.table = TableV()
        self.inlined = {}
        self.written = []
    def wf(self): return [self.input.n >= 0, self.pos >= 0]
    def sym_getattr(self, it, name):
        if name in ('input', 'pos', 'bound', 'table'): return getattr(self, name)
        if name == '_unexp_msg': return Contract(lambda it: '<msg>', 'ParseContext._unexp_msg')
        for c in self.cls.__mro__:
            if name in c.__dict__:
                v = c.__dict__[name]
                if isinstance(v, types.FunctionType) and (name in self.INLINE or _new_private(self, name)):
                    fi = source.of_function(v); self.inlined[fi.key] = fi
                    return BoundSource(fi, v, c, self)
                from pyvc.interp import private_helper as _ph
                _ok, _v = _ph(it, self.cls, name, self, getattr(self, 'inlined', None))
                if _ok: return _v
                raise Outside(f'ParseContext.{name} (no contract)')
        raise PyExc(AttributeError, (name,))
    def sym_setattr(self, it, name, v):
        self.written.append(name)
        if name == 'pos': self.pos = v; return
        raise Outside(f'write ParseContext.{name}')
    def sym_truth(self, it): return True

class VarV(SymVal):
    def __init__(self, key): self.key = key
    def sym_getattr(self, it, name):
        if name == 'spec': return '<spec>'
        raise Outside(name)
class SentVars(SymVal):
    def __init__(self, S): self.S = S
    def sym_getattr(self, it, name):
        if name == 'variables': return BoundSet(self.S, frozen=True)
        raise Outside(name)
class BoundSet(SymVal):
    def __init__(self, S, frozen=False): self.S, self.frozen = S, frozen
    def sym_contains(self, it, x): return z3.IsMember(x.key, self.S)
    def sym_len(self, it):
        n = it.fresh_int('nbound'); it.assume(n >= 0); it.assume((n == 0) == (self.S == z3.EmptySet(z3.IntSort()))); return n
    def sym_truth(self, it): return self.S != z3.EmptySet(z3.IntSort())
    def sym_getattr(self, it, name):
        if name == 'add' and not self.frozen:
            def add(it, x): self.S = z3.SetAdd(self.S, x.key)
            return Contract(add, 'set.add')
        if name == 'remove' and not self.frozen:
            def remove(it, x):
                if not it.fork(z3.IsMember(x.key, self.S)): raise PyExc(KeyError, ())
                self.S = z3.SetDel(self.S, x.key)
            return Contract(remove, 'set.remove')
        raise Outside(f'set.{name}')

def parsing_world():
    from pyvc.world import World
    from pytableaux.lang import parsing
    w = World()
    # chomp: while self.type(self.input[self.pos], None) is Marking.whitespace: self.pos += 1
    fi = source.get('pytableaux/lang/parsing.py', 'ParseContext.chomp')
    def inv(it, fr):
        c = fr.locals['self']; k = z3.Int('k!chomp')
        p0 = fr.locals['_pos0']
        return [('range', z3.And(p0 <= c.pos, c.pos <= c.input.n)),
                ('blanks', z3.ForAll([k], z3.Implies(z3.And(p0 <= k, k < c.pos), z3.And(INTAB(c.input.A[k]), CT(c.input.A[k]) == WS))))]
    def havoc(it, fr):
        c = fr.locals['self']
        c.pos = it.fresh_int('pos')
    def variant(it, fr):
        c = fr.locals['self']
        return c.input.n - c.pos
    def on_entry(it, fr): fr.locals['_pos0'] = fr.locals['self'].pos
    w.loop(fi.key, 0, LoopSpec(invariant=inv, havoc=havoc, variant=variant, on_entry=on_entry))
    return w
