"""Class models for tools/hybrids.py qset (C18): the backing list is an SMT array + length, the backing set a z3
set; the representation invariant is Skolemised with a ghost position function (DESIGN §2.2, spike S8).

  Inv(A, n, S, pos):  n >= 0
                      forall x in S:      0 <= pos(x) < n  and  A[pos(x)] = x
                      forall 0 <= p < n:  A[p] in S        and  pos(A[p]) = p        (hence distinctness)

Builtin axioms (trusted, CPython list/set semantics): list.insert with index clamping, list.__getitem__/__setitem__/
__delitem__ for an integer index with negative-index normalisation and IndexError, list.reverse/clear/copy, set.add/
remove/clear/copy/difference_update.
"""
from __future__ import annotations

def _new_private(model, name):
    "a private helper the model has no contract for (e.g. extracted by a refactoring): interpreted from source"
    from pyvc.interp import is_private_name
    return is_private_name(name) and name not in getattr(model, 'NO_INLINE', ())
import z3
from pyvc.interp import SymVal, Outside, PyExc, Contract, GenList

E = z3.IntSort()

class ListVal(SymVal):
    def __init__(self, A, n): self.A, self.n = A, n
    def norm(self, it, i):
        "python index normalisation for item access; raises IndexError when out of range"
        if isinstance(i, int): i = z3.IntVal(i)
        if not isinstance(i, z3.ArithRef): raise Outside('non-integer list index')
        j = z3.If(i < 0, i + self.n, i)
        if not it.fork(z3.And(j >= 0, j < self.n)): raise PyExc(IndexError, ('list index out of range',))
        return j
    def sym_getitem(self, it, i):
        if isinstance(i, slice): raise Outside('list slice')
        return self.A[self.norm(it, i)]
    def sym_setitem(self, it, i, v):
        if isinstance(i, slice): raise Outside('list slice assignment')
        j = self.norm(it, i)
        self.A = z3.Store(self.A, j, v)
    def sym_delitem(self, it, i):
        if isinstance(i, slice): raise Outside('list slice deletion')
        j = self.norm(it, i)
        p = z3.Int('p!del')
        self.A = z3.Lambda([p], z3.If(p < j, self.A[p], self.A[p + 1]))
        self.n = self.n - 1
        self.last_del = j
    def sym_len(self, it): return self.n
    def sym_getattr(self, it, name):
        if name == 'insert':
            def insert(it, i, v):
                if isinstance(i, int): i = z3.IntVal(i)
                k = z3.If(i < 0, z3.If(i + self.n < 0, 0, i + self.n), z3.If(i > self.n, self.n, i))
                p = z3.Int('p!ins')
                self.A = z3.Lambda([p], z3.If(p < k, self.A[p], z3.If(p == k, v, self.A[p - 1])))
                self.n = self.n + 1
                self.last_ins = k
            return Contract(insert, 'list.insert')
        if name == 'reverse':
            def reverse(it):
                p = z3.Int('p!rev'); n = self.n; A = self.A
                self.A = z3.Lambda([p], A[n - 1 - p])
            return Contract(reverse, 'list.reverse')
        if name == 'clear':
            def clear(it): self.n = z3.IntVal(0)
            return Contract(clear, 'list.clear')
        if name == 'copy':
            return Contract(lambda it: ListVal(self.A, self.n), 'list.copy')
        raise Outside(f'list.{name}')

class SetValE(SymVal):
    def __init__(self, S): self.S = S
    def sym_contains(self, it, x): return z3.IsMember(x, self.S)
    def sym_getattr(self, it, name):
        if name == 'add':
            def add(it, x): self.S = z3.SetAdd(self.S, x)
            return Contract(add, 'set.add')
        if name == 'remove':
            def remove(it, x):
                if not it.fork(z3.IsMember(x, self.S)): raise PyExc(KeyError, ())
                self.S = z3.SetDel(self.S, x)
            return Contract(remove, 'set.remove')
        if name == 'clear':
            def clear(it): self.S = z3.EmptySet(E)
            return Contract(clear, 'set.clear')
        if name == 'copy':
            return Contract(lambda it: SetValE(self.S), 'set.copy')
        if name == 'difference_update':
            def du(it, xs):
                for x in it.iterate(xs): self.S = z3.SetDel(self.S, x)
            return Contract(du, 'set.difference_update')
        raise Outside(f'set.{name}')

def inv(A, n, S, pos):
    x, p = z3.Int('x!inv'), z3.Int('p!inv')
    return z3.And(n >= 0,
                  z3.ForAll([x], z3.Implies(z3.IsMember(x, S), z3.And(0 <= pos(x), pos(x) < n, A[pos(x)] == x))),
                  z3.ForAll([p], z3.Implies(z3.And(0 <= p, p < n), z3.And(z3.IsMember(A[p], S), pos(A[p]) == p))))

class QsetM(SymVal):
    """`self` in qset methods.  Hooks are the base-class ones (pass / identity), interpreted inline."""
    INLINE = ('insert', '__delitem__', '__setitem__', '__setitem_index__', 'clear', 'copy', 'reverse', 'discard', '_hook_check', '_hook_done', '_hook_cast',
              'add', 'append', 'remove', 'update', '__contains__', '__len__', '__getitem__')
    def __init__(self, pfx='q', fresh=True):
        from pytableaux.tools.hybrids import qset
        self.cls = qset
        if fresh:
            self.seq = ListVal(z3.Array(f'{pfx}.A', E, E), z3.Int(f'{pfx}.n'))
            self.set = SetValE(z3.Const(f'{pfx}.S', z3.SetSort(E)))
        self.inlined = {}
        self.written = []
    def sym_getattr(self, it, name):
        if name == '_seq_': return self.seq
        if name == '_set_': return self.set
        return self.method(it, name)
    def method(self, it, name):
        import types, inspect
        from pyvc import source
        from pyvc.interp import BoundSource
        for c in self.cls.__mro__:
            if name in c.__dict__:
                v = c.__dict__[name]
                if isinstance(v, types.FunctionType) and (name in self.INLINE or _new_private(self, name)):
                    fi = source.of_function(v); self.inlined[fi.key] = fi
                    return BoundSource(fi, v, c, self)
                from pyvc.interp import private_helper as _ph
                _ok, _v = _ph(it, self.cls, name, self, getattr(self, 'inlined', None))
                if _ok: return _v
                raise Outside(f'qset.{name} (no contract)')
        raise PyExc(AttributeError, (name,))
    def sym_setattr(self, it, name, v):
        self.written.append(name)
        if name == '_seq_': self.seq = v; return
        if name == '_set_': self.set = v; return
        raise Outside(f'write qset.{name}')
    def sym_contains(self, it, x):
        # `value in self` dispatches to qset.__contains__ = qsetf.__contains__ (interpreted)
        return it.call(self.method(it, '__contains__'), [x], {})
    def sym_getitem(self, it, k):
        return it.call(self.method(it, '__getitem__'), [k], {})
    def sym_len(self, it): return it.call(self.method(it, '__len__'), [], {})
    def sym_type(self, it): return QsetCls(self)
    def sym_truth(self, it): return True
    def sym_super_getattr(self, it, defcls, name):
        import types
        from pyvc import source
        from pyvc.interp import BoundSource
        mro = self.cls.__mro__
        for c in mro[mro.index(defcls) + 1:]:
            if name in c.__dict__:
                v = c.__dict__[name]
                if isinstance(v, types.FunctionType) and c.__module__.startswith('pytableaux'):
                    fi = source.of_function(v); self.inlined[fi.key] = fi
                    return BoundSource(fi, v, c, self)
                raise Outside(f'super().{name} resolves outside the package ({c.__name__})')
        raise PyExc(AttributeError, (name,))

class QsetCls(SymVal):
    def __init__(self, q): self.q = q

def container_world():
    from pyvc.world import World
    from pytableaux import errors
    from pytableaux.errors import Emsg
    from pyvc.interp import ExcValue
    w = World()
    def hook(it, what, args):
        if what[0] == 'getattr' and args[0] is Emsg:
            member = getattr(Emsg, what[1]); cls = member.cls if hasattr(member, 'cls') else member.value[0]
            return Contract(lambda it, *a: ExcValue(cls, a), f'Emsg.{what[1]}')
        return NotImplemented
    w.attr_hooks.append(hook)
    from typing import SupportsIndex
    orig = w.builtin_models[isinstance]
    def isinst(it, x, cls):
        if isinstance(x, z3.ArithRef) and cls is SupportsIndex: return True
        if isinstance(x, slice) and cls is SupportsIndex: return False
        return orig(it, x, cls)
    w.builtin_models[isinstance] = isinst
    w.builtin_models[object.__new__] = lambda it, cls: QsetM('copy', fresh=False)
    return w
