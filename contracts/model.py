"""Class model of models/__init__.py BaseModel for the *model builder* functions (C05 / C02 (C<-)):
`_read_node`, `set_literal_value`, `set_opaque_value`, `set_atomic_value`, `is_sentence_literal`,
`is_sentence_opaque` are interpreted from source; the frame dictionaries are ghost maps recorded on the model.
"""
from __future__ import annotations

def _new_private(model, name):
    "a private helper the model has no contract for (e.g. extracted by a refactoring): interpreted from source"
    from pyvc.interp import is_private_name
    return is_private_name(name) and name not in getattr(model, 'NO_INLINE', ())
import types
from pyvc import source
from pyvc.interp import SymVal, Outside, PyExc, Contract, BoundSource, GenList
from contracts.rules import STerm, NodeVal, WorldTok, make_world
from spec import semantics as S

class ValName(SymVal):
    "a truth value of the logic, by name (concrete)"
    def __init__(self, name): self.name = name
    def __repr__(self): return self.name
    def __eq__(self, o): return isinstance(o, ValName) and o.name == self.name
    def __hash__(self): return hash(self.name)
    def sym_is(self, it, other): return isinstance(other, ValName) and other.name == self.name
    def sym_compare(self, it, op, other, reflected):
        n = other.name if isinstance(other, ValName) else other
        if op == 'Eq': return self.name == n
        if op == 'NotEq': return self.name != n
        # numeric order of the value enums (C07.<L>.encoding: F least, T greatest; N below B where both exist)
        rank = {'F': 0, 'N': 1, 'B': 2, 'T': 3}
        if self.name in rank and n in rank:
            a, b = (rank[n], rank[self.name]) if reflected else (rank[self.name], rank[n])
            return dict(Lt=a < b, LtE=a <= b, Gt=a > b, GtE=a >= b)[op]
        raise Outside('ordering of value names')
    def sym_truth(self, it): return True

class ValuesByName(SymVal):
    def __init__(self, logic): self.names = [m.name for m in logic.Meta.values]
    def sym_getitem(self, it, k):
        n = k.name if isinstance(k, ValName) else k
        if isinstance(n, str) and n in self.names: return ValName(n)
        raise PyExc(KeyError, (n,))

class GhostDict(SymVal):
    "dict[Sentence -> value] of one frame; identity comparison `is not value` is by value name"
    def __init__(self, store, kind, world): self.store, self.kind, self.world = store, kind, world
    def sym_getattr(self, it, name):
        if name == 'get':
            return Contract(lambda it, k, d=None: self.store.get((self.kind, k, self.world), d), 'dict.get')
        raise Outside(f'dict.{name}')
    def sym_setitem(self, it, k, v): self.store[(self.kind, k, self.world)] = v
    def sym_getitem(self, it, k):
        try: return self.store[(self.kind, k, self.world)]
        except KeyError: raise PyExc(KeyError, (k,))

class FrameObj(SymVal):
    def __init__(self, store, world): self.store, self.world = store, world
    def sym_getattr(self, it, name):
        if name in ('atomics', 'opaques'): return GhostDict(self.store, name, self.world)
        if name == 'predicates': return PredMap(self.store, self.world)
        raise Outside(f'Frame.{name}')
class PredMap(SymVal):
    def __init__(self, store, world): self.store, self.world = store, world
    def sym_getitem(self, it, pred): return GhostDict(self.store, ('pred', pred), self.world)
class FrameMap(SymVal):
    def __init__(self, store): self.store = store
    def sym_getitem(self, it, w): return FrameObj(self.store, w)

class Sink(SymVal):
    "a set/relation whose content is irrelevant for the obligation at hand"
    def __init__(self, label): self.label = label; self.log = []
    def sym_getattr(self, it, name):
        return Contract(lambda it, *a, **k: self.log.append((name, a)), f'{self.label}.{name}')
    def sym_getitem(self, it, k): self.log.append(('getitem', k)); return None

class MetaView(SymVal):
    def __init__(self, logic): self.M = logic.Meta
    def sym_getattr(self, it, name):
        if name in ('modal', 'quantified', 'many_valued'): return bool(getattr(self.M, name))
        if name in ('modal_operators', 'truth_functional_operators'): return getattr(self.M, name)
        if name == 'unassigned_value': return ValName(self.M.unassigned_value.name)
        raise Outside(f'Meta.{name}')

class ModelObj(SymVal):
    INLINE = ('_read_node', 'set_literal_value', 'set_opaque_value', 'set_atomic_value', 'set_predicated_value',
              'is_sentence_literal', 'is_sentence_opaque', '_check_not_finished', 'set_value')
    def __init__(self, logic):
        self.logic = logic
        self.cls = logic.Model
        self.store = {}
        self.sem = S.spec_of(logic.Meta.name)
        self.inlined = {}
        self.sentences, self.constants, self.R = Sink('sentences'), Sink('constants'), Sink('R')
    def sym_getattr(self, it, name):
        if name == 'finished' or name == '_finished': return False
        if name == 'Meta': return MetaView(self.logic)
        if name == 'values': return ValuesByName(self.logic)
        if name == 'frames': return FrameMap(self.store)
        if name in ('sentences', 'constants', 'R'): return getattr(self, name)
        if name == 'truth_function':
            def tf(it, oper, *vals):
                # contract: the spec table (C07)
                out = self.sem.op(oper.name, *[S.VAL[v.name] for v in vals])
                return ValName(S.NAME[out])
            return Contract(tf, 'Model.truth_function')
        for c in self.cls.__mro__:
            if name in c.__dict__:
                v = c.__dict__[name]
                if isinstance(v, types.FunctionType) and (name in self.INLINE or _new_private(self, name)):
                    fi = source.of_function(v)
                    self.inlined[fi.key] = fi
                    return BoundSource(fi, v, c, self)
                from pyvc.interp import private_helper as _ph
                _ok, _v = _ph(it, self.cls, name, self, getattr(self, 'inlined', None))
                if _ok: return _v
                raise Outside(f'Model.{name} (no contract)')
        raise PyExc(AttributeError, (name,))
    def sym_truth(self, it): return True

def model_world():
    w = make_world()
    from pytableaux.proof import common as C
    from pytableaux.lang import Atomic, Predicated, Operated, Quantified
    return w
