"""Class models for lang/lex.py sentences (C15): parameters carry a symbolic key (z3 Int) and a symbolic kind
(constant / variable); sub-sentences are opaque and expose the *spec functions* (subst, consts, vars, preds,
atoms, opers, quants) as their attribute/method contracts, so every function is verified modularly against its
own unfolding of the spec, with the contract on sub-terms as the induction hypothesis."""
from __future__ import annotations
import itertools
import z3
from pyvc.interp import SymVal, Outside, PyExc, Contract, GenList, LocalList

class ParamV(SymVal):
    def __init__(self, name, key=None, is_const=None):
        self.name = name
        self.key = key if key is not None else z3.Int(f'{name}.key')
        self.is_const = is_const if is_const is not None else z3.Bool(f'{name}.is_const')
    def __repr__(self): return self.name
    def sym_compare(self, it, op, other, reflected):
        if not isinstance(other, ParamV):
            if op == 'Eq': return False
            if op == 'NotEq': return True
            raise Outside('ordering')
        # Lexical equality = equality of sort keys (C14): a parameter's key determines its type and coords
        if op == 'Eq': return self.key == other.key
        if op == 'NotEq': return self.key != other.key
        raise Outside('ordering of parameters')
    def sym_type(self, it): return TypeOf(self)
    def sym_truth(self, it): return True
    def sym_is(self, it, o): return self is o
    def sym_getattr(self, it, name):
        # coordinates: (index, subscript) WITHOUT the type -- Constant(i, s) and Variable(i, s) have the same spec
        if name == 'spec': return (IDX(self.key), SUB(self.key))
        if name == 'index': return IDX(self.key)
        if name == 'subscript': return SUB(self.key)
        raise Outside(f'ParamV.{name}')

IDX = z3.Function('param_index', z3.IntSort(), z3.IntSort())
SUB = z3.Function('param_subscript', z3.IntSort(), z3.IntSort())

def param_axioms(params):
    "items are equal iff they have the same type and the same coordinates (C14); the key determines the type"
    out = []
    for a, b in itertools.combinations(params, 2):
        out.append((a.key == b.key) == z3.And(a.is_const == b.is_const, IDX(a.key) == IDX(b.key), SUB(a.key) == SUB(b.key)))
    return out

class TypeOf(SymVal):
    def __init__(self, p): self.p = p
    def sym_is(self, it, other):
        from pytableaux.lang import Constant, Variable
        if other is Constant: return self.p.is_const
        if other is Variable: return z3.Not(self.p.is_const)
        return False

def ite_param(c, a: ParamV, b: ParamV):
    return ParamV(f'ite({a.name},{b.name})', z3.If(c, a.key, b.key), z3.If(c, a.is_const, b.is_const))

class Spec:
    "an application of a spec function to opaque sub-terms: compared structurally"
    def __init__(self, fn, *args): self.fn, self.args = fn, args
    def key(self):
        def k(x):
            if isinstance(x, Spec): return x.key()
            if isinstance(x, SentV): return ('S', x.name)
            if isinstance(x, ParamV): return ('P', x.name)
            if isinstance(x, (list, tuple)): return tuple(k(i) for i in x)
            return getattr(x, 'name', x)
        return (self.fn,) + tuple(k(a) for a in self.args)
    def __eq__(self, o): return isinstance(o, Spec) and o.key() == self.key()
    def __hash__(self): return hash(self.key())
    def __repr__(self): return f'{self.fn}({", ".join(map(repr, self.args))})'

ELEM = z3.IntSort()
def _set_const(spec): return z3.Const('set!' + repr(spec.key() if isinstance(spec, Spec) else spec), z3.SetSort(ELEM))
def _elem(x):
    if isinstance(x, ParamV): return x.key
    if isinstance(x, z3.ArithRef): return x
    raise Outside(f'set element {type(x).__name__}')
class SetE(SymVal):
    """a frozenset-valued spec expression: union of parts (whole sub-sets named by a Spec, or single elements); `minus` are
    single elements removed afterwards.  z3(): the same as a z3 set, for code that asks about emptiness or overlap."""
    def __init__(self, parts, minus=()): self.parts = list(parts); self.minus = list(minus)
    def norm(self): return frozenset(p.key() if isinstance(p, Spec) else p for p in self.parts)
    def sym_iter(self, it):
        if self.minus: raise Outside('iteration of a set difference')
        return [SegTok(p) for p in self.parts]
    def sym_frozenset(self, it): return self
    def z3(self):
        e = z3.EmptySet(ELEM)
        for p_ in self.parts: e = z3.SetUnion(e, _set_const(p_)) if isinstance(p_, Spec) else z3.SetAdd(e, _elem(p_))
        for m in self.minus: e = z3.SetDel(e, _elem(m))
        return e
    def sym_truth(self, it):
        if not self.parts: return False
        return it.path.fork(self.z3() != z3.EmptySet(ELEM))
    @staticmethod
    def of(it, x):
        if isinstance(x, SetE): return x
        if isinstance(x, (set, frozenset, list, tuple)): return SetE(list(x))
        raise Outside(f'set operand {type(x).__name__}')
    def sym_binop(self, it, op, other, reflected):
        o = SetE.of(it, other)
        if op == 'BitOr':
            if self.minus or o.minus: raise Outside('union of set differences')
            a, b = (o, self) if reflected else (self, o)
            return SetE(a.parts + [p_ for p_ in b.parts if not any(p_ is q or (isinstance(p_, Spec) and p_ == q) for q in a.parts)])
        if op == 'Sub' and not reflected and all(not isinstance(p_, Spec) for p_ in o.parts) and not o.minus:
            return SetE(self.parts, self.minus + o.parts)
        raise Outside(f'set {op}')
    def sym_getattr(self, it, name):
        if name == 'isdisjoint':
            return Contract(lambda it, other: it.path.fork(z3.SetIntersect(self.z3(), SetE.of(it, other).z3()) == z3.EmptySet(ELEM)), 'frozenset.isdisjoint')
        if name == 'union':
            def union(it, *others):
                r = self
                for o in others: r = r.sym_binop(it, 'BitOr', o, False)
                return r
            return Contract(union, 'frozenset.union')
        raise Outside(f'frozenset.{name}')
class SeqE(SymVal):
    "a tuple-valued spec expression: concatenation of parts (single items or whole sub-sequences)"
    def __init__(self, parts): self.parts = list(parts)
    def sym_iter(self, it): return [p if not isinstance(p, Spec) else SegTok(p) for p in self.parts]
class SegTok(SymVal):
    "stands for *all* elements of a sub-collection when a collection is flattened"
    def __init__(self, spec): self.spec = spec

class SentV(SymVal):
    "opaque sub-sentence"
    def __init__(self, name, base=None): self.name, self.base = name, base; self.id = z3.Int(f'{name}.id')     # equal sentences have equal ids
    def __repr__(self): return self.name
    def sym_getattr(self, it, name):
        if name == 'substitute':
            return Contract(lambda it, pnew, pold: SentV(f'subst({self.name},{pnew.name},{pold.name})', Spec('subst', self, pnew, pold)), 'Sentence.substitute')
        if name in ('constants', 'variables', 'predicates', 'atomics'):
            return SetE([Spec(name, self)])
        if name in ('quantifiers', 'operators'):
            return SeqE([Spec(name, self)])
        raise Outside(f'sentence.{name}')
    def sym_is(self, it, o): return self is o
    def sym_truth(self, it): return True
    def sym_type(self, it): raise Outside('type of opaque sentence')

class OperV(SymVal):
    def __init__(self, name='op', is_negation=None):
        self.name = name
        self.is_negation = z3.Bool(f'{name}.is_negation') if is_negation is None else is_negation
    def sym_call(self, it, args, kw):
        ops = it.iterate(args[0]) if len(args) == 1 and not isinstance(args[0], (SentV, SentM)) else list(args)
        return OperatedM(self, ops)
    def sym_is(self, it, other):
        from pytableaux.lang import Operator
        if other is Operator.Negation: return self.is_negation
        if isinstance(other, OperV): return self is other
        return False
class QuantV(SymVal):
    def __init__(self, name='q'): self.name = name
    def sym_call(self, it, args, kw):
        v, s = args
        return QuantifiedM(self, v, s)
    def sym_is(self, it, o): return self is o
class PredV(SymVal):
    def __init__(self, name='P'): self.name = name
    def sym_call(self, it, args, kw):
        ps = it.iterate(args[0]) if len(args) == 1 and not isinstance(args[0], ParamV) else list(args)
        return PredicatedM(self, ps)
    def sym_is(self, it, o): return self is o

class SentM(SymVal):
    cls = None
    INLINE = ()
    def sym_truth(self, it): return True
    def sym_is(self, it, o): return self is o
    def method(self, it, name, raw=False):
        "BoundSource of the real method (for lazy props: the wrapped function)"
        from pyvc import source
        from pyvc.interp import BoundSource
        import inspect, types
        for c in self.cls.__mro__:
            if name in c.__dict__:
                v = c.__dict__[name]
                if isinstance(v, property): v = v.fget
                v = inspect.unwrap(v)
                fi = source.of_function(v)
                return BoundSource(fi, v, c, self), fi
        raise PyExc(AttributeError, (name,))
    def sym_type(self, it): return self.cls

class PredicatedM(SentM):
    def __init__(self, pred, params):
        from pytableaux.lang import Predicated
        self.cls = Predicated
        self.pred, self.params = pred, list(params)
    def sym_getattr(self, it, name):
        if name == 'predicate': return self.pred
        if name == 'params': return tuple(self.params)
        from pyvc.interp import private_helper
        ok, v = private_helper(it, self.cls, name, self)
        if ok: return v
        raise Outside(f'Predicated.{name}')
    def sym_iter(self, it): return list(self.params)       # Sequence mixin over __getitem__/__len__ = params
    def sym_len(self, it): return len(self.params)          # Predicated.__len__ = len(self.params)
    def sym_getitem(self, it, k):                           # Predicated.__getitem__ = self.params[index]
        try: return tuple(self.params)[k]
        except IndexError as e: raise PyExc(IndexError, e.args)

class QuantifiedM(SentM):
    def __init__(self, q, v, s):
        from pytableaux.lang import Quantified
        self.cls = Quantified
        self.q, self.v, self.s = q, v, s
    def sym_getattr(self, it, name):
        if name == 'quantifier': return self.q
        if name == 'variable': return self.v
        if name == 'sentence': return self.s
        if name == 'unquantify': return self.method(it, name)[0]
        from pyvc.interp import private_helper
        ok, v = private_helper(it, self.cls, name, self)
        if ok: return v
        raise Outside(f'Quantified.{name}')

class OperatedM(SentM):
    def __init__(self, oper, operands):
        from pytableaux.lang import Operated
        self.cls = Operated
        self.oper, self.operands = oper, list(operands)
        self.cache = {}          # private cache slots of the derived attributes written from outside the lazy wrapper (checked by the caller's obligation)
    DERIVED_SETS = ('constants', 'variables', 'predicates', 'atomics')
    DERIVED_SEQS = ('operators', 'quantifiers')
    def derived_spec(self, name):
        "the contract of the derived attribute (obligations C15.Operated.<name>)"
        if name in self.DERIVED_SETS: return SetE([Spec(name, x) for x in self.operands])
        return SeqE(([self.oper] if name == 'operators' else []) + [Spec(name, x) for x in self.operands])
    def sym_setattr(self, it, name, v):
        if name.startswith('_') and name[1:] in self.DERIVED_SETS + self.DERIVED_SEQS: self.cache[name[1:]] = v; return
        raise Outside(f'write Operated.{name}')
    def sym_getattr(self, it, name):
        if name in self.DERIVED_SETS + self.DERIVED_SEQS:
            return self.cache[name] if name in self.cache else self.derived_spec(name)
        if name == 'operator': return self.oper
        if name == 'operands': return tuple(self.operands)
        if name == 'lhs': return self.operands[0]
        if name == 'rhs': return self.operands[-1]
        # helper methods the class defines for itself (plain functions): interpreted from source like the method under contract
        import types as _t
        for c in self.cls.__mro__:
            if name in c.__dict__ and isinstance(c.__dict__[name], _t.FunctionType) and c.__module__.startswith('pytableaux'):
                return self.method(it, name)[0]
        raise Outside(f'Operated.{name}')
    def sym_iter(self, it): return list(self.operands)
    def sym_len(self, it): return len(self.operands)
    def sym_getitem(self, it, k):
        try: return tuple(self.operands)[k]
        except IndexError as e: raise PyExc(IndexError, e.args)

def lex_world():
    from pyvc.world import World
    from pytableaux.lang import Constant, Operator
    w = World()
    def set_display(it, items):
        if all(isinstance(x, ParamV) for x in items): return SetE(list(items))
        raise Outside('set display with symbolic elements')
    w.sym_set_display = set_display
    def chain_from_iterable(it, xs):
        items = it.iterate(xs)
        if items and all(isinstance(x, SetE) for x in items): return SetE([p for x in items for p in x.parts])
        if items and all(isinstance(x, SeqE) for x in items): return SeqE([p for x in items for p in x.parts])
        out = GenList()
        for x in items: out.extend(it.iterate(x))
        return out
    def chain(it, *xs):
        if any(isinstance(x, SeqE) for x in xs):
            parts = []
            for x in xs:
                if isinstance(x, SeqE): parts += x.parts
                else: parts += it.iterate(x)
            return SeqE(parts)
        out = GenList()
        for x in xs: out.extend(it.iterate(x))
        return out
    def ordered_set(it, xs=()):
        "qsetf / qset (C18): the distinct items in first-occurrence order; opaque sentences may or may not be equal"
        out = []
        for x in it.iterate(xs):
            dup = False
            for y in out:
                if x is y: dup = True; break
                if isinstance(x, SentV) and isinstance(y, SentV) and it.fork(x.id == y.id): dup = True; break
            if not dup: out.append(x)
        return tuple(out)
    from pytableaux.tools.hybrids import qsetf, qset
    w.contract(qsetf, ordered_set, name='qsetf(xs) (C18: distinct items, first-occurrence order)')
    w.contract(qset, ordered_set, name='qset(xs) (C18: distinct items, first-occurrence order)')
    w.builtin_models[itertools.chain.from_iterable] = chain_from_iterable
    w.builtin_models[itertools.chain] = chain
    def fset(it, xs=()):
        if isinstance(xs, SetE): return xs
        items = it.iterate(xs)
        return SetE(items)
    w.builtin_models[frozenset] = fset
    def tup(it, xs=()):
        if isinstance(xs, SeqE): return xs
        items = it.iterate(xs)
        if any(isinstance(i, SegTok) for i in items): return SeqE([i.spec if isinstance(i, SegTok) else i for i in items])
        return tuple(items)
    w.builtin_models[tuple] = tup
    # Constant(c) on a constant returns it (LexicalAbc call on an instance: C14)
    w.builtin_models[Constant] = lambda it, c: c
    orig = w.call_live
    def call_live(it, f, args, kw):
        if isinstance(f, Operator):          # Operator.Negation(self) etc.
            ops = it.iterate(args[0]) if len(args) == 1 and not isinstance(args[0], (SentV, SentM)) else list(args)
            return OperatedM(LiveOper(f), ops)
        return orig(it, f, args, kw)
    w.call_live = call_live
    return w

class LiveOper(OperV):
    def __init__(self, op):
        from pytableaux.lang import Operator
        super().__init__(op.name, z3.BoolVal(op is Operator.Negation)); self.op = op
    def sym_is(self, it, other):
        from pytableaux.lang import Operator
        if isinstance(other, Operator): return self.op is other
        return super().sym_is(it, other)
