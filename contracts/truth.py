"""Class models and contracts for `Model.TruthFunction` (C07, reused by C08).

Truth values are z3 reals constrained to the numeric values of the logic's `Mval` enum (dyadic floats,
exact).  A call `self.<Op>(..)` / `super().<Op>(..)` inside a body is *not* inlined: it uses the callee's
contract, i.e. the spec table of the logic whose TruthFunction class the call resolves to.
"""
from __future__ import annotations
import z3
from fractions import Fraction
from pyvc.interp import SymVal, Outside, PyExc, Contract
from spec import semantics as S

def num(v) -> z3.ArithRef:
    fr = Fraction(v).limit_denominator(1 << 20)
    return z3.RealVal(f'{fr.numerator}/{fr.denominator}')

class ValuesModel(SymVal):
    "the logic's Mval enum class (`self.values`)"
    def __init__(self, meta_values):
        self.enum = meta_values
        self.members = {m.name: float(m.value) for m in meta_values}
    def domain(self, t):
        return z3.Or(*[t == num(v) for v in self.members.values()])
    def const(self, name): return MvalSym(num(self.members[name]), self)
    def sym_getattr(self, it, name):
        if name in self.members: return self.const(name)
        raise PyExc(AttributeError, (name,))
    def sym_getitem(self, it, k):
        if isinstance(k, MvalSym): return k
        if isinstance(k, str):
            if k in self.members: return self.const(k)
            raise PyExc(KeyError, (k,))
        raise Outside(f'values[{k!r}]')
    def sym_call(self, it, args, kw):
        (k,) = args
        return self.sym_getitem(it, k)
    def sym_iter(self, it): return [self.const(n) for n in self.members]
    def name_of(self, realval) -> str:
        for n, v in self.members.items():
            if Fraction(v) == realval: return n
        return f'?{realval}'

class MvalSym(SymVal):
    def __init__(self, t, vm: ValuesModel):
        self.t, self.vm = t, vm
    def _other(self, other):
        if isinstance(other, MvalSym): return other.t
        if isinstance(other, (int, float)) and not isinstance(other, bool): return num(other)
        return None
    def sym_compare(self, it, op, other, reflected):
        if isinstance(other, str):
            # Mval.__eq__(str): compares with the member *name*
            if op not in ('Eq', 'NotEq'): raise PyExc(TypeError, ('ordering Mval with str',))
            if other in self.vm.members: r = self.t == num(self.vm.members[other])
            else: r = z3.BoolVal(False)
            return r if op == 'Eq' else z3.Not(r)
        o = self._other(other)
        if o is None:
            if op == 'Eq': return False
            if op == 'NotEq': return True
            raise Outside(f'compare Mval with {type(other).__name__}')
        a, b = (o, self.t) if reflected else (self.t, o)
        return dict(Eq=a == b, NotEq=a != b, Lt=a < b, LtE=a <= b, Gt=a > b, GtE=a >= b)[op]
    def sym_is(self, it, other):
        if isinstance(other, MvalSym): return self.t == other.t      # enum members are singletons
        return False
    def sym_binop(self, it, op, other, reflected):
        # Mval.__floordiv__: type(self)(self.value // other)  -> member lookup by value
        if op == 'FloorDiv' and not reflected and isinstance(other, int) and other == 1:
            r = z3.ToReal(z3.ToInt(self.t))
            if not it.fork(self.vm.domain(r)): raise PyExc(ValueError, ('no member with that value',))
            return MvalSym(r, self.vm)
        raise Outside(f'Mval {op}')
    def sym_ite(self, it, c, a, b):
        return MvalSym(z3.If(c, a.t, b.t), self.vm)
    def sym_truth(self, it): return True
    def sym_getattr(self, it, name):
        if name == 'value': return self.t
        raise Outside(f'Mval.{name}')
    def sym_hash(self, it): raise Outside('hash(Mval)')

def spec_term(sem: S.Sem, vm: ValuesModel, opname: str, args: list) -> z3.ArithRef:
    "the spec table of `opname` in `sem` as a nested ite over the code's numeric encoding"
    import itertools
    names = [S.NAME[v] for v in sem.values if S.NAME[v] in vm.members]
    res = None
    tuples = list(itertools.product(names, repeat=len(args)))
    for tup in reversed(tuples):
        out = S.NAME[sem.op(opname, *(S.VAL[n] for n in tup))]
        if out not in vm.members: raise Outside(f'spec value {out} not a member')
        val = num(vm.members[out])
        if res is None: res = val
        else:
            cond = z3.And(*[a == num(vm.members[n]) for a, n in zip(args, tup)])
            res = z3.If(cond, val, res)
    return res

def logic_of_tfclass(tfcls):
    "the registered logic whose Model.TruthFunction is (or is defined in the module of) tfcls, else None"
    from pytableaux.logics import registry
    mod = tfcls.__module__
    try:
        return registry(mod.rsplit('.', 1)[-1])
    except Exception:
        return None

class TFModel(SymVal):
    "`self` inside a TruthFunction method of logic `logic`"
    def __init__(self, logic, world_hooks=None):
        self.logic = logic
        self.tfcls = type(logic.Model.truth_function)
        self.vm = ValuesModel(logic.Meta.values)
        self.sem = S.spec_of(logic.Meta.name)
    def _callee_contract(self, opname, sem, label):
        vm = self.vm
        def contract(it, *args):
            if len(args) != S.ARITY[opname]: raise PyExc(TypeError, ('arity',))
            ts = []
            for a in args:
                if not isinstance(a, MvalSym): raise Outside(f'{label} applied to {type(a).__name__}')
                ts.append(a.t)
            return MvalSym(spec_term(sem, vm, opname, ts), vm)
        return Contract(contract, name=label)
    def sym_getattr(self, it, name):
        if name == 'values': return self.vm
        if name in ('maxval', 'minval'):
            vs = sorted(self.vm.members.items(), key=lambda kv: kv[1])
            return self.vm.const(vs[-1][0] if name == 'maxval' else vs[0][0])
        if name in S.ARITY:
            return self._callee_contract(name, self.sem, f'spec:{self.logic.Meta.name}.{name}')
        from pyvc.interp import private_helper
        ok, v = private_helper(it, self.tfcls, name, self, getattr(self, 'inlined', None))
        if ok: return v
        raise Outside(f'TruthFunction.{name}')
    def sym_super_getattr(self, it, defcls, name):
        """`super().<Op>` inside a body defined in `defcls`: the call resolves into the TruthFunction of the
        logic that defcls's own logic module builds its Model on (class Model(<P>.Model)); the contract is
        <P>'s spec table, which is obligation C07.<P>.<Op>.table in its own right."""
        if name not in S.ARITY: raise Outside(f'super().{name}')
        own = logic_of_tfclass(defcls)
        if own is None: raise Outside(f'super().{name} in a class outside the logic modules')
        plogic = None
        for base in own.Model.__mro__[1:]:
            meta = base.__dict__.get('Meta') or getattr(base, 'Meta', None)
            if meta is not None and getattr(meta, 'name', None) and meta.name != own.Meta.name:
                from pytableaux.logics import registry
                plogic = registry(meta.name); break
        if plogic is None:
            raise Outside(f'super().{name}: no parent logic for {defcls.__qualname__}')
        # the call must really resolve to what <P>.Model.truth_function.<Op> is
        mro = self.tfcls.__mro__
        resolved = None
        for c in mro[mro.index(defcls) + 1:]:
            if name in c.__dict__: resolved = c.__dict__[name]; break
        ptf = type(plogic.Model.truth_function)
        pres = None
        for c in ptf.__mro__:
            if name in c.__dict__: pres = c.__dict__[name]; break
        if resolved is not pres:
            raise Outside(f'super().{name} resolves to {getattr(resolved, "__qualname__", resolved)}, not to {plogic.Meta.name}\'s method')
        psem = S.spec_of(plogic.Meta.name)
        missing = [n for n in self.vm.members if S.VAL[n] not in psem.values]
        if missing: raise Outside(f'super().{name}: parent logic {plogic.Meta.name} lacks values {missing}')
        return self._callee_contract(name, psem, f'spec:{plogic.Meta.name}.{name}')
