"""Class model of BaseModel for the *evaluator* functions (C08): value_of_operated / value_of_quantified and the
per-logic overrides are interpreted from source on concrete families of truth values; callees follow their
contracts: value_of on immediate parts (given values = induction hypothesis), truth_function = spec table (C07),
maxceil/minfloor = max/min in the numeric order of the value enum (proved for _limit_best in C08.limit_best.*)."""
from __future__ import annotations

def _new_private(model, name):
    "a private helper the model has no contract for (e.g. extracted by a refactoring): interpreted from source"
    from pyvc.interp import is_private_name
    return is_private_name(name) and name not in getattr(model, 'NO_INLINE', ())
import types
from pyvc import source
from pyvc.interp import SymVal, Outside, PyExc, Contract, BoundSource, GenList
from contracts.model import ValName
from spec import semantics as S

class TFv(SymVal):
    "model.truth_function: every operator method follows the spec table of the logic (C07)"
    def __init__(self, m): self.m = m
    def _op(self, name):
        def f(it, *vals):
            vs = []
            for v in vals:
                if not isinstance(v, ValName): raise Outside(f'truth function applied to {type(v).__name__}')
                vs.append(S.VAL[v.name])
            return ValName(S.NAME[self.m.sem.op(name, *vs)])
        return Contract(f, f'spec:{self.m.logic.Meta.name}.{name}')
    def sym_getattr(self, it, name):
        if name in S.ARITY: return self._op(name)
        if name == 'generalizers': return type(self.m.logic.Model.truth_function).generalizers
        if name == 'generalize':
            tf = type(self.m.logic.Model.truth_function)
            for c in tf.__mro__:
                if 'generalize' in c.__dict__:
                    fi = source.of_function(c.__dict__['generalize']); self.m.inlined[fi.key] = fi
                    return BoundSource(fi, c.__dict__['generalize'], c, self)
        raise Outside(f'TruthFunction.{name}')
    def sym_call(self, it, args, kw):
        oper, *vals = args
        return self._op(oper.name).fn(it, *vals)

class MetaV(SymVal):
    def __init__(self, logic): self.M = logic.Meta
    def sym_getattr(self, it, name):
        if name in ('modal', 'quantified', 'many_valued'): return bool(getattr(self.M, name))
        if name in ('modal_operators', 'truth_functional_operators'): return getattr(self.M, name)
        if name == 'unassigned_value': return ValName(self.M.unassigned_value.name)
        if name == 'designated_values': return frozenset(ValName(v.name) for v in self.M.designated_values)
        raise Outside(f'Meta.{name}')

class SentTok(SymVal):
    "a sentence given by its head and immediate parts; parts are tokens whose value is given"
    def __init__(self, head=None, parts=(), quantifier=None): self.head, self.parts, self.quantifier = head, list(parts), quantifier
    def sym_getattr(self, it, name):
        if name == 'operator' and self.head is not None: return self.head
        if name == 'quantifier' and self.quantifier is not None: return self.quantifier
        if name == 'lhs': return self.parts[0]
        raise Outside(f'sentence.{name}')
    def sym_iter(self, it): return list(self.parts)

class WorldV(SymVal):
    "a world of the model: accessible from the evaluation world (index into the family) or not (index None)"
    def __init__(self, index): self.index = index
    def __repr__(self): return f'w{self.index}' if self.index is not None else 'w-inaccessible'
    def sym_truth(self, it): return True

class AccessV(SymVal):
    """Model.R read directly: R[w] for the evaluation world = the accessible worlds (one per family member); iterating R = every
    world of the model = those plus one world that is not accessible from the evaluation world"""
    def __init__(self, model): self.m = model
    def sym_getitem(self, it, w):
        if self.m.family is None: raise Outside('Model.R outside a modal clause')
        if self.m.eval_world is not None and not (w is self.m.eval_world or w == self.m.eval_world): raise Outside('Model.R[w] for another world than the one asked about')
        return GenList([WorldV(i) for i in range(len(self.m.family))])
    def sym_iter(self, it):
        if self.m.family is None: raise Outside('Model.R outside a modal clause')
        return [WorldV(i) for i in range(len(self.m.family))] + [WorldV(None)]
    def sym_len(self, it): return len(self.m.family) + 1

class EvalModel(SymVal):
    INLINE = ('value_of_operated', 'value_of_quantified', '_unquantify_values', '_unmodal_values', '_check_finished', 'value_of_atomic', 'value_of_opaque', 'value_of_predicated', 'value_of', 'is_sentence_opaque')
    def __init__(self, logic, part_values=None, family=None):
        self.logic, self.cls = logic, logic.Model
        self.sem = S.spec_of(logic.Meta.name)
        self.part_values = part_values or {}     # id(token) -> ValName
        self.family = family                     # values of the instances / accessible worlds (list of ValName)
        self.inlined = {}
        self.kw_seen = []                         # keyword arguments the callees under contract received (the world must be forwarded)
        self.worlds_asked = []                    # worlds of the model at which an override evaluated the operand itself
        self.inaccessible_top = True              # value of the operand at the inaccessible world: top (set False for bottom)
        self.eval_world = None                    # the world the clause is asked about (set by the obligation)
        order = sorted(logic.Meta.values, key=lambda v: v.value)
        self.order = [v.name for v in order]
    def sym_getattr(self, it, name):
        if name in ('finished', '_finished'): return True
        if name == 'Meta': return MetaV(self.logic)
        if name == 'truth_function': return TFv(self)
        if name == 'maxval': return ValName(self.order[-1])
        if name == 'minval': return ValName(self.order[0])
        if name == 'valseq': return tuple(ValName(v.name) for v in self.logic.Meta.values)
        if name == 'values': return ValuesV(self.logic)
        if name == 'R': return AccessV(self)
        if name == 'value_of':
            def vo(it, s, **kw):
                w = kw.get('world')
                if isinstance(w, WorldV) and self.family is not None:
                    # the operand of a modal sentence at a world of the model: an accessible one has the family's value; the
                    # world that is NOT accessible from the evaluation world has the value that would show in the result
                    self.worlds_asked.append(w)
                    if w.index is not None: return self.family[w.index]
                    return ValName(self.order[-1] if self.inaccessible_top else self.order[0])
                self.kw_seen.append(('value_of', dict(kw)))
                if id(s) in self.part_values: return self.part_values[id(s)]
                raise Outside('value_of on an unknown part')
            return Contract(vo, 'Model.value_of (induction hypothesis)')
        for c in self.cls.__mro__:
            if name in c.__dict__:
                v = c.__dict__[name]
                if isinstance(v, types.FunctionType) and (name in self.INLINE or _new_private(self, name)):
                    if name in ('_unquantify_values', '_unmodal_values') and c.__module__ == 'pytableaux.models':
                        return Contract(lambda it, s, **kw: (self.kw_seen.append((name, dict(kw))), GenList(self.family))[1], f'BaseModel.{name} (values of the instances)')
                    fi = source.of_function(v); self.inlined[fi.key] = fi
                    return BoundSource(fi, v, c, self)
                from pyvc.interp import private_helper as _ph
                _ok, _v = _ph(it, self.cls, name, self, getattr(self, 'inlined', None))
                if _ok: return _v
                raise Outside(f'Model.{name} (no contract)')
        raise PyExc(AttributeError, (name,))
    def sym_super_getattr(self, it, defcls, name):
        mro = self.cls.__mro__
        for c in mro[mro.index(defcls) + 1:]:
            if name in c.__dict__:
                v = c.__dict__[name]
                if name in ('_unquantify_values', '_unmodal_values') and c.__module__ == 'pytableaux.models':
                    return Contract(lambda it, s, **kw: (self.kw_seen.append((name, dict(kw))), GenList(self.family))[1], f'BaseModel.{name} (values of the instances)')
                if isinstance(v, types.FunctionType) and (name in self.INLINE or _new_private(self, name)):
                    fi = source.of_function(v); self.inlined[fi.key] = fi
                    return BoundSource(fi, v, c, self)
                raise Outside(f'super().{name}')
        raise PyExc(AttributeError, (name,))
    def sym_truth(self, it): return True

class ValuesV(SymVal):
    def __init__(self, logic): self.names = [m.name for m in logic.Meta.values]
    def sym_getattr(self, it, name):
        if name in self.names: return ValName(name)
        raise PyExc(AttributeError, (name,))
    def sym_getitem(self, it, k):
        n = k.name if isinstance(k, ValName) else k
        if n in self.names: return ValName(n)
        raise PyExc(KeyError, (n,))

def eval_world(model: EvalModel):
    from pyvc.world import World
    from pytableaux import tools as T
    from pytableaux.lang import Operator
    w = World()
    def mx(is_max):
        def f(it, limit, xs, default=None):
            vals = it.iterate(xs)
            if not vals:
                if default is not None: return default
                raise PyExc(ValueError, ())
            key = lambda v: model.order.index(v.name)
            return (max if is_max else min)(vals, key=key)
        return f
    w.builtin_models[T.maxceil] = mx(True)       # contract proved in C08.limit_best.*
    w.builtin_models[T.minfloor] = mx(False)
    w.allow_native(Operator)
    from pyvc.interp import LocalSet
    w.builtin_models[set] = lambda it, xs=(): LocalSet(it.iterate(xs))
    def hook(it, what, args):
        if what == ('contains',):
            cont, x = args
            if isinstance(x, ValName) and isinstance(cont, (set, frozenset, tuple, list)): return any(x == i for i in cont)
        return NotImplemented
    w.attr_hooks.append(hook)
    orig = w.call_builtin_method
    def cbm(it, f, args, kw):
        if isinstance(f.__self__, types.MappingProxyType) and f.__name__ == 'get': return f(*args, **kw)
        return orig(it, f, args, kw)
    w.call_builtin_method = cbm
    orig_live = w.call_live
    def call_live(it, f, args, kw):
        if isinstance(f, type) and f is Operator and len(args) == 1 and isinstance(args[0], Operator): return args[0]
        return orig_live(it, f, args, kw)
    w.call_live = call_live
    return w
